"""Red-team round 2 findings against tdstatic/equiv.py (focus: exceptions and context managers).

FINDINGS = [(title, src_a, src_b, kwargs_dict_or_None), ...]   kwargs: 'dicts' / 'helpers_a' / 'helpers_b' (helper SOURCE text)
DEMOS[title] = (stub source, call source): the stub source is exec'd into a fresh namespace together with version A or B of the
   function; the call source defines `run(f)` which returns what is observable.
GATE_FINDINGS = [(title, current_module_src, reference_module_src, qualname)]: the same pairs wrapped in a module and taken as
   equivalent by gate.apply (production path with module context).
STEP[title] = the step of equiv.py held responsible (with line numbers of the copy in /tmp/redteam2/2).

Run:  /venv/bin/python /tmp/redteam2/2/findings.py      (prints same() and the two differing outcomes for every finding)
"""
import ast
import sys
import textwrap

sys.path.insert(0, __import__('os').path.dirname(__import__('os').path.dirname(__import__('os').path.abspath(__file__))))
from tdstatic import equiv, gate  # noqa: E402

equiv.REPO_DEFINED[0] = frozenset()

FINDINGS = []
DEMOS = {}
STEP = {}
_step = ['']


def F(title, a, b, kw, stubs, call, step=None):
    if step:
        _step[0] = step
    FINDINGS.append((title, a, b, kw))
    DEMOS[title] = (stubs, call)
    STEP[title] = _step[0]


COMMON = '''
class E(Exception):
    pass
class Rec:
    def __init__(self, **kw):
        self.__dict__.update(kw)
class Log:
    """collaborator stub: records every call made on it (name, args) in order"""
    def __init__(self, **ret):
        self.calls = []
        self._ret = ret
    def __getattr__(self, name):
        if name.startswith('__'):
            raise AttributeError(name)
        def m(*a):
            self.calls.append((name,) + a)
            r = self._ret.get(name)
            if isinstance(r, BaseException):
                raise r
            return r
        return m
'''


# ---------------------------------------------------------------------------------------------------- seq/Try (equiv.py 2897-2907)
F('BR1 bare raise dedented out of the handler (no active exception there)',
  '''def f(self, r):
    try:
        self.process(r)
        return True
    except E:
        self.errors += 1
    raise''',
  '''def f(self, r):
    try:
        self.process(r)
        return True
    except E:
        self.errors += 1
        raise''', None,
  COMMON, '''
def run(f):
    s = Log(process=E('bad record')); s.errors = 0
    return f(s, 1)
''', step='seq/Try (equiv.py 2897-2907)')

F('BR3 loop: continue at the end of the try body, raise after the handler',
  '''def f(self, recs):
    for r in recs:
        try:
            self.process(r)
            continue
        except E:
            self.errors += 1
        raise''',
  '''def f(self, recs):
    for r in recs:
        try:
            self.process(r)
            continue
        except E:
            self.errors += 1
            raise''', None,
  COMMON, '''
def run(f):
    s = Log(process=E('bad record')); s.errors = 0
    return f(s, [1])
''')

F('BR4 try-else returns, raise after',
  '''def f(self, r):
    try:
        v = self.process(r)
    except E:
        self.errors += 1
    else:
        return v
    raise''',
  '''def f(self, r):
    try:
        v = self.process(r)
    except E:
        self.errors += 1
        raise
    else:
        return v''', None,
  COMMON, '''
def run(f):
    s = Log(process=E('bad record')); s.errors = 0
    return f(s, 1)
''')

F('BR2 traceback.format_exc() after the handler vs inside it',
  '''def f(self, r):
    import traceback
    try:
        self.process(r)
        return True
    except E:
        self.errors += 1
    self.report(traceback.format_exc().splitlines()[-1])
    return False''',
  '''def f(self, r):
    import traceback
    try:
        self.process(r)
        return True
    except E:
        self.errors += 1
        self.report(traceback.format_exc().splitlines()[-1])
    return False''', None,
  COMMON, '''
def run(f):
    s = Log(process=E('bad record')); s.errors = 0
    f(s, 1)
    return s.calls[-1]
''')

F('BR5 raise of a new exception after the handler vs inside (implicit chaining)',
  '''def f(self, r):
    try:
        self.process(r)
        return True
    except E:
        self.errors += 1
    raise ValueError('bad')''',
  '''def f(self, r):
    try:
        self.process(r)
        return True
    except E:
        self.errors += 1
        raise ValueError('bad')''', None,
  COMMON, '''
def run(f):
    s = Log(process=E('bad record')); s.errors = 0
    try:
        f(s, 1)
    except ValueError as e:
        return repr(e.__context__)
''')

F('BR6 use of the handler name dedented out of the handler (name is deleted at the end of the handler)',
  '''def f(self, r):
    try:
        self.process(r)
        return True
    except E as e:
        self.errors += 1
        self.log(e)
    self.report(r, e)
    return False''',
  '''def f(self, r):
    try:
        self.process(r)
        return True
    except E as e:
        self.errors += 1
        self.log(e)
        self.report(r, e)
    return False''', None,
  COMMON, '''
def run(f):
    s = Log(process=E('bad record')); s.errors = 0
    return f(s, 1)
''')

# ---------------------------------------------------------------------------------------------------- copy_propagate (2436-2448)
F('CP1 copy_propagate: block "always leaves" by a raise that the enclosing try catches; p read after the try',
  '''def f(self, size):
    try:
        if self.padded:
            n = size
            n += 4
            self.note(n)
            raise E('padded')
        self.work(size)
    except E:
        pass
    return size''',
  '''def f(self, size):
    try:
        if self.padded:
            size += 4
            self.note(size)
            raise E('padded')
        self.work(size)
    except E:
        pass
    return size''', None,
  COMMON, '''
def run(f):
    s = Log(); s.padded = True
    return f(s, 10)
''', step='copy_propagate (2436-2448)')

F('CP2 same, local instead of parameter, loop-free retry',
  '''def f(self):
    off = self.tell()
    try:
        if self.at_pad():
            p = off
            p += self.pad
            self.seek(p)
            raise E('pad')
        self.read()
    except E:
        pass
    return off''',
  '''def f(self):
    off = self.tell()
    try:
        if self.at_pad():
            off += self.pad
            self.seek(off)
            raise E('pad')
        self.read()
    except E:
        pass
    return off''', None,
  COMMON, '''
def run(f):
    s = Log(tell=100, at_pad=True); s.pad = 4
    return f(s)
''')

F('CP3 copy_propagate: p read in the else-part of the enclosing try',
  '''def f(self, size):
    try:
        n = size
        n += 4
        self.note(n)
    except E:
        return None
    else:
        self.done(size)''',
  '''def f(self, size):
    try:
        size += 4
        self.note(size)
    except E:
        return None
    else:
        self.done(size)''', None,
  COMMON, '''
def run(f):
    s = Log()
    f(s, 10)
    return s.calls
''')

# ---------------------------------------------------------------------------------------------------- assignments_to_ifexp default-then-override (1415-1428)
F('I1 default-then-override inside try: on failure of the test the default is / is not stored (carried value)',
  '''def f(self):
    r = self.last
    try:
        r = None
        if self.probe():
            r = 1
    except ValueError:
        pass
    return r''',
  '''def f(self):
    r = self.last
    try:
        r = 1 if self.probe() else None
    except ValueError:
        pass
    return r''', None,
  COMMON, '''
def run(f):
    s = Log(probe=ValueError('x'))
    s.last = 'old'
    return f(s)
''', step='assignments_to_ifexp default-then-override (1415-1428)')

F('B1b default-then-override, pure raising test',
  '''def f(self, k):
    kind = self.kind
    try:
        kind = 'std'
        if self.tab[k] > 1:
            kind = 'ext'
    except KeyError:
        self.miss += 1
    return kind''',
  '''def f(self, k):
    kind = self.kind
    try:
        kind = 'ext' if self.tab[k] > 1 else 'std'
    except KeyError:
        self.miss += 1
    return kind''', None,
  COMMON, '''
def run(f):
    return f(Rec(tab={}, kind='old', miss=0), 'k')
''')

F('B1c default-then-override in a loop with per-record try (carried across iterations)',
  '''def f(self, recs):
    out = []
    unit = None
    for r in recs:
        try:
            unit = 'm'
            if r.code() == 2:
                unit = 'ft'
        except ValueError:
            pass
        out.append(unit)
    return out''',
  '''def f(self, recs):
    out = []
    unit = None
    for r in recs:
        try:
            unit = 'ft' if r.code() == 2 else 'm'
        except ValueError:
            pass
        out.append(unit)
    return out''', None,
  COMMON, '''
def run(f):
    return f(None, [Log(code=2), Log(code=ValueError('x'))])
''')

# ---------------------------------------------------------------------------------------------------- assignments_to_ifexp tuple display split (1372-1385)
F('I2 tuple display split (names): first name stored / not stored when the second value raises',
  '''def f(self, v):
    pos = self.pos
    try:
        pos, n = 0, int(v)
    except ValueError:
        n = -1
    return pos, n''',
  '''def f(self, v):
    pos = self.pos
    try:
        pos = 0
        n = int(v)
    except ValueError:
        n = -1
    return pos, n''', None,
  COMMON, '''
def run(f):
    return f(Rec(pos=77), 'zz')
''', step='assignments_to_ifexp tuple display split (1372-1385)')

# ---------------------------------------------------------------------------------------------------- sink_into_branches (1597)
F('J1 sink_into_branches: read moved behind a test that can raise',
  '''def f(self, fp, hdr):
    v = fp.read(4)
    if hdr[2] > 0:
        self.a(v)
    else:
        self.b(v)''',
  '''def f(self, fp, hdr):
    if hdr[2] > 0:
        self.a(fp.read(4))
    else:
        self.b(fp.read(4))''', None,
  COMMON, '''
def run(f):
    fp = Log()
    try:
        f(Log(), fp, [1])
    except IndexError:
        pass
    return fp.calls
''', step='sink_into_branches (1597)')

# ---------------------------------------------------------------------------------------------------- inline_next_use / _impure_before (1135-1157, 1293)
F('L1 inline_next_use: read moved behind a subscript that can raise',
  '''def f(self, fp, hdr):
    v = fp.read(4)
    n = hdr[2] + v
    return n''',
  '''def f(self, fp, hdr):
    n = hdr[2] + fp.read(4)
    return n''', None,
  COMMON, '''
def run(f):
    fp = Log()
    try:
        f(Log(), fp, [1])
    except IndexError:
        pass
    return fp.calls
''', step='inline_next_use / _impure_before (1135-1157, 1293)')

F('B4b inline_next_use: call argument after a raising subscript',
  '''def f(self, fp, hdr):
    v = fp.read(4)
    self.emit(hdr[2], v)''',
  '''def f(self, fp, hdr):
    self.emit(hdr[2], fp.read(4))''', None,
  COMMON, '''
def run(f):
    fp = Log()
    try:
        f(Log(), fp, [1])
    except IndexError:
        pass
    return fp.calls
''')

F('B4c inline_next_use inside try: handler sees stream position',
  '''def f(self, fp, hdr):
    try:
        v = fp.read(4)
        n = hdr[2] + v
    except IndexError:
        return fp.tell()
    return n''',
  '''def f(self, fp, hdr):
    try:
        n = hdr[2] + fp.read(4)
    except IndexError:
        return fp.tell()
    return n''', None,
  COMMON, '''
class FP:
    pos = 0
    def read(self, n):
        self.pos += n
        return n
    def tell(self):
        return self.pos
def run(f):
    return f(Log(), FP(), [1])
''')

F('W5 aug-assign on item: lookup failure before / after the read',
  '''def f(self, fp, tab, k):
    n = fp.read(2)
    tab[k] += n''',
  '''def f(self, fp, tab, k):
    tab[k] += fp.read(2)''', None,
  COMMON, '''
def run(f):
    fp = Log(read=1)
    try:
        f(None, fp, {}, 'k')
    except KeyError:
        pass
    return fp.calls
''')

# ---------------------------------------------------------------------------------------------------- seq attribute-default rule (2942-2955)
F('C1 attribute default + override: test can raise',
  '''def f(self, hdr):
    self.mode = 0
    if hdr[3] == 1:
        self.mode = 2''',
  '''def f(self, hdr):
    if hdr[3] == 1:
        self.mode = 2
    else:
        self.mode = 0''', None,
  COMMON, '''
def run(f):
    s = Rec(mode=9)
    try:
        f(s, [0])
    except IndexError:
        pass
    return s.mode
''', step='seq attribute-default rule (2942-2955)')

F('C1b attribute default + override whose value can raise (division)',
  '''def f(self, n, d):
    self.rate = 0
    if self.scaled:
        self.rate = n / d''',
  '''def f(self, n, d):
    if self.scaled:
        self.rate = n / d
    else:
        self.rate = 0''', None,
  COMMON, '''
def run(f):
    s = Rec(rate=9, scaled=True)
    try:
        f(s, 1, 0)
    except ZeroDivisionError:
        pass
    return s.rate
''')

# ---------------------------------------------------------------------------------------------------- _mk_if identical branches (2865)
F('C2 pure test with identical branches dropped although it can raise',
  '''def f(self, k):
    try:
        if self.index[k] > 0:
            return self.default
        return self.default
    except KeyError:
        return None''',
  '''def f(self, k):
    try:
        return self.default
    except KeyError:
        return None''', None,
  COMMON, '''
def run(f):
    return f(Rec(index={}, default=5), 'k')
''', step='_mk_if identical branches (2865)')

F('C2b empty if (kept for its KeyError) dropped',
  '''def f(self, k):
    if self.known[k]:
        pass
    self.cur = k''',
  '''def f(self, k):
    self.cur = k''', None,
  COMMON, '''
def run(f):
    s = Rec(known={}, cur=None)
    try: f(s, 'k')
    except KeyError: pass
    return s.cur
''')

F('C2c if/else with the same assignment',
  '''def f(self, hdr):
    if hdr[4] & 1:
        self.swap = False
    else:
        self.swap = False
    return self.swap''',
  '''def f(self, hdr):
    self.swap = False
    return self.swap''', None,
  COMMON, '''
def run(f):
    return f(Rec(), [0])
''')

# ---------------------------------------------------------------------------------------------------- with: implicit __enter__/__exit__ (_between 1966-1974, written_chains 270)
F('W3 with lock name: local cm',
  '''def f(self, cm):
    n = cm.depth
    with cm:
        self.out.append(n)''',
  '''def f(self, cm):
    with cm:
        self.out.append(cm.depth)''', None,
  COMMON, '''
class CM:
    depth = 0
    def __enter__(self):
        self.depth += 1
    def __exit__(self, *a):
        self.depth -= 1
def run(f):
    s = Rec(out=[])
    f(s, CM())
    return s.out
''', step='with: implicit __enter__/__exit__ (_between 1966-1974, written_chains 270)')

F('H4 with on an attribute-held context manager: __enter__ changes state read by a temp',
  '''def f(self):
    depth = self.ind.level
    with self.ind:
        self.out.append(depth)''',
  '''def f(self):
    with self.ind:
        self.out.append(self.ind.level)''', None,
  COMMON, '''
class Ind:
    level = 0
    def __enter__(self):
        self.level += 1
    def __exit__(self, *a):
        self.level -= 1
def run(f):
    s = Rec(ind=Ind(), out=[])
    f(s)
    return s.out
''')

F('W2b temp defined before `with self.ind:` read after the block (no call on ind)',
  '''def f(self):
    n = self.ind.level
    with self.ind:
        self.out.append(1)
    self.out.append(n)''',
  '''def f(self):
    with self.ind:
        self.out.append(1)
    self.out.append(self.ind.level)''', None,
  COMMON, '''
class Ind:
    level = 0
    def __enter__(self):
        self.level += 1
    def __exit__(self, *a):
        self.level += 10
def run(f):
    s = Rec(ind=Ind(), out=[])
    f(s)
    return s.out
''')

# ---------------------------------------------------------------------------------------------------- _stmt_exprs(With) 1129-1131
F('W4 call moved behind the __enter__ of an earlier with item',
  '''def f(lock, src, out):
    fh = src.open()
    with lock, fh:
        out.append(1)''',
  '''def f(lock, src, out):
    with lock, src.open():
        out.append(1)''', None,
  COMMON + '''
class CM:
    def __init__(self, log, name): self.log, self.name = log, name
    def __enter__(self): self.log.append('enter ' + self.name); return self
    def __exit__(self, *a): self.log.append('exit ' + self.name)
class Src:
    def __init__(self, log): self.log = log
    def open(self):
        self.log.append('open')
        return CM(self.log, 'file')
''', '''
def run(f):
    log = []
    f(CM(log, 'lock'), Src(log), log); return log
''', step='_stmt_exprs(With) 1129-1131')

# ---------------------------------------------------------------------------------------------------- seq/Try handler name (2905)
F('D1 unused `as e` dropped although it unbinds the parameter e',
  '''def f(self, e):
    try:
        self.step()
    except ValueError as e:
        pass
    return e''',
  '''def f(self, e):
    try:
        self.step()
    except ValueError:
        pass
    return e''', None,
  COMMON, '''
def run(f):
    return f(Log(step=ValueError('x')), 5)
''', step='seq/Try handler name (2905)')

F('D1c `as err` added; err carried from an attribute',
  '''def f(self, recs):
    err = self.last_error
    for r in recs:
        try:
            self.process(r)
        except E as err:
            self.bad += 1
    return err''',
  '''def f(self, recs):
    err = self.last_error
    for r in recs:
        try:
            self.process(r)
        except E:
            self.bad += 1
    return err''', None,
  COMMON, '''
def run(f):
    s = Log(process=E('x')); s.bad = 0; s.last_error = 'old'
    return f(s, [1])
''')

# ---------------------------------------------------------------------------------------------------- may_raise (101-117)
F('A1 attribute read moved into try/except AttributeError',
  '''def f(self, rec):
    name = rec.name
    try:
        self.emit(name)
    except AttributeError:
        return None
    return True''',
  '''def f(self, rec):
    try:
        self.emit(rec.name)
    except AttributeError:
        return None
    return True''', None,
  COMMON, '''
def run(f):
    return f(Log(), None)
''', step='may_raise (101-117)')

F('A18 m.groups() on a failed match (AttributeError idiom) moved out of the try',
  '''def f(self, line):
    m = RE_KV.match(line)
    try:
        key, val = m.groups()
    except AttributeError:
        return None
    return key, val''',
  '''def f(self, line):
    m = RE_KV.match(line)
    g = m.groups()
    try:
        key, val = g
    except AttributeError:
        return None
    return key, val''', None,
  COMMON + r'''
import re
RE_KV = re.compile(r'(\w+)=(\w+)')
''', '''
def run(f):
    return f(None, '???')
''')

F('A2 dead local with an attribute probe dropped (duck-type validation)',
  '''def f(self, fp):
    try:
        reader = fp.read
    except AttributeError:
        raise TypeError('need a file')
    self.fp = fp''',
  '''def f(self, fp):
    try:
        pass
    except AttributeError:
        raise TypeError('need a file')
    self.fp = fp''', None,
  COMMON, '''
def run(f):
    return f(Rec(), 42)
''')

F('A3 f-string with a format spec (ValueError) moved into try',
  '''def f(self, v):
    label = f'{v:04d}'
    try:
        self.emit(label)
    except ValueError:
        return 'bad'
    return 'ok' ''',
  '''def f(self, v):
    try:
        self.emit(f'{v:04d}')
    except ValueError:
        return 'bad'
    return 'ok' ''', None,
  COMMON, '''
def run(f):
    return f(Log(), 'x')
''')

F('A4 .format with a format spec moved into try',
  '''def f(self, v):
    label = '{:04d}'.format(v)
    try:
        self.emit(label)
    except ValueError:
        return 'bad'
    return 'ok' ''',
  '''def f(self, v):
    try:
        self.emit('{:04d}'.format(v))
    except ValueError:
        return 'bad'
    return 'ok' ''', None,
  COMMON, '''
def run(f):
    return f(Log(), 'x')
''')

F('A5 dict(pairs) (ValueError) moved into try',
  '''def f(self, pairs):
    d = dict(self.pairs)
    try:
        self.emit(d)
    except ValueError:
        return 'bad'
    return 'ok' ''',
  '''def f(self, pairs):
    try:
        self.emit(dict(self.pairs))
    except ValueError:
        return 'bad'
    return 'ok' ''', None,
  COMMON, '''
def run(f):
    s = Log(); s.pairs = [(1, 2, 3)]
    return f(s, None)
''')

F('A17 str(raw, "ascii") (UnicodeDecodeError) moved into try',
  '''def f(self, raw):
    name = str(raw, 'ascii')
    try:
        self.emit(name)
    except UnicodeDecodeError:
        return None
    return name''',
  '''def f(self, raw):
    try:
        self.emit(str(raw, 'ascii'))
    except UnicodeDecodeError:
        return None
    return str(raw, 'ascii')''', None,
  COMMON, r'''
def run(f):
    return f(Log(), b'\xff')
''')

# ---------------------------------------------------------------------------------------------------- is_pure / consumes_name (143-159: bare names only) and may_raise (NONRAISING_FUNCS has list)
F('A19 list(self.reader) (reader raises on a bad row) moved into try',
  '''def f(self):
    rows = list(self.reader)
    try:
        self.emit(rows)
    except E:
        return 'bad'
    return 'ok' ''',
  '''def f(self):
    try:
        self.emit(list(self.reader))
    except E:
        return 'bad'
    return 'ok' ''', None,
  COMMON, '''
def gen():
    yield 1
    raise E('bad row')
def run(f):
    s = Log(); s.reader = gen()
    return f(s)
''', step='is_pure / consumes_name (143-159: bare names only) and may_raise (NONRAISING_FUNCS has list)')

F('A6 list(self.it) dead store dropped: generator kept in an attribute not drained',
  '''def f(self):
    rest = list(self.it)
    return self.n''',
  '''def f(self):
    return self.n''', None,
  COMMON, '''
def run(f):
    s = Rec(n=0)
    def g():
        for i in range(3):
            s.n += 1
            yield i
    s.it = g()
    return f(s), list(s.it)
''')

# ---------------------------------------------------------------------------------------------------- may_raise (101-117)
F('A7 negative shift count ValueError moved into try',
  '''def f(self, n):
    mask = 1 << n
    try:
        self.emit(mask)
    except ValueError:
        return 'bad'
    return 'ok' ''',
  '''def f(self, n):
    try:
        self.emit(1 << n)
    except ValueError:
        return 'bad'
    return 'ok' ''', None,
  COMMON, '''
def run(f):
    return f(Log(), -1)
''', step='may_raise (101-117)')

F('A8 pow ZeroDivisionError moved into try',
  '''def f(self, b, e):
    scale = b ** e
    try:
        self.emit(scale)
    except ZeroDivisionError:
        return 'bad'
    return 'ok' ''',
  '''def f(self, b, e):
    try:
        self.emit(b ** e)
    except ZeroDivisionError:
        return 'bad'
    return 'ok' ''', None,
  COMMON, '''
def run(f):
    return f(Log(), 0, -1)
''')

F('A12 range step 0 ValueError moved into try',
  '''def f(self, n):
    idx = range(0, n, self.step)
    try:
        self.emit(idx)
    except ValueError:
        return 'bad'
    return 'ok' ''',
  '''def f(self, n):
    try:
        self.emit(range(0, n, self.step))
    except ValueError:
        return 'bad'
    return 'ok' ''', None,
  COMMON, '''
def run(f):
    s = Log(); s.step = 0
    return f(s, 5)
''')

F('A16 split with empty separator ValueError moved into try',
  '''def f(self, line):
    parts = line.split(self.sep)
    try:
        self.emit(parts)
    except ValueError:
        return 'bad'
    return 'ok' ''',
  '''def f(self, line):
    try:
        self.emit(line.split(self.sep))
    except ValueError:
        return 'bad'
    return 'ok' ''', None,
  COMMON, '''
def run(f):
    s = Log(); s.sep = ''
    return f(s, 'a b')
''')

# ---------------------------------------------------------------------------------------------------- try_keyerror_idioms (1645) through may_raise
F('K3b setdefault idiom: value raises AttributeError after the empty entry was created',
  '''def f(self, k, rec):
    try:
        D[k].append(rec.name)
    except KeyError:
        D[k] = [rec.name]''',
  '''def f(self, k, rec):
    D.setdefault(k, []).append(rec.name)''', {'dicts': ['D']},
  COMMON + '''D = {}
''', '''
def run(f):
    try: f(None, 'k', None)
    except AttributeError: pass
    return D
''', step='try_keyerror_idioms (1645) through may_raise')

# ---------------------------------------------------------------------------------------------------- cx mirrored comparison (2559-2563)
F('O1 mirrored comparison: which of two failing lookups raises',
  '''def f(self, hdr, k):
    if self.tab[k] > hdr[2]:
        return 1
    return 0''',
  '''def f(self, hdr, k):
    if hdr[2] < self.tab[k]:
        return 1
    return 0''', None,
  COMMON, '''
def run(f):
    return f(Rec(tab={}), [], 'k')
''', step='cx mirrored comparison (2559-2563)')

# ---------------------------------------------------------------------------------------------------- _mk_if reorder (2867-2870)
F('O2 two tests reordered by _mk_if',
  '''def f(self, hdr, k):
    if self.tab[k] == 1:
        if hdr[2] == 0:
            return 1
        return 2
    if hdr[2] == 0:
        return 3
    return 4''',
  '''def f(self, hdr, k):
    if hdr[2] == 0:
        if self.tab[k] == 1:
            return 1
        return 3
    if self.tab[k] == 1:
        return 2
    return 4''', None,
  COMMON, '''
def run(f):
    return f(Rec(tab={}), [], 'k')
''', step='_mk_if reorder (2867-2870)')

# ---------------------------------------------------------------------------------------------------- _split_ifexp (1216)
F('E9 split_ifexp moves a raising test before a raising operand',
  '''def f(self, hdr, k):
    self.v = hdr[2] + (1 if self.tab[k] else 0)''',
  '''def f(self, hdr, k):
    if self.tab[k]:
        self.v = hdr[2] + 1
    else:
        self.v = hdr[2] + 0''', None,
  COMMON, '''
def run(f):
    return f(Rec(tab={}), [], 'k')
''', step='_split_ifexp (1216)')

# ---------------------------------------------------------------------------------------------------- drop_dead_locals (1837) / renaming vs locals()
F('LOC1 dead locals read through locals()',
  '''def f(self, rec):
    name = rec.name
    pos = self.pos
    return '%(name)s at %(pos)d' % locals()''',
  '''def f(self, rec):
    return '%(name)s at %(pos)d' % locals()''', None,
  COMMON, '''
def run(f):
    return f(Rec(pos=3), Rec(name='x'))
''', step='drop_dead_locals (1837) / renaming vs locals()')


# ---------------------------------------------------------------------------------------------------------------- gate level
def _wrap(src):
    """the pair as a module: methods (first parameter self) go into a class K"""
    head = 'import re\nclass E(Exception):\n    pass\nRE_KV = re.compile(r"(\\w+)=(\\w+)")\nD = {}\n'
    if src.lstrip().startswith('def f(self'):
        return head + 'class K:\n' + textwrap.indent(src, '    ') + '\n', 'K.f'
    return head + src + '\n', 'f'


GATE_FINDINGS = [(t, _wrap(a)[0], _wrap(b)[0], _wrap(a)[1]) for t, a, b, kw in FINDINGS if not (kw or {}).get('helpers_a') and not (kw or {}).get('helpers_b')]


# ---------------------------------------------------------------------------------------------------------------- runner
def _helpers(src):
    if not src:
        return None
    out = {}
    for h in ast.parse(src).body:
        out[h.name] = (h, bool(h.args.args) and h.args.args[0].arg == 'self' or any(isinstance(d, ast.Name) and d.id == 'staticmethod' for d in h.decorator_list))
    return out


def same(a, b, **kw):
    ca = equiv.canonical(ast.parse(a).body[0], _helpers(kw.get('helpers_a')), dicts=kw.get('dicts'), sized=kw.get('sized'), props=kw.get('props'))
    cb = equiv.canonical(ast.parse(b).body[0], _helpers(kw.get('helpers_b')), dicts=kw.get('dicts'), sized=kw.get('sized'), props=kw.get('props'))
    return ca is not None and ca == cb


def outcome(src, stubs, call):
    ns = {}
    exec(stubs, ns)
    exec(src, ns)
    exec(call, ns)
    name = ast.parse(src).body[0].name
    try:
        return repr(ns['run'](ns[name]))
    except BaseException as e:      # noqa
        return f'raised {type(e).__name__}: {e}'


def main():
    bad = 0
    for title, a, b, kw in FINDINGS:
        s = same(a, b, **(kw or {}))
        stubs, call = DEMOS[title]
        oa, ob = outcome(a, stubs, call), outcome(b, stubs, call)
        ok = s and oa != ob
        bad += not ok
        print(('CONFIRMED ' if ok else 'NOT-A-FINDING ') + title)
        print(f'    step: {STEP[title]}')
        print(f'    same() = {s}')
        print(f'    A -> {oa}')
        print(f'    B -> {ob}')
    gbad = 0
    for title, cur, ref, q in GATE_FINDINGS:
        got = gate.apply(ast.parse(cur), ast.parse(ref), lambda t: None)
        if q not in got:
            gbad += 1
            print('gate.apply keeps apart: ' + title)
    print(f'{len(FINDINGS)} findings, {bad} not confirmed; {len(GATE_FINDINGS)} gate-level pairs, {gbad} kept apart by gate.apply')


if __name__ == '__main__':
    main()
