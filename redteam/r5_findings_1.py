"""Round 5, agent 1: gate.apply as rewritten after round 4 (context check, helper privacy, per-side tables).

FINDINGS      = [(title, src_a, src_b, kwargs_or_None)]      function-level pairs: none (the focus was the gate)
GATE_FINDINGS = [(title, current_module_src, reference_module_src, qualname)]   all gated NOW (qualname in gate.apply(cur, ref))
DRIVERS[title] = source of run(ns) -> value; the CURRENT module as it runs is compared with the current tree as gate.apply leaves it
REPO[title]    = {module: source} other repository modules (scratch TD_REPO for `cur`, gate._REF for `ref`; also importable in the demo)
EXTRA[title]   = source of another module that imports the pair's module under the name `fmt` (cross-module demo)
STEP[title]    = the step held responsible (line numbers of /tmp/redteam5/1/tdstatic/gate.py)
Run:  /venv/bin/python /tmp/redteam5/1/findings.py
"""
import ast, os, shutil, sys, textwrap, types
sys.path.insert(0, os.path.dirname(os.path.dirname(os.path.abspath(__file__))))
from tdstatic import equiv, gate, loader  # noqa: E402
equiv.REPO_DEFINED[0] = frozenset()
import tempfile as _tf
SCRATCH = _tf.mkdtemp(prefix='rt5_repo_')
import atexit as _ae
_ae.register(shutil.rmtree, SCRATCH, True)

FINDINGS = []
GATE_FINDINGS = []
DRIVERS, REPO, EXTRA, STEP = {}, {}, {}, {}


def same(a, b, **kw):
    ca = equiv.canonical(ast.parse(a).body[0], kw.get('helpers_a'), dicts=kw.get('dicts'), sized=kw.get('sized'), props=kw.get('props'))
    cb = equiv.canonical(ast.parse(b).body[0], kw.get('helpers_b'), dicts=kw.get('dicts'), sized=kw.get('sized'), props=kw.get('props'))
    return ca is not None and ca == cb


def G(title, cur, ref, q, driver, step, repo=None, extra=None):
    GATE_FINDINGS.append((title, textwrap.dedent(cur).lstrip('\n'), textwrap.dedent(ref).lstrip('\n'), q))
    DRIVERS[title] = textwrap.dedent(driver)
    STEP[title] = step
    if repo:
        REPO[title] = {k: textwrap.dedent(v) for k, v in repo.items()}
    if extra:
        EXTRA[title] = textwrap.dedent(extra)


# ---------------------------------------------------------------------------------------------------------------------
# 1. per-side constant table: the reference body is read in the CURRENT module with the constants of the REFERENCE module
S1 = ('gate.apply l.385-386 (cur_consts / ref_consts, each used for its own side in canonical_pair l.298-303) + l.482 (`blank` empties the bodies of ALL changed '
      'functions, also the unrecognised ones, so a `global SIZE` added there is invisible to the context check) + l.417-438 (reachability is by function name only; '
      'shared module state is not a "reach").  equiv.module_constants (equiv.py l.4023) says SIZE is a constant of the reference module; in the current module it is not.')
G('K1 a configuration function now rebinds the module constant (global SIZE); f keeps the old literal 4 - the analyser is shown f reading SIZE',
  '''
  SIZE = 4
  def configure(big):
      global SIZE
      if big:
          SIZE = 8
      return big
  def f(buf, i):
      return buf[i:i + 4]
  ''', '''
  SIZE = 4
  def configure(big):
      return big
  def f(buf, i):
      n = SIZE
      return buf[i:i + n]
  ''', 'f', '''
  def run(ns):
      ns["configure"](True)
      return ns["f"](b"0123456789", 0)
  ''', S1)

# ---------------------------------------------------------------------------------------------------------------------
# 2. helper privacy: names that the interpreter / a stdlib base class calls without spelling them in this module
S2 = ('gate.apply l.378-384 (a created / removed function is a helper when its NAME is defined nowhere else in the package) and l.471-474 (rest_mentions: spelled nowhere '
      'else in this module).  Protocol methods (__del__, __next__, __missing__, __call__, __index__ ...: 0 or 1 definitions in the reference package) are invoked by the '
      'interpreter without being spelled; they are dropped from / restored into the analysed tree.')
G('D1 destructor added: close() now delegates to a new __del__ (the file is closed whenever the reader is collected); __del__ is dropped from the analysed tree',
  '''
  class Reader:
      def __init__(self, fh):
          self.fh = fh
          self.pos = 0
      def __del__(self):
          if self.fh is not None:
              self.fh.close()
              self.fh = None
      def close(self):
          self.__del__()
  ''', '''
  class Reader:
      def __init__(self, fh):
          self.fh = fh
          self.pos = 0
      def close(self):
          if self.fh is not None:
              self.fh.close()
              self.fh = None
  ''', 'Reader.close', '''
  import io
  def run(ns):
      fh = io.BytesIO(b"abc")
      r = ns["Reader"](fh)
      del r
      return fh.closed
  ''', S2)
G('D2 __missing__ of a dict subclass deleted (inlined into lookup, its only visible caller): offset() now raises KeyError; the analyser gets __missing__ back',
  '''
  class Index(dict):
      def lookup(self, k):
          if k in self:
              return self[k]
          return -1
      def offset(self, k):
          return self[k] + 4
  ''', '''
  class Index(dict):
      def lookup(self, k):
          if k in self:
              return self[k]
          return self.__missing__(k)
      def __missing__(self, k):
          return -1
      def offset(self, k):
          return self[k] + 4
  ''', 'Index.lookup', 'def run(ns): return ns["Index"]({1: 2}).offset(7)', S2)
G('D3 __next__ added (next_record delegates to it): the class is now an iterator and first_two() works on it; __next__ is dropped from the analysed tree',
  '''
  class Recs:
      def __init__(self, rows):
          self.rows = rows
          self.i = 0
      def __iter__(self):
          return self
      def __next__(self):
          if self.i >= len(self.rows):
              raise StopIteration
          self.i += 1
          return self.rows[self.i - 1]
      def next_record(self):
          return self.__next__()
  def first_two(r):
      out = []
      for x in r:
          out.append(x)
          if len(out) == 2:
              break
      return out
  ''', '''
  class Recs:
      def __init__(self, rows):
          self.rows = rows
          self.i = 0
      def __iter__(self):
          return self
      def next_record(self):
          if self.i >= len(self.rows):
              raise StopIteration
          self.i += 1
          return self.rows[self.i - 1]
  def first_two(r):
      out = []
      for x in r:
          out.append(x)
          if len(out) == 2:
              break
      return out
  ''', 'Recs.next_record', 'def run(ns): return ns["first_two"](ns["Recs"]([1, 2, 3]))', S2)

S3 = ('gate.apply l.378-384: "defined nowhere else in the package" says nothing about a base class OUTSIDE the package (json.JSONEncoder.default, logging.Handler.emit, '
      'ast.NodeVisitor.visit_X, threading.Thread.run ...).  _class_scope l.148-150 notes the base as unresolved, but that only empties the attribute tables; methods of '
      'such a class are still taken as private helpers (round-4 O1 / R3 with a stdlib base).')
G('H1 the override of json.JSONEncoder.default was inlined into conv() and deleted: encoding bytes now fails; the analyser gets the override back',
  '''
  import json
  class Enc(json.JSONEncoder):
      def conv(self, o):
          if isinstance(o, bytes):
              return o.hex()
          return str(o)
  def dump(x):
      return Enc().encode(x)
  ''', '''
  import json
  class Enc(json.JSONEncoder):
      def default(self, o):
          if isinstance(o, bytes):
              return o.hex()
          return str(o)
      def conv(self, o):
          return self.default(o)
  def dump(x):
      return Enc().encode(x)
  ''', 'Enc.conv', 'def run(ns): return ns["dump"]({"a": b"\\x01\\x02"})', S3)
G('H2 the mirror: extract-method names the new helper `default` - it now overrides the hook of json.JSONEncoder; dropped from the analysed tree',
  '''
  import json
  class Enc(json.JSONEncoder):
      def default(self, o):
          if isinstance(o, bytes):
              return o.hex()
          return str(o)
      def conv(self, o):
          return self.default(o)
  def dump(x):
      return Enc().encode(x)
  ''', '''
  import json
  class Enc(json.JSONEncoder):
      def conv(self, o):
          if isinstance(o, bytes):
              return o.hex()
          return str(o)
  def dump(x):
      return Enc().encode(x)
  ''', 'Enc.conv', 'def run(ns): return ns["dump"]({"a": b"\\x01\\x02"})', S3)

S4 = ('gate.apply l.443-454 closure(): a created function is "used by the gated body" as soon as the body spells its bare name on ANY receiver, and nothing checks that the '
      'reference body does not spell it too / that canonical() really pasted it.  A brand-new public method is then removed from the analysed tree and from the context '
      'comparison (residual of round-4 N5 for a name the package does not define).')
G('N1 a brand-new public method R.unwindx() (never analysed) is dropped because the trivially refactored read() spells self.fh.unwindx() in both versions',
  '''
  class R:
      def __init__(self, fh):
          self.fh = fh
          self.n = 0
      def unwindx(self):
          self.n = 0
      def read(self, k):
          b = self.fh.read(k)
          if len(b) < k:
              self.fh.unwindx()
              return None
          self.n += 1
          return b
  ''', '''
  class R:
      def __init__(self, fh):
          self.fh = fh
          self.n = 0
      def read(self, k):
          b = self.fh.read(k)
          if len(b) < k:
              self.fh.unwindx()
              return None
          else:
              self.n += 1
              return b
  ''', 'R.read', '''
  def run(ns):
      r = ns["R"](None)
      r.n = 5
      r.unwindx()
      return r.n
  ''', S4)

S5 = ('gate.apply l.370-371 `dynamic`: only the NAMES getattr / setattr / hasattr / dir / vars / delattr and the attribute __dict__ count as name-based dispatch; '
      'operator.methodcaller(computed) / operator.attrgetter(computed) do the same without any of them (round-4 N1-N4 by another spelling).')
G('M1 record dispatch through operator.methodcaller("_read_" + tag): the extracted helper _read_len becomes the handler of tag "len"; dropped from the analysed tree',
  '''
  import operator
  class R:
      def __init__(self, b):
          self.b = b
      def dispatch(self, tag):
          try:
              return operator.methodcaller('_read_' + tag)(self)
          except AttributeError:
              return None
      def _read_len(self):
          return self.b[0]
      def _read_rec(self):
          n = self._read_len()
          return self.b[1:1 + n]
  ''', '''
  import operator
  class R:
      def __init__(self, b):
          self.b = b
      def dispatch(self, tag):
          try:
              return operator.methodcaller('_read_' + tag)(self)
          except AttributeError:
              return None
      def _read_rec(self):
          n = self.b[0]
          return self.b[1:1 + n]
  ''', 'R._read_rec', 'def run(ns): return ns["R"](b"\\x02abc").dispatch("len")', S5)

# ---------------------------------------------------------------------------------------------------------------------
# 3. privacy is decided inside one module: other modules of the package are not asked
S6 = ('gate.apply l.455-475 rest_mentions covers the current MODULE only; l.384 counts DEFINITIONS in the package (<= 1), not uses.  A function / method that another '
      'module imports or calls (a base class of another module that gate._class_scope even parses, l.159-188, _BASE_TREES) is restored into / dropped from the analysed tree.')
G('X1 public function deleted (inlined into its only caller in this module) although another module imports it: ImportError at run time, restored for the analyser',
  '''
  def depth(rec, i):
      return rec[80 + i * 4]
  ''', '''
  def frame_offset(i):
      return 80 + i * 4
  def depth(rec, i):
      return rec[frame_offset(i)]
  ''', 'depth', 'def run(ns): return ns["peek"](bytes(range(100)))', S6,
  extra='''
  from fmt import frame_offset
  def peek(rec):
      return rec[frame_offset(0)]
  ''')
_BASE1 = '''
class Base:
    def __init__(self, b):
        self.b = b
    def process(self):
        return [self._decode(x) for x in self.b]
'''
G('X2 the hook _decode that the template method of the base class (another repository module, READ by the gate) calls was inlined into first() and deleted',
  '''
  from basemod import Base
  class LisReader(Base):
      def first(self):
          return (self.b[0] & 0x7f) - 64
  ''', '''
  from basemod import Base
  class LisReader(Base):
      def _decode(self, x):
          return (x & 0x7f) - 64
      def first(self):
          return self._decode(self.b[0])
  ''', 'LisReader.first', 'def run(ns): return ns["LisReader"](b"\\x41\\x42").process()', S6, repo={'basemod': _BASE1})
_BASE2 = '''
class Base:
    def __init__(self, b):
        self.b = b
        self.seen = 0
    def process(self):
        out = [x for x in self.b]
        try:
            self._post(len(out))
        except AttributeError:
            pass
        return self.seen
'''
G('X3 the mirror: the extracted helper bears the name of an optional hook (_post) that the base class of another repository module calls; dropped from the analysed tree',
  '''
  from basemod import Base
  class LisReader(Base):
      def _post(self, n):
          self.seen = self.seen + n
          return self.seen
      def skip(self, n):
          return self._post(n)
  ''', '''
  from basemod import Base
  class LisReader(Base):
      def skip(self, n):
          self.seen = self.seen + n
          return self.seen
  ''', 'LisReader.skip', 'def run(ns): return ns["LisReader"](b"\\x41\\x42").process()', S6, repo={'basemod': _BASE2})

# ---------------------------------------------------------------------------------------------------------------------
# 4. rest_mentions leaves parts of the module out
S7 = 'gate.apply l.461-468: for a class statement rest_cur takes the members and `st.bases`, not `st.decorator_list` nor `st.keywords`; a helper spelled only there counts as unused'
G('R1 the deleted helper is still spelled in the class decorator (inside a lambda, so the module imports): NameError when the hook runs; restored for the analyser',
  '''
  def reg(h):
      def d(c):
          c.hook = staticmethod(h)
          return c
      return d
  @reg(lambda x: _norm(x))
  class K:
      def f(self, x):
          return x & 0xff
  ''', '''
  def reg(h):
      def d(c):
          c.hook = staticmethod(h)
          return c
      return d
  def _norm(x):
      return x & 0xff
  @reg(lambda x: _norm(x))
  class K:
      def f(self, x):
          return _norm(x)
  ''', 'K.f', 'def run(ns): return ns["K"].hook(511)', S7)
S8 = 'gate._mentions l.322-324 compares bare spellings: the private name __norm is spelled _K__norm outside its class, so the subclass that still calls it is not seen (l.471-474)'
G('R2 (minor) name-mangled helper K.__norm deleted while the subclass calls self._K__norm(): AttributeError at run time; restored for the analyser',
  '''
  class K:
      def f(self, x):
          return x & 0xff
  class J(K):
      def g(self, x):
          return self._K__norm(x) + 1
  ''', '''
  class K:
      def __norm(self, x):
          return x & 0xff
      def f(self, x):
          return self.__norm(x)
  class J(K):
      def g(self, x):
          return self._K__norm(x) + 1
  ''', 'K.f', 'def run(ns): return ns["J"]().g(511)', S8)


# =====================================================================================================================
def _prepare(title):
    repo = REPO.get(title, {})
    shutil.rmtree(SCRATCH, True)
    os.makedirs(os.path.join(SCRATCH, 'src'))
    for name, src in repo.items():
        with open(os.path.join(SCRATCH, 'src', name + '.py'), 'w') as fh:
            fh.write(src)
        m = types.ModuleType(name)
        exec(src, m.__dict__)
        sys.modules[name] = m
    loader.REPO = SCRATCH                  # never /repo
    if repo:
        gate._REF = dict(repo)
        gate._REF_DEFS[0] = None
    gate._PARSED.clear()


def gated(title, cur, ref):
    _prepare(title)
    equiv.REPO_DEFINED[0] = frozenset()
    t = ast.parse(cur)
    g = gate.apply(t, ast.parse(ref), lambda t_: None)
    ast.fix_missing_locations(t)
    return g, ast.unparse(t)


def _run(title, src):
    ns = {'__name__': 'fmt'}
    try:
        exec(src, ns)
        if title in EXTRA:
            m = types.ModuleType('fmt')
            m.__dict__.update(ns)
            sys.modules['fmt'] = m
            exec(EXTRA[title], ns)
        d = {}
        exec(DRIVERS[title], d)
        return repr(d['run'](ns))
    except Exception as e:
        return f'raises {type(e).__name__}: {e}'


def main():
    bad = 0
    saved_ref, saved_defs = gate._REF, gate._REF_DEFS[0]
    for title, cur, ref, q in GATE_FINDINGS:
        gate._REF, gate._REF_DEFS[0] = saved_ref, saved_defs
        print('=' * 110)
        print(title)
        g, seen = gated(title, cur, ref)
        a, b, c = _run(title, cur), _run(title, seen), _run(title, ref)
        print('  gate.apply(cur, ref)   ->', g)
        print(f'  current module as it runs : {a}\n  current tree after gate    : {b}\n  reference module           : {c}')
        ok = q in g and a != b
        print('  step:', STEP[title])
        if not ok:
            bad += 1
            print('  *** NOT CONFIRMED')
    print('=' * 110)
    print(f'{len(GATE_FINDINGS)} gate findings, {bad} not confirmed; {len(FINDINGS)} function-level findings')
    shutil.rmtree(SCRATCH, True)
    return bad


if __name__ == '__main__':
    sys.exit(1 if main() else 0)
