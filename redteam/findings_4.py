"""Red-team findings for tdstatic/equiv.py + gate.py (focus: helper inlining and the gate).

FINDINGS = [(title, src_a, src_b, kwargs_or_None), ...]   -- same(src_a, src_b, **kwargs) is True, behaviour differs.
   kwargs (ready for the harness of TASK.md): helpers_a / helpers_b = {name: (FunctionDef, is_method)}, props = the table of
   equiv.module_properties; helpers_a_src / helpers_b_src / props_src keep the source texts they were built from.
GATE_FINDINGS = [(title, cur_module_src, ref_module_src, qualname_wrongly_gated), ...]   -- for gate.apply()
DEMOS[title] = (stub source, driver source): the driver defines `run(f_or_cls)` returning the observable outcome.
Run  /venv/bin/python /tmp/redteam/4/findings.py  to re-verify everything."""
import ast
import sys
import textwrap

sys.path.insert(0, __import__('os').path.dirname(__import__('os').path.dirname(__import__('os').path.abspath(__file__))))

FINDINGS = []
GATE_FINDINGS = []
DEMOS = {}


def helpers_of(src):
    """{name: (FunctionDef, is_method)} from helper source text"""
    if not src:
        return None
    out = {}
    for h in ast.parse(src).body:
        is_m = bool(h.args.args) and h.args.args[0].arg == 'self' or any(isinstance(d, ast.Name) and d.id == 'staticmethod' for d in h.decorator_list)
        out[h.name] = (h, is_m)
    return out


def F(title, a, b, kw=None, stubs='', driver=''):
    # the kwargs handed out are directly usable with the harness of TASK.md: helpers_a / helpers_b are {name: (FunctionDef,
    # is_method)}, props is the table of equiv.module_properties; the source texts are kept under *_src for the demos
    if kw:
        kw = dict(kw)
        for side in ('helpers_a', 'helpers_b'):
            if isinstance(kw.get(side), str):
                kw[side + '_src'] = kw[side]
                kw[side] = helpers_of(kw[side])
        if kw.get('props_src'):
            from tdstatic import equiv
            kw['props'] = equiv.module_properties(ast.parse(kw['props_src']))
    FINDINGS.append((title, a, b, kw))
    DEMOS[title] = (stubs, driver)


def G(title, cur, ref, q, stubs='', driver=''):
    GATE_FINDINGS.append((title, cur, ref, q))
    DEMOS[title] = (stubs, driver)


# ------------------------------------------------------------------------------------------------------------------------
# 1. keyword arguments are bound in PARAMETER order, Python evaluates them in CALL order      (inline_helpers, l.546-549)
F('keyword arguments re-ordered: the binding assignments follow the parameter list, not the call',
  'def f(self):\n    return self._span(end=self.rd(), start=self.rd())',
  'def f(self):\n    start = self.rd()\n    end = self.rd()\n    return end - start',
  {'helpers_a': 'def _span(self, start, end):\n    return end - start'},
  stubs='class Base:\n    def __init__(self):\n        self.vals = [10, 3]\n    def rd(self):\n        return self.vals.pop(0)',
  driver='def run(K):\n    return K().f()')

# 2. defaults are evaluated once, at definition time; the inliner re-evaluates them at every call      (l.523, 531-532, 548)
F('mutable default argument (memo dict) becomes a fresh object per call',
  'def f(self, k):\n    return self._lookup(k)',
  'def f(self, k):\n    cache = {}\n    if k not in cache:\n        cache[k] = self.load(k)\n    return cache[k]',
  {'helpers_a': 'def _lookup(self, k, cache={}):\n    if k not in cache:\n        cache[k] = self.load(k)\n    return cache[k]'},
  stubs='class Base:\n    def __init__(self):\n        self.loads = 0\n    def load(self, k):\n        self.loads += 1\n        return k * 2',
  driver='def run(K):\n    o = K()\n    o.f(1); o.f(1); o.f(1)\n    return ("calls of load()", o.loads)')

F('default expression with a side effect / time dependence is evaluated per call instead of once',
  'def f(self, m):\n    self._log(m)',
  'def f(self, m):\n    self.out.append((tick(), m))',
  {'helpers_a': 'def _log(self, m, when=tick()):\n    self.out.append((when, m))'},
  stubs='T = [0]\ndef tick():\n    T[0] += 1\n    return T[0]\nclass Base:\n    def __init__(self):\n        self.out = []',
  driver='def run(K):\n    o = K()\n    o.f("a"); o.f("b")\n    return o.out')

# 3. free names of the helper (module globals) are captured by caller locals of the same name         (l.542-545: only stored names are renamed)
F('global read by the helper is captured by a caller local of the same name (statement-level inlining)',
  'def f(self, b):\n    size = b[0]\n    v = self._body(b)\n    return size, v',
  'def f(self, b):\n    size = b[0]\n    self.n += 1\n    return size, b[size:]',
  {'helpers_a': 'def _body(self, b):\n    self.n += 1\n    return b[size:]'},
  stubs='size = 4          # module-level header size read by _body\nclass Base:\n    n = 0',
  driver='def run(K):\n    return K().f(bytes([1, 2, 3, 4, 5, 6]))')

F('global function called by an expression helper is captured by a caller local of the same name',
  'def f(self, b):\n    length = b[0]\n    return length + self._body(b)',
  'def f(self, b):\n    length = b[0]\n    return length + length(b[1:])',
  {'helpers_a': 'def _body(self, b):\n    return length(b[1:])'},
  stubs='def length(x):\n    return len(x)\nclass Base:\n    pass',
  driver='def run(K):\n    return K().f(bytes([1, 2, 3]))')

# 4. a static helper is matched on ANY receiver name                                                    (inline_helpers l.508 vs l.516-519)
F('X.name(..) on any receiver X is taken for the new @staticmethod `name` of the class',
  'def f(self, data):\n    return zlib.decompress(data)',
  'def f(self, data):\n    return data[4:]',
  {'helpers_a': '@staticmethod\ndef decompress(data):\n    return data[4:]'},
  stubs='import zlib\nclass Base:\n    pass',
  driver='def run(K):\n    import zlib\n    return K().f(zlib.compress(b"abcdefgh"))')

# 5. a module-level helper is matched although the caller shadows the name                             (inline_helpers l.506, hoist l.445, expression l.409)
F('call of a parameter / local that has the name of a new module-level function',
  'def f(parse, x):\n    return parse(x)',
  'def f(parse, x):\n    return x.strip()',
  {'helpers_a': 'def parse(x):\n    return x.strip()'},
  stubs='',
  driver='def run(f):\n    return f(str.upper, " ab ")')

# 6. _tailify on a final try statement puts the CALLER's assignment / yield inside the helper's try    (_tailify l.317-325)
F('tuple unpacking of the result moves inside the helper\'s try: the handler now swallows the unpacking error',
  'def f(self):\n    a, b = self._h()\n    return a + b',
  'def f(self):\n    try:\n        a, b = self.parse()\n    except ValueError:\n        a, b = (0, 0)\n    return a + b',
  {'helpers_a': 'def _h(self):\n    try:\n        return self.parse()\n    except ValueError:\n        return (0, 0)'},
  stubs='class Base:\n    def parse(self):\n        return (1, 2, 3)',
  driver='def run(K):\n    return K().f()')

F('attribute store (validating setter) moves inside the helper\'s try',
  'def f(self, tok):\n    self.hdr.size = self._num(tok)',
  'def f(self, tok):\n    try:\n        self.hdr.size = int(tok)\n    except ValueError:\n        self.hdr.size = 0',
  {'helpers_a': 'def _num(self, tok):\n    try:\n        return int(tok)\n    except ValueError:\n        return 0'},
  stubs='class Hdr:\n    _size = None\n    @property\n    def size(self):\n        return self._size\n    @size.setter\n    def size(self, v):\n        if v < 0:\n            raise ValueError("negative size")\n        self._size = v\nclass Base:\n    def __init__(self):\n        self.hdr = Hdr()',
  driver='def run(K):\n    o = K()\n    o.f("-5")\n    return o.hdr.size')

F('augmented assignment of the result moves inside the helper\'s try',
  'def f(self, n):\n    n += self._h()\n    return n',
  'def f(self, n):\n    try:\n        n += self.rd()\n    except TypeError:\n        n += 0\n    return n',
  {'helpers_a': 'def _h(self):\n    try:\n        return self.rd()\n    except TypeError:\n        return 0'},
  stubs='class Base:\n    def rd(self):\n        return None',
  driver='def run(K):\n    return K().f(5)')

F('yield of the result moves inside the helper\'s try: an exception thrown into the generator is swallowed',
  'def f(self):\n    yield self._h()',
  'def f(self):\n    try:\n        yield self.parse()\n    except ValueError:\n        yield None',
  {'helpers_a': 'def _h(self):\n    try:\n        return self.parse()\n    except ValueError:\n        return None'},
  stubs='class Base:\n    def parse(self):\n        return 7',
  driver='def run(K):\n    g = K().f()\n    first = next(g)\n    return first, g.throw(ValueError("from consumer"))')

# 7. the last operand of a chained comparison is evaluated conditionally; eval_order treats it as unconditional  (eval_order l.778-781)
F('helper call in the conditional tail of a chained comparison is hoisted in front of the statement',
  'def f(self, a, b):\n    return a < b < self._next()',
  'def f(self, a, b):\n    t = self.s.pop(0)\n    self.n += 1\n    return a < b < t',
  {'helpers_a': 'def _next(self):\n    t = self.s.pop(0)\n    self.n += 1\n    return t'},
  stubs='class Base:\n    def __init__(self):\n        self.s = [9, 8]\n        self.n = 0',
  driver='def run(K):\n    o = K()\n    r = o.f(5, 1)\n    return r, o.s, o.n')

F('same root cause without helpers: inline_next_use moves a read into the conditional tail of a chained comparison',
  'def f(self, a, b):\n    t = self.read()\n    if a < b < t:\n        return 1\n    return 0',
  'def f(self, a, b):\n    if a < b < self.read():\n        return 1\n    return 0',
  None,
  stubs='class Base:\n    def __init__(self):\n        self.reads = 0\n    def read(self):\n        self.reads += 1\n        return 10',
  driver='def run(K):\n    o = K()\n    r = o.f(5, 1)\n    return r, ("reads", o.reads)')

# 8. substitution of arguments into a helper expression is not capture-avoiding                      (inline_expression_helpers l.419, is_pure accepts ListComp)
F('argument captured by the comprehension variable of an expression helper',
  'def f(self, xs, x):\n    return self._above(xs, x)',
  'def f(self, xs, x):\n    return [x for x in xs if x > x]',
  {'helpers_a': 'def _above(self, xs, lim):\n    return [x for x in xs if x > lim]'},
  stubs='class Base:\n    pass',
  driver='def run(K):\n    return K().f([1, 5, 9], 4)')

F('same root cause without helpers: a temporary is substituted under a comprehension that rebinds the name it reads (inline_temps)',
  'def f(xs, x):\n    t = x + 1\n    return [x for x in xs if x > t]',
  'def f(xs, x):\n    return [x for x in xs if x > x + 1]',
  None, stubs='', driver='def run(f):\n    return f([1, 5, 9], 4)')

# 9. an `async def` helper is pasted as if calling it ran its body                                     (_simple_helper l.296: `n is not h` skips the helper's own node type)
F('async helper called without await: the body never runs, the inliner pastes it',
  'def f(self):\n    self._flush()\n    return self.n',
  'def f(self):\n    self.buf.clear()\n    self.n = 0\n    return self.n',
  {'helpers_a': 'async def _flush(self):\n    self.buf.clear()\n    self.n = 0'},
  stubs='import warnings\nwarnings.simplefilter("ignore")\nclass Base:\n    def __init__(self):\n        self.buf = [1, 2]\n        self.n = 2',
  driver='def run(K):\n    o = K()\n    r = o.f()\n    return r, o.buf')

# 10. hoisting a helper call looks only at receiver and arguments, not at what the helper's body writes   (hoist_helper_calls l.454-471)
F('helper call hoisted above the read of module state that the helper changes',
  'def f(k):\n    return STATE.depth + _push(k)',
  'def f(k):\n    STATE.depth += 1\n    return STATE.depth + k',
  {'helpers_a': 'def _push(k):\n    STATE.depth += 1\n    return k'},
  stubs='class _S:\n    depth = 0\nSTATE = _S()',
  driver='def run(f):\n    return f(100)')

F('method helper hoisted above the read of a class attribute that it changes',
  'def f(self):\n    return (Rec.count, self._new())',
  'def f(self):\n    Rec.count += 1\n    return (Rec.count, Rec.count)',
  {'helpers_a': 'def _new(self):\n    Rec.count += 1\n    return Rec.count'},
  stubs='class Rec:\n    count = 0\nclass Base:\n    pass',
  driver='def run(K):\n    return K().f()')

# 11. in expression-statement position a side-effect-free return value is dropped, although elsewhere `Expr(pure)` is kept   (make() l.551-552)
F('subscript that raises is dropped when the helper call is an expression statement',
  'def f(self, k):\n    self._require(k)\n    return 1',
  'def f(self, k):\n    self.n += 1\n    return 1',
  {'helpers_a': 'def _require(self, k):\n    self.n += 1\n    return self.d[k]'},
  stubs='class Base:\n    n = 0\n    d = {}',
  driver='def run(K):\n    return K().f("missing")')

# 12. arguments of an expression helper become lazily / never evaluated                               (inline_expression_helpers l.416-419)
F('argument of an expression helper that was always evaluated is evaluated on one branch only',
  'def f(self, rec):\n    return self._pick(rec[0], rec[1])',
  'def f(self, rec):\n    return rec[0] if self.flag else rec[1]',
  {'helpers_a': 'def _pick(self, a, b):\n    return a if self.flag else b'},
  stubs='class Base:\n    flag = True',
  driver='def run(K):\n    return K().f([7])')

F('argument evaluated before the helper body is evaluated after its side effects (inline_temps through the binding assignment)',
  'def f(self, d):\n    self._z(d["k"])',
  'def f(self, d):\n    self.n += 1\n    self.v = d["k"]',
  {'helpers_a': 'def _z(self, v):\n    self.n += 1\n    self.v = v'},
  stubs='class Base:\n    n = 0',
  driver='def run(K):\n    o = K()\n    try:\n        o.f({})\n    except KeyError:\n        pass\n    return ("n after the KeyError", o.n)')

# 13. keywords that name no parameter of the helper are ignored (the real call raises TypeError, their values are never evaluated)   (inline_helpers l.522-535)
F('misspelt keyword argument: the call that always raises TypeError is taken for the helper body',
  'def f(self, a):\n    return self._h(a, bias=self.g())',
  'def f(self, a):\n    return a + 1',
  {'helpers_a': 'def _h(self, a, base=0):\n    return a + 1'},
  stubs='class Base:\n    def g(self):\n        return 0',
  driver='def run(K):\n    return K().f(1)')

# 14. the property inliner is not capture-avoiding either                                           (_PropInline l.2729, same _Subst)
F('receiver of a property read is captured by the comprehension variable of the property body (and the correct inlining is NOT recognised)',
  'def f(recs):\n    out = []\n    for i in recs:\n        out.append(i.small)\n    return out',
  'def f(recs):\n    out = []\n    for i in recs:\n        out.append([j for j in i.items if j < j.limit])\n    return out',
  {'props_src': 'class Rec:\n    def __init__(self, items, limit):\n        self.items, self.limit = items, limit\n    @property\n    def small(self):\n        return [i for i in self.items if i < self.limit]'},
  stubs='class Rec:\n    def __init__(self, items, limit):\n        self.items, self.limit = items, limit\n    @property\n    def small(self):\n        return [i for i in self.items if i < self.limit]',
  driver='def run(f):\n    Rec = f.__globals__["Rec"]\n    return f([Rec([1, 5, 9], 6)])')

# 15. the canonical text does not say whether the function is `async def`                             (canonical l.2878 / _signature)
F('def turned into async def (the caller now gets a coroutine)',
  'def f(self):\n    return self.g()',
  'async def f(self):\n    x = self.g()\n    return x',
  None,
  stubs='import warnings\nwarnings.simplefilter("ignore")\nclass Base:\n    def g(self):\n        return 42',
  driver='def run(K):\n    r = K().f()\n    return r if isinstance(r, int) else type(r).__name__')

# ------------------------------------------------------------------------------------------------------------------------ gate.py
G('a new method of class A is pasted into `self._reset()` of class C, which has its own (different) _reset   (gate._helper_table: bare names)',
  '''
class A:
    def _reset(self):
        self.pos = 0
        self.buf = []
    def f(self):
        self._reset()
        return 1
class C:
    def _reset(self):
        self.pos = 0
        self.buf = []
        self.closed = True
    def f(self):
        self._reset()
        return 2
''', '''
class A:
    def f(self):
        self.pos = 0
        self.buf = []
        return 1
class C:
    def _reset(self):
        self.pos = 0
        self.buf = []
        self.closed = True
    def f(self):
        self.pos = 0
        self.buf = []
        return 2
''', 'C.f', driver='def run(m):\n    o = m["C"]()\n    o.f()\n    return sorted(vars(o))')

G('duplicated block replaced by a call of an existing method that a subclass overrides   (gate._called/_own: static resolution of self.x())',
  '''
class Base:
    def _hdr(self):
        self.n = self.s.pop(0)
    def f(self):
        self._hdr()
        return self.n
class Sub(Base):
    def _hdr(self):
        self.n = self.s.pop(0) * 256 + self.s.pop(0)
''', '''
class Base:
    def _hdr(self):
        self.n = self.s.pop(0)
    def f(self):
        self.n = self.s.pop(0)
        return self.n
class Sub(Base):
    def _hdr(self):
        self.n = self.s.pop(0) * 256 + self.s.pop(0)
''', 'Base.f', driver='def run(m):\n    o = m["Sub"]()\n    o.s = [1, 2, 3]\n    return o.f(), o.s')

G('truthiness -> len()==0 although the class gives the attribute a None default in the class body   (equiv.sized_chains / gate._class_scope)',
  '''
class R:
    items = None
    def load(self):
        self.items = []
    def f(self):
        if len(self.items) == 0:
            return 0
        return 1
''', '''
class R:
    items = None
    def load(self):
        self.items = []
    def f(self):
        if not self.items:
            return 0
        return 1
''', 'R.f', driver='def run(m):\n    return m["R"]().f()')

G('truthiness -> len()==0 although a subclass binds the attribute to None   (gate._class_scope looks at base classes only)',
  '''
class R:
    def load(self):
        self.items = []
    def f(self):
        if len(self.items) == 0:
            return 0
        return 1
class S(R):
    def clear(self):
        self.items = None
''', '''
class R:
    def load(self):
        self.items = []
    def f(self):
        if not self.items:
            return 0
        return 1
class S(R):
    def clear(self):
        self.items = None
''', 'R.f', driver='def run(m):\n    o = m["S"]()\n    o.load()\n    o.clear()\n    return o.f()')

G('`rec.items` bound to a list in the function counts as sized although the impure call rec.load() in between may rebind it   (gate.canonical_pair: local sized chains)',
  """
def f(rec):
    rec.items = []
    rec.load()
    if len(rec.items) == 0:
        return 0
    return 1
""", """
def f(rec):
    rec.items = []
    rec.load()
    if not rec.items:
        return 0
    return 1
""", 'f', driver='def run(m):\n    class Rec:\n        def load(self):\n            self.items = None\n    return m["f"](Rec())')

G('keyword arguments at the gate: the two reads of a record header are swapped   (inline_helpers through gate.apply)',
  """
class Rd:
    def __init__(self, b):
        self.b = list(b)
    def u8(self):
        return self.b.pop(0)
    def u16(self):
        return self.b.pop(0) * 256 + self.b.pop(0)
    def _mk(self, kind, length):
        return (kind, length)
    def f(self):
        return self._mk(length=self.u16(), kind=self.u8())
""", """
class Rd:
    def __init__(self, b):
        self.b = list(b)
    def u8(self):
        return self.b.pop(0)
    def u16(self):
        return self.b.pop(0) * 256 + self.b.pop(0)
    def f(self):
        kind = self.u8()
        length = self.u16()
        return (kind, length)
""", 'Rd.f', driver='def run(m):\n    return m["Rd"]([1, 2, 3]).f()')

G('a method defined twice: the owner map keeps the FIRST definition, Python runs the LAST   (gate._owner_map setdefault)',
  """
class A:
    def _h(self):
        return 1
    def f(self):
        return self._h()
    def _h(self):
        return 2
""", """
class A:
    def f(self):
        return 1
""", 'A.f', driver='def run(m):\n    return m["A"]().f()')

G('module-level helper pasted into a method: `o.__v` is name-mangled inside the class body, not in the helper   (no class context in inline_helpers)',
  """
class C:
    def f(self, o):
        return o.__v + 1
""", """
def _get(o):
    return o.__v
class C:
    def f(self, o):
        return _get(o) + 1
""", 'C.f', driver='def run(m):\n    class O:\n        pass\n    o = O()\n    setattr(o, "__v", 1)\n    o._C__v = 100\n    return m["C"]().f(o)')


# ------------------------------------------------------------------------------------------------------------------------ verification
def same(a, b, **kw):
    """the harness of TASK.md"""
    from tdstatic import equiv
    equiv.REPO_DEFINED[0] = frozenset()
    ca = equiv.canonical(ast.parse(a).body[0], kw.get('helpers_a'), dicts=kw.get('dicts'), sized=kw.get('sized'), props=kw.get('props'))
    cb = equiv.canonical(ast.parse(b).body[0], kw.get('helpers_b'), dicts=kw.get('dicts'), sized=kw.get('sized'), props=kw.get('props'))
    return ca is not None and ca == cb


def _build(src, helper_src, stubs):
    """the function (module level) or a class K(Base) holding it and its helper"""
    ns = {}
    exec(stubs, ns)
    is_method = ast.parse(src).body[0].args.args[:1] and ast.parse(src).body[0].args.args[0].arg == 'self'
    if is_method:
        body = (helper_src + '\n' if helper_src else '') + src
        exec('class K(Base):\n' + textwrap.indent(body, '    '), ns)
        return ns['K']
    exec((helper_src + '\n' if helper_src else '') + src, ns)
    return ns['f']


def _outcome(thing, driver):
    ns = {}
    exec(driver, ns)
    try:
        return repr(ns['run'](thing))
    except Exception as e:          # noqa
        return f'raises {type(e).__name__}: {e}'


def verify():
    bad = 0
    for k, (title, a, b, kw) in enumerate(FINDINGS, 1):
        kw = kw or {}
        s = same(a, b, **kw)
        stubs, driver = DEMOS[title]
        ra = _outcome(_build(a, kw.get('helpers_a_src'), stubs), driver)
        rb = _outcome(_build(b, kw.get('helpers_b_src'), stubs), driver)
        okay = s and ra != rb
        bad += not okay
        print(f'[{k}] {title}\n     same() = {s}\n     A -> {ra}\n     B -> {rb}\n     {"CONFIRMED" if okay else "NOT CONFIRMED"}')
    from tdstatic import equiv, gate
    equiv.REPO_DEFINED[0] = frozenset()
    for k, (title, cur, ref, q) in enumerate(GATE_FINDINGS, 1):
        gated = gate.apply(ast.parse(cur), ast.parse(ref), lambda t: None)
        stubs, driver = DEMOS[title]
        mc, mr = {}, {}
        exec(cur, mc)
        exec(ref, mr)
        rc, rr = _outcome(mc, driver), _outcome(mr, driver)
        okay = q in gated and rc != rr
        bad += not okay
        print(f'[G{k}] {title}\n     gate.apply -> {gated}\n     current   -> {rc}\n     reference -> {rr}\n     {"CONFIRMED" if okay else "NOT CONFIRMED"}')
    return bad


if __name__ == '__main__':
    sys.exit(1 if verify() else 0)
