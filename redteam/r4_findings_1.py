"""Red-team round 4, agent 1 (focus: general sweep with a differential fuzzer - fuzz.py / fuzz2.py in this directory).
FINDINGS = [(title, src_a, src_b, kwargs_dict_or_None), ...]; DEMOS[title] is code run with fa / fb (the two functions) defined,
it prints the two outcomes and must leave `ra` and `rb` (different).
Run:  /venv/bin/python /tmp/redteam4/1/findings.py   (checks same() is True for every pair and that the outcomes differ)"""
import ast
import os
import sys

sys.path.insert(0, os.path.dirname(os.path.dirname(os.path.abspath(__file__))))

FINDINGS = []
DEMOS = {}
GATE_FINDINGS = []
GATE_DEMOS = {}

STUBS = '''
class Obj:
    def __init__(self, **kw):
        self.__dict__.update(kw)
    def __repr__(self):
        return 'Obj(' + ', '.join(f'{k}={v!r}' for k, v in sorted(self.__dict__.items())) + ')'
class Window:
    """a span of a buffer: its length (and so its truth value) is end - start; equal when the spans are equal"""
    def __init__(self, start, end):
        self.start, self.end = start, end
    def __len__(self):
        return self.end - self.start
    def __eq__(self, other):
        return (self.start, self.end) == (other.start, other.end)
    def __hash__(self):
        return hash((self.start, self.end))
    def __repr__(self):
        return f'Window({self.start}, {self.end})'
class Table(dict):
    """a dict of known records with a cut-off: keys at or above `limit` are not members"""
    limit = 100
    def __contains__(self, k):
        return k < self.limit and dict.__contains__(self, k)
def outcome(fn, *a):
    try:
        return ('returned', fn(*a))
    except Exception as e:
        return ('raised', type(e).__name__, str(e))
'''


def F(title, a, b, kw, demo):
    FINDINGS.append((title, a, b, kw))
    DEMOS[title] = demo


def same(a, b, **kw):
    from tdstatic import equiv
    equiv.REPO_DEFINED[0] = frozenset()

    def hp(d):
        if not d:
            return None
        out = {}
        for k, v in d.items():
            if isinstance(v, str):
                fd = ast.parse(v).body[0]
                v = (fd, bool(fd.args.args) and fd.args.args[0].arg == 'self')
            out[k] = v
        return out
    ca = equiv.canonical(ast.parse(a).body[0], hp(kw.get('helpers_a')), dicts=kw.get('dicts'), sized=kw.get('sized'), props=kw.get('props'))
    cb = equiv.canonical(ast.parse(b).body[0], hp(kw.get('helpers_b')), dicts=kw.get('dicts'), sized=kw.get('sized'), props=kw.get('props'))
    return ca is not None and ca == cb


# ---------------------------------------------------------------------------------------------------------------------------------
# 1. cx(), product branch (equiv.py 2924-2938): the leaves of a product are sorted as soon as all are side-effect free; that two of
#    them can FAIL (and fail differently) is not asked - the generic commutation just below (2943) does ask
#    `not (may_raise(left) and may_raise(right))`, but a product never gets there.  Found by the fuzzer (mutation `operands`).
F('P1 sorted product: which of two failing lookups raises (KeyError / IndexError)',
  'def f(self, hdr, k):\n    return self.tab[k] * hdr[2]',
  'def f(self, hdr, k):\n    return hdr[2] * self.tab[k]', None,
  '''
ra = outcome(fa, Obj(tab={}), [], 'k'); rb = outcome(fb, Obj(tab={}), [], 'k')
''')
F('P2 sorted product inside a try: the handler catches the one failure and not the other',
  'def f(self, hdr, k):\n    try:\n        n = self.tab[k] * hdr[2]\n    except KeyError:\n        n = 0\n    return n',
  'def f(self, hdr, k):\n    try:\n        n = hdr[2] * self.tab[k]\n    except KeyError:\n        n = 0\n    return n', None,
  '''
ra = outcome(fa, Obj(tab={}), [], 'k'); rb = outcome(fb, Obj(tab={}), [], 'k')
''')
F('P3 sorted product: ZeroDivisionError or KeyError',
  'def f(self, a, b, k):\n    return (a // b) * self.tab[k]',
  'def f(self, a, b, k):\n    return self.tab[k] * (a // b)', None,
  '''
ra = outcome(fa, Obj(tab={}), 1, 0, 'k'); rb = outcome(fb, Obj(tab={}), 1, 0, 'k')
''')
F('P4 sorted product: ValueError of int() or KeyError; record loop that skips bad sizes',
  'def f(self, recs):\n    total = 0\n    for r in recs:\n        try:\n            total += int(r.count) * self.width[r.kind]\n        except ValueError:\n            continue\n    return total',
  'def f(self, recs):\n    total = 0\n    for r in recs:\n        try:\n            total += self.width[r.kind] * int(r.count)\n        except ValueError:\n            continue\n    return total', None,
  '''
recs = [Obj(count='2', kind='a'), Obj(count='x', kind='zz'), Obj(count='3', kind='a')]
ra = outcome(fa, Obj(width={'a': 4}), recs); rb = outcome(fb, Obj(width={'a': 4}), recs)
''')

# ---------------------------------------------------------------------------------------------------------------------------------
# 2. _atoms() (equiv.py 3130-3132): in a guard `a <= b` becomes `not (b < a)` when both operands are side-effect free; cx() (2953)
#    refuses to mirror when both operands can fail (closed after round 2, O1), this place does not ask.  Found by the fuzzer (`cmp`).
F('M1 `<=` against mirrored `>=` in a guard: which of two failing lookups raises',
  'def f(self, hdr, k):\n    if self.tab[k] <= hdr[2]:\n        return 1\n    return 0',
  'def f(self, hdr, k):\n    if hdr[2] >= self.tab[k]:\n        return 1\n    return 0', None,
  '''
ra = outcome(fa, Obj(tab={}), [], 'k'); rb = outcome(fb, Obj(tab={}), [], 'k')
''')
F('M2 the same in a try whose handler catches only one of the two',
  'def f(self, hdr, k):\n    try:\n        if self.tab[k] <= hdr[2]:\n            return 1\n    except KeyError:\n        return -1\n    return 0',
  'def f(self, hdr, k):\n    try:\n        if hdr[2] >= self.tab[k]:\n            return 1\n    except KeyError:\n        return -1\n    return 0', None,
  '''
ra = outcome(fa, Obj(tab={}), [], 'k'); rb = outcome(fb, Obj(tab={}), [], 'k')
''')

# ---------------------------------------------------------------------------------------------------------------------------------
# 3. _assume() (equiv.py 3225): a repeated side-effect-free test is resolved across plain assignments whose target text is not a
#    SUBSTRING of the test (`t_ not in c`).  A store to `x.n` is let through when the test reads the whole object `x` (its truth
#    value / length / equality / membership), although that is exactly what depends on x.n.  (inline_temps does prefix matching in
#    both directions and keeps the corresponding temp versions apart.)  Found by reading, after the fuzzer pointed at guards.
F('A1 truth value of a window re-tested after its bounds were set',
  'def f(self, win):\n    if not win:\n        win.end = win.start + 4\n    if not win:\n        self.empty += 1',
  'def f(self, win):\n    if not win:\n        win.end = win.start + 4\n        self.empty += 1', None,
  '''
sa = Obj(empty=0); sb = Obj(empty=0)
fa(sa, Window(3, 3)); fb(sb, Window(3, 3))
ra, rb = sa, sb
''')
F('A2 len(self.buf) == 0 re-tested after an attribute of the buffer was set',
  'def f(self):\n    if len(self.buf) == 0:\n        self.buf.end = 4\n        if len(self.buf) == 0:\n            return 1\n        return 2\n    return 3',
  'def f(self):\n    if len(self.buf) == 0:\n        self.buf.end = 4\n        return 1\n    return 3', None,
  '''
ra = outcome(fa, Obj(buf=Window(0, 0))); rb = outcome(fb, Obj(buf=Window(0, 0)))
''')
F('A3 equality of two objects re-tested after a field of one was changed',
  'def f(a, b):\n    if a == b:\n        a.end = 1\n        if a == b:\n            return 1\n        return 2\n    return 3',
  'def f(a, b):\n    if a == b:\n        a.end = 1\n        return 1\n    return 3', None,
  '''
ra = outcome(fa, Window(0, 5), Window(0, 5)); rb = outcome(fb, Window(0, 5), Window(0, 5))
''')
F('A4 membership re-tested after the record that is looked up was changed',
  'def f(self, rec):\n    if rec in self.seen:\n        rec.end = 0\n    if rec in self.seen:\n        self.dup += 1',
  'def f(self, rec):\n    if rec in self.seen:\n        rec.end = 0\n        self.dup += 1', None,
  '''
sa = Obj(seen=[Window(0, 5)], dup=0); sb = Obj(seen=[Window(0, 5)], dup=0)
fa(sa, Window(0, 5)); fb(sb, Window(0, 5))
ra, rb = sa, sb
''')
F('A5 membership re-tested after an attribute of the container was changed',
  'def f(self, k):\n    if k in self.tab:\n        self.tab.limit = 0\n        if k in self.tab:\n            return 1\n        return 2\n    return 3',
  'def f(self, k):\n    if k in self.tab:\n        self.tab.limit = 0\n        return 1\n    return 3', None,
  '''
ra = outcome(fa, Obj(tab=Table({1: 2})), 1); rb = outcome(fb, Obj(tab=Table({1: 2})), 1)
''')
F('A6 the test written as a value is taken to be its known truth value',
  'def f(self, a, b):\n    if a == b:\n        a.end = 1\n        self.same = a == b\n    else:\n        self.same = False',
  'def f(self, a, b):\n    if a == b:\n        a.end = 1\n        self.same = True\n    else:\n        self.same = False', None,
  '''
sa = Obj(); sb = Obj()
fa(sa, Window(0, 5), Window(0, 5)); fb(sb, Window(0, 5), Window(0, 5))
ra, rb = sa, sb
''')

# ---------------------------------------------------------------------------------------------------------------------------------
# 4. seq(), `a.b = literal` as the default of the other branch (equiv.py 3372-3386): the default is moved below the test when the
#    target text is not a substring of the test (`tgt not in c`, 3383) - same gap: the test reads the whole object.
F('D1 attribute default moved below a test of the whole object (truth value)',
  'def f(win, v):\n    win.end = 0\n    if win:\n        win.end = v\n    return win',
  'def f(win, v):\n    if win:\n        win.end = v\n    else:\n        win.end = 0\n    return win', None,
  '''
ra = outcome(fa, Window(0, 5), 9); rb = outcome(fb, Window(0, 5), 9)
''')
F('D2 the same as a conditional expression',
  'def f(win, v):\n    win.end = 0\n    if win:\n        win.end = v\n    return win',
  'def f(win, v):\n    win.end = v if win else 0\n    return win', None,
  '''
ra = outcome(fa, Window(0, 5), 9); rb = outcome(fb, Window(0, 5), 9)
''')
F('D3 attribute default moved below an equality test of the object',
  'def f(self, other, v):\n    self.cur.end = 0\n    if self.cur == other:\n        self.cur.end = v\n    self.done = 1',
  'def f(self, other, v):\n    if self.cur == other:\n        self.cur.end = v\n    else:\n        self.cur.end = 0\n    self.done = 1', None,
  '''
sa = Obj(cur=Window(0, 5)); sb = Obj(cur=Window(0, 5))
fa(sa, Window(0, 5), 9); fb(sb, Window(0, 5), 9)
ra, rb = sa, sb
''')

# ---------------------------------------------------------------------------------------------------------------------------------
# 5. _bubble() (equiv.py 3396-3413): neighbouring stores of literals to different attribute chains are put in text order.  A store
#    through a name the function compares with None, or in a function that catches AttributeError, can fail (the two cases in which
#    the stated assumption on attribute access does NOT hold); then the other store has happened or not.  sort_independent_runs keeps
#    the non-literal version of the same pair apart.
F('B1 literal stores commuted inside a try whose AttributeError handler reads the other one',
  'def f(self, hdr):\n    try:\n        hdr.n = 0\n        self.count = 1\n    except AttributeError:\n        return self.count\n    return 0',
  'def f(self, hdr):\n    try:\n        self.count = 1\n        hdr.n = 0\n    except AttributeError:\n        return self.count\n    return 0', None,
  '''
ra = outcome(fa, Obj(count=0), None); rb = outcome(fb, Obj(count=0), None)
''')
F('B2 literal stores commuted, one through a parameter that is compared with None (state left behind by the failure)',
  'def f(self, hdr=None):\n    if hdr is None:\n        self.log.append(1)\n    hdr.n = 0\n    self.count = 1',
  'def f(self, hdr=None):\n    if hdr is None:\n        self.log.append(1)\n    self.count = 1\n    hdr.n = 0', None,
  '''
sa = Obj(count=0, log=[]); sb = Obj(count=0, log=[])
ra = (outcome(fa, sa), sa); rb = (outcome(fb, sb), sb)
''')

# ---------------------------------------------------------------------------------------------------------------------------------
# 6. may_raise() / cannot_fail() (equiv.py 111-181) on the result of helper inlining: a helper that falls off its end is pasted as
#    the literal None; `None + 4` counts as arithmetic that cannot fail, so drop_dead_locals (2096) removes it (or an unused helper
#    parameter takes it away).  The version that uses the return value of a procedure crashes, the inlined one does not.
#    Found by the self-transformation fuzzer with helpers (fuzz2.py h): 47 of its 56 hits are this.
SKIP = 'def _skip(self, n):\n    self.pos += n'
F('H1 return value of a helper that returns nothing used in arithmetic (result unused): TypeError dropped',
  'def f(self, n):\n    end = self._skip(n) + 4\n    self.count += 1\n    return self.pos',
  'def f(self, n):\n    self.pos += n\n    self.count += 1\n    return self.pos', {'helpers_a': {'_skip': SKIP}},
  '''
class S(Obj):
    def _skip(self, n):
        self.pos += n
ra = outcome(fa, S(pos=0, count=0), 3); rb = outcome(fb, S(pos=0, count=0), 3)
''')
TICK = 'def _tick(self, why):\n    self.count += 1'
F('H2 the same as the argument of a second call (a helper that does not use its parameter)',
  'def f(self, n):\n    self._tick(self._tick(n) + 4)\n    return self.count',
  'def f(self, n):\n    self.count += 1\n    self.count += 1\n    return self.count', {'helpers_a': {'_tick': TICK}},
  '''
class S(Obj):
    def _tick(self, why):
        self.count += 1
sa = S(count=0); sb = S(count=0)
ra = (outcome(fa, sa, 3), sa); rb = (outcome(fb, sb, 3), sb)
''')


def main():
    bad = 0
    for title, a, b, kw in FINDINGS:
        s = same(a, b, **(kw or {}))
        env = {}
        exec(STUBS, env)
        na, nb = dict(env), dict(env)
        exec(a, na)
        exec(b, nb)
        env['fa'], env['fb'] = na['f'], nb['f']
        exec(DEMOS[title], env)
        differ = repr(env['ra']) != repr(env['rb'])
        print(f'[{"same" if s else "NOT SAME"}] [{"differ" if differ else "NO DIFFERENCE"}] {title}')
        print('    A:', env['ra'])
        print('    B:', env['rb'])
        if not (s and differ):
            bad += 1
    print(f'{len(FINDINGS)} findings, {bad} not confirmed')


if __name__ == '__main__':
    main()
