"""Red-team findings against tdstatic/equiv.py (focus: expression canonicalisation).

FINDINGS = [(title, src_a, src_b, kwargs_dict_or_None), ...]   -- every pair has same(A, B) == True and behaves differently.
DEMOS[title] = source of `run(f)`: builds the stubs, calls f, returns the observable outcome (exceptions are caught by the driver).
Run:  /venv/bin/python /tmp/redteam/3/findings.py
"""
import ast
import sys
import textwrap

_ALL = []


def F(title, a, b, demo, kw=None, where=''):
    _ALL.append((title, textwrap.dedent(a).strip() + '\n', textwrap.dedent(b).strip() + '\n', kw, textwrap.dedent(demo), where))


STUBS = '''
import io, struct
class Log(list):
    pass
class FH:
    """byte stream with typed readers; every read advances the position"""
    def __init__(self, data):
        self.data, self.pos, self.calls = bytes(data), 0, []
    def u8(self):
        self.calls.append('u8'); v = self.data[self.pos]; self.pos += 1; return v
    def u16(self):
        self.calls.append('u16'); v = int.from_bytes(self.data[self.pos:self.pos + 2], 'big'); self.pos += 2; return v
    def tell(self):
        return self.pos
'''

# ---------------------------------------------------------------------------------------------------------------------------
# 1. products / & | ^ are sorted by text although the operands have side effects
F('product of two stream reads reordered (cx sorts the leaves of a product without asking is_pure)',
  '''
  def frame_bytes(fh):
      return fh.u16() * fh.u8()
  ''',
  '''
  def frame_bytes(fh):
      return fh.u8() * fh.u16()
  ''',
  '''
  def run(f):
      fh = FH(b'\\x00\\x02\\x03')
      return f(fh), fh.calls
  ''', where='cx(), BinOp Mult branch, equiv.py:2044-2057 (and _COMMUTE swap at 2060 for & | ^)')

F('bit-or of two stream reads reordered (_COMMUTE swap ignores side effects)',
  '''
  def word(fh):
      return fh.u8() << 8 | fh.u8() & 0x7f
  ''',
  '''
  def word(fh):
      return fh.u8() & 0x7f | fh.u8() << 8
  ''',
  '''
  def run(f):
      fh = FH(b'\\x81\\xff')
      return f(fh)
  ''', where='cx(), equiv.py:2058-2062')

F('dict union is not commutative (| sorted as if on integers / sets)',
  '''
  def settings(defaults, overrides):
      return defaults | overrides
  ''',
  '''
  def settings(defaults, overrides):
      return overrides | defaults
  ''',
  '''
  def run(f):
      return f({'unit': 'm', 'null': -999.25}, {'unit': 'ft'})
  ''', where='cx(), _COMMUTE contains BitOr, equiv.py:1989 / 2060')

# 2. keyword arguments sorted by name: evaluation order of their values changes
F('keyword arguments with side effects reordered (cx sorts keywords by name)',
  '''
  def read_header(fh):
      return dict(kind=fh.u8(), size=fh.u16())
  ''',
  '''
  def read_header(fh):
      return dict(size=fh.u16(), kind=fh.u8())
  ''',
  '''
  def run(f):
      return f(FH(b'\\x01\\x00\\x10'))
  ''', where='cx(), generic Call branch, equiv.py:2113')

# 3. comparisons: mirrored / sorted although the operands have side effects
F('mirrored comparison swaps two reads (a() > b()  vs  b() < a())',
  '''
  def more_rows_than_cols(fh):
      return fh.u8() > fh.u8() + 1
  ''',
  '''
  def more_rows_than_cols(fh):
      return fh.u8() + 1 < fh.u8()
  ''',
  '''
  def run(f):
      return f(FH(b'\\x05\\x02'))
  ''', where='cx() Compare branch, equiv.py:2066-2074 (mirror) and _atoms 2238-2243 (<= as not <, operands swapped)')

F('== with two reads sorted by text',
  '''
  def check(fh, crc):
      return fh.u16() == crc.update(fh.u8())
  ''',
  '''
  def check(fh, crc):
      return crc.update(fh.u8()) == fh.u16()
  ''',
  '''
  def run(f):
      class Crc:
          def update(self, b):
              return b
      return f(FH(b'\\x00\\x07\\x07'), Crc())
  ''', where='cx() Compare branch, equiv.py:2072-2073')

F('<= in a guard becomes `not (b < a)`: with two reads of the same spelling the swap is invisible, so a wrong negation passes (A: first <= second, B: first >= second)',
  '''
  def in_order(fh):
      if fh.u8() <= fh.u8():
          return 'ok'
      return 'bad'
  ''',
  '''
  def in_order(fh):
      if fh.u8() < fh.u8():
          return 'bad'
      return 'ok'
  ''',
  '''
  def run(f):
      return f(FH(b'\\x01\\x02'))
  ''', where='_atoms, equiv.py:2241-2243 (LtE -> swapped Lt) together with cx mirror of Gt, 2069-2071')

# 4. any / all of a generator is not `consumed completely`: it stops at the first hit
F('any(generator) vs any([list]) - predicate with side effects runs on every element',
  '''
  def any_bad(self, recs):
      return any(self.check(r) for r in recs)
  ''',
  '''
  def any_bad(self, recs):
      return any([self.check(r) for r in recs])
  ''',
  '''
  def run(f):
      class P:
          def __init__(self):
              self.seen = []
          def check(self, r):
              self.seen.append(r)
              return r < 0
      p = P()
      return f(p, [1, -1, 2, 3]), p.seen
  ''', where='cx(), generator-to-list rule lists any/all among the complete consumers, equiv.py:2083-2087; same in _atoms 2251-2262')

F('any(generator) leaves the rest of a token iterator for the caller; any([...]) exhausts it',
  '''
  def skip_to_marker(toks):
      return any(t == 0xff for t in toks)
  ''',
  '''
  def skip_to_marker(toks):
      return any([t == 0xff for t in toks])
  ''',
  '''
  def run(f):
      it = iter([1, 0xff, 7, 8])
      r = f(it)
      return r, list(it)
  ''', where='cx(), equiv.py:2083-2087')

F('all(generator) stops before the malformed record; all([...]) raises',
  '''
  def well_formed(rows):
      return all(len(r) > 0 and r[0] == 1 for r in rows) and all(r[1] > 0 for r in rows)
  ''',
  '''
  def well_formed(rows):
      return all([len(r) > 0 and r[0] == 1 for r in rows]) and all([r[1] > 0 for r in rows])
  ''',
  '''
  def run(f):
      return f([(1, 5), (1, 0), (1,)])
  ''', where='cx(), equiv.py:2083-2087')

F('early-return search loop vs any([...]): the loop stops consuming the iterator at the hit',
  '''
  def has_end_marker(toks):
      for t in toks:
          if t == 0:
              return True
      return False
  ''',
  '''
  def has_end_marker(toks):
      return any([t == 0 for t in toks])
  ''',
  '''
  def run(f):
      it = iter([3, 0, 9, 9])
      r = f(it)
      return r, list(it)
  ''', where='loops_to_any, equiv.py:1263-1284 (list comprehension evaluates every element) + cx 2083')

# 5. str.format -> f-string
F("'{0}..{0}'.format(E): E with side effects evaluated once, the f-string twice",
  '''
  def label(fh):
      return '{0:02X}-{0:d}'.format(fh.u8())
  ''',
  '''
  def label(fh):
      return f'{fh.u8():02X}-{fh.u8():d}'
  ''',
  '''
  def run(f):
      fh = FH(b'\\x10\\x20')
      return f(fh), fh.pos
  ''', where='_fstring_of_format: an index used twice copies the argument, equiv.py:603-610')

F("'{}'.format(a, E): unused argument with side effects dropped",
  '''
  def label(fh):
      return 'kind {}'.format(fh.u8(), fh.u16())
  ''',
  '''
  def label(fh):
      return f'kind {fh.u8()}'
  ''',
  '''
  def run(f):
      fh = FH(b'\\x10\\x20\\x30')
      return f(fh), fh.pos
  ''', where='_fstring_of_format: arguments no field refers to vanish, equiv.py:596-613')

F("'{1}{0}'.format(E1, E2): arguments evaluated left to right, fields of the f-string in field order",
  '''
  def label(fh):
      return '{1}:{0}'.format(fh.u8(), fh.u16())
  ''',
  '''
  def label(fh):
      return f'{fh.u16()}:{fh.u8()}'
  ''',
  '''
  def run(f):
      return f(FH(b'\\x01\\x00\\x02'))
  ''', where='_fstring_of_format: explicit indices, equiv.py:601-610')

# 6. D.get(k, default)
F('D.get(k, default): the default is evaluated always, in the conditional expression only on a miss',
  '''
  def unit_name(code, names):
      return UNITS.get(code, names[0])
  ''',
  '''
  def unit_name(code, names):
      return UNITS[code] if code in UNITS else names[0]
  ''',
  '''
  UNITS = {1: 'm', 2: 'ft'}
  def run(f):
      f.__globals__['UNITS'] = UNITS
      return f(1, [])
  ''', kw={'dicts': ['UNITS']}, where='_ExprRewrite.visit_Call, equiv.py:628-634 (is_pure(default) does not mean it cannot raise)')

# 7. text collisions in cx
F('a name spelled c1 / cNone has the canonical text of the constant 1 / None',
  '''
  def scale(x):
      return x * c1 + c0
  ''',
  '''
  def scale(x):
      return x * 1 + 0
  ''',
  '''
  def run(f):
      f.__globals__.update(c1=0.3048, c0=10)
      return f(100)
  ''', where="cx(): Constant -> 'c' + repr(value), Name -> id, equiv.py:2027-2030")

# 8. scoping of lambdas / nested functions
F('lambda parameter vs comprehension variable: the body is renamed, the parameter list is not',
  '''
  def getters(cols):
      return [(lambda c: c) for c in cols]
  ''',
  '''
  def getters(cols):
      return [(lambda c: k) for k in cols]
  ''',
  '''
  def run(f):
      return [g('arg') for g in f(['a', 'b'])]
  ''', where='cx() comprehension renaming with _Rename (Names only) + Lambda printed with ast.unparse, equiv.py:2160-2164, 2183')

F('lambda parameter shadowing a local vs a closure over another local',
  '''
  def shifted(self, xs):
      x = self.origin()
      return [x] + list(map(lambda x: x + 1, xs))
  ''',
  '''
  def shifted(self, xs):
      y = self.origin()
      return [y] + list(map(lambda x: y + 1, xs))
  ''',
  '''
  def run(f):
      class S:
          def origin(self):
              return 100
      return f(S(), [1, 2, 3])
  ''', where='canonical(): _Rename marks local names inside nested scopes too (bodies, not parameters), equiv.py:2855; final numbering 2872-2877')

F('nested function: closure variables are numbered afresh inside the inner function (a vs b both _L0)',
  '''
  def callbacks(self):
      first = self.head()
      last = self.tail()
      def on_done():
          return first
      return on_done, first, last
  ''',
  '''
  def callbacks(self):
      first = self.head()
      last = self.tail()
      def on_done():
          return last
      return on_done, first, last
  ''',
  '''
  def run(f):
      class S:
          def head(self):
              return 'HEAD'
          def tail(self):
              return 'TAIL'
      cb, a, b = f(S())
      return cb()
  ''', where="_cstmt FunctionDef -> canonical(st): the inner text is numbered on its own (_L0..), equiv.py:2630-2632 with 2872-2877")

# 9. a repeated side-effect-free test is `known` although a yield stands in between
F('generator: test repeated after `self.x = yield ..` is assumed unchanged (the consumer runs in between)',
  '''
  def frames(self):
      if self.closed:
          return
      self.reply = yield 'header'
      if self.closed:
          yield 'abort'
      yield 'body'
  ''',
  '''
  def frames(self):
      if self.closed:
          return
      self.reply = yield 'header'
      yield 'body'
  ''',
  '''
  def run(f):
      class S:
          closed = False
      s = S()
      g = f(s)
      out = [next(g)]
      s.closed = True
      out += list(g)
      return out
  ''', where="_assume: an 'assign' node is skipped unless its value matches r'[\\w\\]]\\(' - '(yield ..)' / '(await ..)' do not, equiv.py:2326")

# 10. _assume_local
F('`not flag` folded to a literal although the flag is rebound by tuple unpacking in a loop in between',
  '''
  def drain(self):
      more = self.fill()
      if more:
          while self.pending():
              more, n = self.read_block()
          self.eof = not more
      else:
          self.eof = True
      return more
  ''',
  '''
  def drain(self):
      more = self.fill()
      if more:
          while self.pending():
              more, n = self.read_block()
          self.eof = False
      else:
          self.eof = True
      return more
  ''',
  '''
  def run(f):
      class S:
          def __init__(self):
              self.blocks = [(True, 4), (False, 0)]
          def fill(self):
              return True
          def pending(self):
              return bool(self.blocks)
          def read_block(self):
              return self.blocks.pop(0)
      s = S()
      r = f(s)
      return r, s.eof
  ''', where="_assume_local: `is it assigned in the tree` only looks for \"('<mark>'\" (a plain single target); tuple / for / with targets are missed, equiv.py:2301")

F('`not flag` folded although the flag is the target of a for loop in between',
  '''
  def scan(self, recs):
      ok = self.begin()
      if ok:
          for ok in recs:
              pass
          self.bad = not ok
      else:
          self.bad = True
      return ok
  ''',
  '''
  def scan(self, recs):
      ok = self.begin()
      if ok:
          for ok in recs:
              pass
          self.bad = False
      else:
          self.bad = True
      return ok
  ''',
  '''
  def run(f):
      class S:
          def begin(self):
              return True
      s = S()
      f(s, [1, 0])
      return s.bad
  ''', where='_assume_local, equiv.py:2301')

# 11. unpacking -> indexing
F('`k, v = item` checks the length, `item[0]` / `item[1]` do not',
  '''
  def add_pair(self, item):
      k, v = item
      self.table[k] = v
  ''',
  '''
  def add_pair(self, item):
      k = item[0]
      v = item[1]
      self.table[k] = v
  ''',
  '''
  def run(f):
      class S:
          table = {}
      s = S()
      f(s, ('a', 1, 'junk'))
      return s.table
  ''', where='assignments_to_ifexp, `a, b = E -> a = E[0]; b = E[1]`, equiv.py:1019-1032')

# 12. inline_next_use: operands read earlier in the statement see the state before E instead of after it
F('`n = self.read_len(); self.pos += n` vs `self.pos += self.read_len()` (the target is read before the call)',
  '''
  def skip_block(self):
      n = self.read_len()
      self.pos += n
  ''',
  '''
  def skip_block(self):
      self.pos += self.read_len()
  ''',
  '''
  def run(f):
      class S:
          pos = 0
          def read_len(self):
              self.pos += 2          # the length field itself
              return 10
      s = S()
      f(s)
      return s.pos
  ''', where='inline_next_use: _impure_before only looks for impure calls before the use, not for reads of what E changes, equiv.py:912-936 / 808-821')

F('`t = self.advance(); return self.pos + t` vs `return self.pos + self.advance()`',
  '''
  def end_of_record(self):
      t = self.advance()
      return self.pos + t
  ''',
  '''
  def end_of_record(self):
      return self.pos + self.advance()
  ''',
  '''
  def run(f):
      class S:
          pos = 100
          def advance(self):
              self.pos += 4
              return 16
      return f(S())
  ''', where='inline_next_use, equiv.py:912-936')

F('`i = self.next_index(); self.tab[i] = self.cur` vs `self.tab[self.next_index()] = self.cur` (value is evaluated before the target)',
  '''
  def store(self):
      i = self.next_index()
      self.tab[i] = self.cur
  ''',
  '''
  def store(self):
      self.tab[self.next_index()] = self.cur
  ''',
  '''
  def run(f):
      class S:
          def __init__(self):
              self.tab, self.cur, self.n = {}, 'old', 0
          def next_index(self):
              self.n += 1
              self.cur = 'rec%d' % self.n
              return self.n
      s = S()
      f(s)
      return s.tab
  ''', where='inline_next_use, equiv.py:912-936')

F('`n = self.read_len(); if self.pos < n` vs `if self.pos < self.read_len()`',
  '''
  def room(self):
      n = self.read_len()
      if self.pos < n:
          return 'more'
      return 'done'
  ''',
  '''
  def room(self):
      if self.pos < self.read_len():
          return 'more'
      return 'done'
  ''',
  '''
  def run(f):
      class S:
          pos = 3
          def read_len(self):
              self.pos += 1
              return 4
      return f(S())
  ''', where='inline_next_use, equiv.py:912-936')

# 13. match heuristic
F('`X.search(k) is None` taken as `not X.search(k)` for every name starting with re/RE (records, reader, registry ...)',
  '''
  def locate(self, key):
      if self.records.search(key) is None:
          return 'absent'
      return 'present'
  ''',
  '''
  def locate(self, key):
      if not self.records.search(key):
          return 'absent'
      return 'present'
  ''',
  '''
  def run(f):
      class Records:
          def search(self, key):
              return ['a', 'b'].index(key) if key in ('a', 'b') else None     # an index: 0 is a hit
      class S:
          records = Records()
      return f(S(), 'a')
  ''', where="_atoms: `.upper().startswith(('RE_', 'RE', '_RE'))` is case-insensitive, equiv.py:2213-2218")

# 14. list built by a loop inside a try: the partial list is visible after a handled exception
F('list filled inside try vs comprehension inside try: the handler path sees the partial list / the old value',
  '''
  def convert(it):
      out = None
      try:
          out = []
          for v in it:
              out.append(int(v))
      except ValueError:
          pass
      return out
  ''',
  '''
  def convert(it):
      out = None
      try:
          out = [int(v) for v in it]
      except ValueError:
          pass
      return out
  ''',
  '''
  def run(f):
      return f(['1', '2', 'x', '4'])
  ''', where='loops_to_comprehensions does not look whether the block is a try body, equiv.py:1160-1194')

# 15. iterating d.keys() vs iterating d
F('list(x.keys()) vs list(x) on an object that is not a mapping (frames iterate, keys() are channel names)',
  '''
  def names(frameset):
      return sorted(frameset.keys())
  ''',
  '''
  def names(frameset):
      return sorted(frameset)
  ''',
  '''
  def run(f):
      class FrameSet:
          def __init__(self):
              self.chan = {'DEPT': 0, 'GR': 1}
              self.frames = [(100.0, 55.0), (100.5, 60.0)]
          def keys(self):
              return self.chan.keys()
          def __iter__(self):
              return iter(self.frames)
      return f(FrameSet())
  ''', where="cx(): `f(X.keys())` -> `f(X)` for any receiver, no builtin_only('keys') / mapping check, equiv.py:2078-2082")

# 16. module constants substituted for names bound by constructs _Subst does not see
F('module constant folded into a name that is the `as` name of an except handler',
  '''
  def read(fh):
      try:
          return fh.u8()
      except IndexError as err:
          return err
  ''',
  '''
  def read(fh):
      try:
          return fh.u8()
      except IndexError as err:
          return None
  ''',
  '''
  def run(f):
      return repr(f(FH(b'')))
  ''', kw={'consts': {'err': ast.Constant(value=None)}},
  where='canonical(): `bound` is built from Name stores only (handler names, lambda / nested def parameters are not Names), equiv.py:2817-2819; module_constants counts neither, 2755-2778')

F('module constant folded into the body of a lambda whose parameter has the same name',
  '''
  def doubled(xs):
      return list(map(lambda SIZE: SIZE * 2, xs))
  ''',
  '''
  def doubled(xs):
      return list(map(lambda SIZE: 4 * 2, xs))
  ''',
  '''
  def run(f):
      return f([1, 2])
  ''', kw={'consts': {'SIZE': ast.Constant(value=4)}}, where='canonical(), equiv.py:2817-2819')

# 17. products of sequences and negative counts / floats
F('reassociated repetition: (s * a) * b vs s * (a * b) with two negative counts',
  '''
  def pad(fill, width, reps):
      return (fill * width) * reps
  ''',
  '''
  def pad(fill, width, reps):
      return fill * (width * reps)
  ''',
  '''
  def run(f):
      return f('-', -2, -3)
  ''', where='cx() product flattening when the sequence is a variable, equiv.py:2044-2057')

F('reassociated float product used in an exact comparison',
  '''
  def is_three(a, b, c):
      return (a * b) * c == 3.0
  ''',
  '''
  def is_three(a, b, c):
      return a * (b * c) == 3.0
  ''',
  '''
  def run(f):
      return f(0.1, 3, 10)
  ''', where='cx() product flattening (acknowledged for rounding in DESIGN 8.9, but a guard can see it), equiv.py:2044-2057')

# 18. f(*([a] + rest))
F('f(*([a] + rest)) vs f(a, *rest) when rest is a tuple',
  '''
  def call(fn, a, rest):
      return fn(*([a] + rest))
  ''',
  '''
  def call(fn, a, rest):
      return fn(a, *rest)
  ''',
  '''
  def run(f):
      return f(max, 1, (5, 2))
  ''', where='cx() starred list rule, equiv.py:2091-2103')

# 19. str.format evaluates every argument before formatting any; an f-string formats as it goes
F("'{:d}/{}'.format(n, E): E runs before the format error, in the f-string it does not run",
  '''
  def tag(n, fh):
      return '{:d}/{}'.format(n, fh.u8())
  ''',
  '''
  def tag(n, fh):
      return f'{n:d}/{fh.u8()}'
  ''',
  '''
  def run(f):
      fh = FH(b'\\x01')
      try:
          f(1.5, fh)
      except ValueError:
          pass
      return fh.pos
  ''', where='_fstring_of_format, equiv.py:583-613')

# 20. default-then-override: the default (side-effect free, but it can raise) is no longer evaluated on the override path
F('`size = hdr[2]; if ext: size = ext[0]` vs `ext[0] if ext else hdr[2]` on a short header',
  '''
  def size_of(hdr, ext):
      size = hdr[2]
      if ext:
          size = ext[0]
      return size
  ''',
  '''
  def size_of(hdr, ext):
      return ext[0] if ext else hdr[2]
  ''',
  '''
  def run(f):
      return f((1, 2), (9,))
  ''', where='assignments_to_ifexp default-then-override, equiv.py:1047-1059')


# 21. enumerate(X) -> range(len(X)) / X[i]
F('enumerate(X) vs index loop when X is a mapping with integer keys (or any non-sequence iterable)',
  '''
  def numbered(lines, out):
      for i, ln in enumerate(lines):
          out.append((i, ln))
  ''',
  '''
  def numbered(lines, out):
      for i in range(len(lines)):
          out.append((i, lines[i]))
  ''',
  '''
  def run(f):
      out = []
      f({1: 'one', 0: 'zero'}, out)
      res = [out]
      out2 = []
      try:
          f((ln for ln in ['a', 'b']), out2)
      except TypeError as e:
          out2.append('TypeError')
      return res + [out2]
  ''', where='enumerate_to_index: nothing says X is a sequence, equiv.py:1064-1095')

# 22. accumulation loop -> sum(): Python 3.12 sums floats with compensation, the loop does not
F('`t = 0; for r in recs: t += r.w` vs sum(r.w for r in recs) on floats (Python 3.12 Neumaier summation)',
  '''
  def total(recs):
      t = 0
      for r in recs:
          t += r.w
      return t
  ''',
  '''
  def total(recs):
      return sum(r.w for r in recs)
  ''',
  '''
  def run(f):
      class R:
          w = 0.1
      return f([R()] * 10)
  ''', where='loops_to_sum, equiv.py:1401-1424')

# 23. try / except KeyError -> .get
F('`try: v = T[a][b] except KeyError: v = None` vs `T[a].get(b)`: the KeyError of the outer subscript is no longer caught',
  '''
  def lookup(self, a, b):
      try:
          v = self.tab[a][b]
      except KeyError:
          v = None
      return v
  ''',
  '''
  def lookup(self, a, b):
      return self.tab[a].get(b)
  ''',
  '''
  def run(f):
      class S:
          tab = {'x': {'y': 1}}
      return f(S(), 'nope', 'y')
  ''', where='try_keyerror_idioms: D = b.value.value may itself raise KeyError, equiv.py:1244-1247')

F('`try: v = D[k] except KeyError: v = None` vs D.get(k) on a defaultdict (__missing__)',
  '''
  def cached(self, k):
      try:
          v = self.cache[k]
      except KeyError:
          v = None
      return v
  ''',
  '''
  def cached(self, k):
      return self.cache.get(k)
  ''',
  '''
  def run(f):
      import collections
      class S:
          pass
      s = S()
      s.cache = collections.defaultdict(list)
      return f(s, 'k'), dict(s.cache)
  ''', where='try_keyerror_idioms, equiv.py:1244-1247')

# 24. purity decided by the method / function NAME
F('`get` is on the name-based whitelist: a reader method called get() is duplicated',
  '''
  def pair(rd):
      v = rd.get(2)
      return v + v
  ''',
  '''
  def pair(rd):
      return rd.get(2) + rd.get(2)
  ''',
  '''
  def run(f):
      class Reader:
          def __init__(self, data):
              self.data, self.pos = data, 0
          def get(self, n):
              v = self.data[self.pos:self.pos + n]
              self.pos += n
              return v
      return f(Reader(b'abcdef'))
  ''', where="is_pure: PURE_METHODS by attribute name without builtin_only() (get, index, count, match, search, copy ...), equiv.py:30-33, 79-80")

F('draining an iterator with list(it) is `side-effect free`: the dead store is dropped',
  '''
  def skip_rest(it):
      rest = list(it)
      return 'skipped'
  ''',
  '''
  def skip_rest(it):
      return 'skipped'
  ''',
  '''
  def run(f):
      it = iter([1, 2, 3])
      f(it)
      return list(it)
  ''', where='is_pure: list / tuple / sorted / sum / any ... of an iterator consume it, equiv.py:27-29; drop_dead_locals 1427')

F('two consumers of one iterator reordered (sorted(it), list(it) both `pure`)',
  '''
  def split(it):
      a = sorted(it)
      b = list(it)
      return a, b
  ''',
  '''
  def split(it):
      b = list(it)
      a = sorted(it)
      return a, b
  ''',
  '''
  def run(f):
      return f(iter([3, 1, 2]))
  ''', where='is_pure / sort_independent_runs, equiv.py:27-29, 1309')

F('out.extend(it) `only reads its argument` - but it consumes an iterator',
  '''
  def take(out, it):
      rest = list(it)
      out.extend(it)
      return rest
  ''',
  '''
  def take(out, it):
      out.extend(it)
      return list(it)
  ''',
  '''
  def run(f):
      out = []
      r = f(out, iter([1, 2]))
      return out, r
  ''', where="written_chains: the argument of extend is not `written`, equiv.py:190-192")

F('any(..) over an iterator counts as a side-effect-free test: the repeated test is resolved',
  '''
  def markers(toks):
      if any(t == 0 for t in toks):
          if any(t == 0 for t in toks):
              return 2
          return 1
      return 0
  ''',
  '''
  def markers(toks):
      if any(t == 0 for t in toks):
          return 2
      return 0
  ''',
  '''
  def run(f):
      return f(iter([5, 0, 5, 5]))
  ''', where='_atoms any/all -> _mk_cond_leaf marks it pure; _assume resolves the second test, equiv.py:2251-2262, 2313-2329')

# 25. sized chains
F('class-level default `rows = None` is not seen by sized_chains: `not self.rows` == `len(self.rows) == 0`',
  '''
  def empty(self):
      return not self.rows
  ''',
  '''
  def empty(self):
      return len(self.rows) == 0
  ''',
  '''
  def run(f):
      class R:
          rows = None              # class-level default, filled by load()
          def load(self):
              self.rows = []
      return f(R())
  ''', kw={'sized': {('self', 'rows')}},
  where="sized_chains: a class-body `rows = None` has chain ('rows',), not ('self', 'rows'); neither are writes through another name (`new.rows = None`), equiv.py:2659-2690 (gate.py:149 passes cls.body)")

# 26. shadowed builtins
F('a parameter that shadows a whitelisted builtin (`type`) is treated as the builtin: call dropped as dead',
  '''
  def build(raw, type):
      tmp = type(raw)
      return 1
  ''',
  '''
  def build(raw, type):
      return 1
  ''',
  '''
  def run(f):
      made = []
      f('x', made.append)
      return made
  ''', where='is_pure: PURE_FUNCS by name, no check that the name is not bound locally, equiv.py:77-78')

# 27. the marker character
F('string literals containing the marker character are renumbered like locals',
  '''
  def section():
      return '\\u00a7a\\u00a7'
  ''',
  '''
  def section():
      return '\\u00a7b\\u00a7'
  ''',
  '''
  def run(f):
      return f()
  ''', where='canonical(): re.sub over the whole repr(tree), equiv.py:2877')


FINDINGS = [(t, a, b, kw) for (t, a, b, kw, d, w) in _ALL]
DEMOS = {t: d for (t, a, b, kw, d, w) in _ALL}
WHERE = {t: w for (t, a, b, kw, d, w) in _ALL}


def _same(a, b, kw):
    sys.path.insert(0, __import__('os').path.dirname(__import__('os').path.dirname(__import__('os').path.abspath(__file__))))
    from tdstatic import equiv
    equiv.REPO_DEFINED[0] = frozenset()
    kw = kw or {}
    ca = equiv.canonical(ast.parse(a).body[0], kw.get('helpers_a'), kw.get('consts'), dicts=kw.get('dicts'), sized=kw.get('sized'), props=kw.get('props'))
    cb = equiv.canonical(ast.parse(b).body[0], kw.get('helpers_b'), kw.get('consts'), dicts=kw.get('dicts'), sized=kw.get('sized'), props=kw.get('props'))
    return ca is not None and ca == cb


def _outcome(src, demo):
    ns = {}
    exec(textwrap.dedent(STUBS), ns)
    exec(src, ns)
    fn = ns[ast.parse(src).body[0].name]
    exec(demo, ns)
    try:
        return repr(ns['run'](fn))
    except Exception as e:            # noqa
        return f'raises {type(e).__name__}: {e}'


def main():
    bad = 0
    for i, (title, a, b, kw, demo, where) in enumerate(_ALL, 1):
        s = _same(a, b, kw)
        ra, rb = _outcome(a, demo), _outcome(b, demo)
        okay = s and ra != rb
        bad += not okay
        print(f'{i:2d}. [{"CONFIRMED" if okay else "NOT A FINDING"}] {title}')
        print(f'      same() = {s}')
        print(f'      A -> {ra}')
        print(f'      B -> {rb}')
        print(f'      at: {where}')
    print(f'{len(_ALL) - bad} of {len(_ALL)} confirmed')


if __name__ == '__main__':
    main()
