"""Confirmed soundness findings against tdstatic/equiv.py (red-team area 5: local-variable data flow).

FINDINGS = [(title, src_a, src_b, kwargs_dict_or_None), ...]   -- same(src_a, src_b) is True, behaviour differs.
GROUPS   = [(group title with the step / line at fault, [titles])]
DEMOS    = {title: source defining the stubs and `trial(f)`}; run this file to re-verify everything:
    /venv/bin/python /tmp/redteam/5/findings.py
"""
import ast, sys
FINDINGS = [
    # ---- A. inline_temps/_between ignores the header of the compound statement that encloses the use (equiv.py 1527-1567)
    ('if-test with side effects between def and use (enclosing if header ignored by _between)',
     'def f(self):\n    t = self.pos\n    if self.advance():\n        return t\n    return None',
     'def f(self):\n    if self.advance():\n        return self.pos\n    return None',
     None),
    ('elif test with side effects between def and use',
     'def f(self, a):\n    t = self.pos\n    if a:\n        return 0\n    elif self.advance():\n        return t\n    return None',
     'def f(self, a):\n    if a:\n        return 0\n    elif self.advance():\n        return self.pos\n    return None',
     None),
    ('nested if header with side effects between def and use',
     'def f(self, a):\n    t = self.pos\n    if a:\n        if self.advance():\n            return t\n    return None',
     'def f(self, a):\n    if a:\n        if self.advance():\n            return self.pos\n    return None',
     None),
    ('with-header call between def and use',
     'def f(self):\n    t = self.pos\n    with self.section():\n        return g(t)',
     'def f(self):\n    with self.section():\n        return g(self.pos)',
     None),
    ('with ... as self.h rebinding what the temp read',
     'def f(self, p):\n    t = self.h\n    with opener(p) as self.h:\n        return g(t)',
     'def f(self, p):\n    with opener(p) as self.h:\n        return g(self.h)',
     None),
    ('value captured before a yield in the if header',
     'def f(self):\n    t = self.pos\n    if (yield 1):\n        use(t)',
     'def f(self):\n    if (yield 1):\n        use(self.pos)',
     None),
    # ---- B. inline_temps does not look at what is evaluated earlier in the statement that contains the use (equiv.py 1615-1621, the check announced in the comment is missing)
    ('impure call evaluated earlier in the same statement as the use',
     'def f(self):\n    t = self.pos\n    return g(self.advance(), t)',
     'def f(self):\n    return g(self.advance(), self.pos)',
     None),
    ('impure call before the use in an and-condition',
     'def f(self):\n    t = self.pos\n    if self.advance() and t > 3:\n        return 1\n    return 0',
     'def f(self):\n    if self.advance() and self.pos > 3:\n        return 1\n    return 0',
     None),
    ('temp used as argument after an impure receiver call in the same statement',
     'def f(self):\n    t = self.pos\n    self.take().emit(t)',
     'def f(self):\n    self.take().emit(self.pos)',
     None),
    ('subscript index captured before vs after the impure value of the same assignment',
     'def f(self):\n    k = self.n\n    self.out[k] = self.read()',
     'def f(self):\n    self.out[self.n] = self.read()',
     None),
    ('factor captured before vs after the impure call in the same augmented assignment',
     'def f(self):\n    t = self.step\n    self.total += self.read() * t',
     'def f(self):\n    self.total += self.read() * self.step',
     None),
    # ---- C. inline_next_use / _impure_before only look for impure calls evaluated BEFORE the use, not for pure reads evaluated before it that the inlined call changes, nor for conditional / repeated evaluation contexts (equiv.py 808-821, 912-936)
    ('pure read evaluated before the inlined impure call that changes it',
     'def f(self):\n    t = self.read()\n    return (self.pos, t)',
     'def f(self):\n    return (self.pos, self.read())',
     None),
    ('pure read evaluated before the inlined impure call (offset arithmetic)',
     'def f(self):\n    n = self.read_len()\n    return self.pos + n',
     'def f(self):\n    return self.pos + self.read_len()',
     None),
    ('augmented assignment: target is read before the inlined call that changes it',
     'def f(self):\n    n = self.read_block()\n    self.pos += n',
     'def f(self):\n    self.pos += self.read_block()',
     None),
    ('receiver attribute is loaded before the inlined call that rebinds it',
     'def f(self):\n    v = self._next()\n    self.items.append(v)',
     'def f(self):\n    self.items.append(self._next())',
     None),
    ('pure argument evaluated before the inlined impure call (call argument)',
     'def f(self, out):\n    v = self.read()\n    out.append((self.pos, v))',
     'def f(self, out):\n    out.append((self.pos, self.read()))',
     None),
    ('pure value evaluated before the inlined impure call (dict display)',
     'def f(self):\n    v = self.read()\n    return {"pos": self.pos, "v": v}',
     'def f(self):\n    return {"pos": self.pos, "v": self.read()}',
     None),
    ('generator: yielded position taken before vs after the read',
     'def f(self):\n    v = self.read()\n    yield self.pos, v',
     'def f(self):\n    yield self.pos, self.read()',
     None),
    ('sink_into_branches + inline_next_use: read position taken before vs after the read',
     'def f(self, m):\n    v = self.read()\n    if m:\n        return (self.pos, v)\n    else:\n        return (v, 0)',
     'def f(self, m):\n    if m:\n        return (self.pos, self.read())\n    else:\n        return (self.read(), 0)',
     None),
    ('impure value evaluated once moved into a while test evaluated every iteration',
     'def f(self):\n    ok = self.begin()\n    while ok:\n        if self.step():\n            break',
     'def f(self):\n    while self.begin():\n        if self.step():\n            break',
     None),
    ('impure value moved into the conditionally evaluated tail of a chained comparison',
     'def f(self, lo, n):\n    t = self.read()\n    if lo < n < t:\n        return 1\n    return 0',
     'def f(self, lo, n):\n    if lo < n < self.read():\n        return 1\n    return 0',
     None),
    # ---- D. written_chains / interferes: aliases and argument shapes that are not seen as writes (equiv.py 157-201, 204-208)
    ('alias chosen by a conditional expression, then mutated through the alias',
     'def f(self, c, r):\n    a = self.rows if c else self.other\n    n = len(self.rows)\n    a.append(r)\n    return n',
     'def f(self, c, r):\n    a = self.rows if c else self.other\n    a.append(r)\n    return len(self.rows)',
     None),
    ('walrus alias mutated, length read through the original chain',
     'def f(self):\n    if (a := self.rows):\n        n = len(self.rows)\n        a.append(1)\n        return n',
     'def f(self):\n    if (a := self.rows):\n        a.append(1)\n        return len(self.rows)',
     None),
    ('loop variable aliases an element of the list the temp reads',
     'def f(self):\n    for row in self.rows:\n        n = self.rows[0].count\n        row.count += 1\n        use(n)',
     'def f(self):\n    for row in self.rows:\n        row.count += 1\n        use(self.rows[0].count)',
     None),
    ('object stored into an attribute, then mutated through the local name',
     'def f(self, rec):\n    self.cur = rec\n    t = self.cur.n\n    rec.n += 1\n    return t',
     'def f(self, rec):\n    self.cur = rec\n    rec.n += 1\n    return self.cur.n',
     None),
    ('whole-object argument that is a subscript is not "written"',
     'def f(self):\n    t = self.rows[0].n\n    update(self.rows[0])\n    return t',
     'def f(self):\n    update(self.rows[0])\n    return self.rows[0].n',
     None),
    ('object passed inside a tuple argument is not treated as written',
     'def f(self, buf):\n    n = len(buf)\n    self.fill((buf, 4))\n    return n',
     'def f(self, buf):\n    self.fill((buf, 4))\n    return len(buf)',
     None),
    ('self.__dict__.update() does not interfere with a read of self.x',
     'def f(self, d):\n    t = self.x\n    self.__dict__.update(d)\n    return t',
     'def f(self, d):\n    self.__dict__.update(d)\n    return self.x',
     None),
    ('whitelisted side-effect-free method on self (count) reads state changed in between',
     'def f(self, r):\n    n = self.count()\n    self.rows.append(r)\n    return n',
     'def f(self, r):\n    self.rows.append(r)\n    return self.count()',
     None),
    ('whitelisted side-effect-free method on self (keys) reads state changed in between',
     'def f(self, k, v):\n    t = len(self.keys())\n    self._d[k] = v\n    return t',
     'def f(self, k, v):\n    self._d[k] = v\n    return len(self.keys())',
     None),
    ('independent-run sorting across a side-effect-free method on self that reads the appended list',
     'def f(self, r):\n    self.rows.append(r)\n    self.n = self.count()',
     'def f(self, r):\n    self.n = self.count()\n    self.rows.append(r)',
     None),
    ('module global rebound by a callee between def and use of the temp',
     'def f():\n    t = COUNT\n    bump()\n    return t',
     'def f():\n    bump()\n    return COUNT',
     None),
    # ---- E. substitution details of inline_temps: variable capture, fresh objects / one-shot iterators written out twice (equiv.py 266-273, 1570-1578, 1624-1625)
    ('temp substituted into a comprehension that rebinds the name it reads (capture)',
     'def f(b, blocks):\n    size = len(b)\n    return [size for b in blocks]',
     'def f(b, blocks):\n    return [len(b) for b in blocks]',
     None),
    ('[0] * n row shared by two attributes vs two separate rows',
     'def f(self, n):\n    row = [0] * n\n    self.a = row\n    self.b = row',
     'def f(self, n):\n    self.a = [0] * n\n    self.b = [0] * n',
     None),
    ('slice copy shared by two attributes vs two separate copies',
     'def f(self, xs):\n    t = xs[:]\n    self.a = t\n    self.b = t',
     'def f(self, xs):\n    self.a = xs[:]\n    self.b = xs[:]',
     None),
    ('one-shot iterator (zip) written out twice',
     'def f(keys, vals):\n    pairs = zip(keys, vals)\n    a = dict(pairs)\n    b = dict(pairs)\n    return a, b',
     'def f(keys, vals):\n    a = dict(zip(keys, vals))\n    b = dict(zip(keys, vals))\n    return a, b',
     None),
    # ---- F. split_webs: definitions made in the middle of a compound statement inside try are invisible to handlers / finally / the code after the try, so the store becomes a dead web and is deleted (equiv.py 1853-1879); walrus targets are not definitions at all (1738-1777)
    ('status set before a risky call inside if inside try: the store is dropped (split_webs loses the mid-statement definition)',
     "def f(self, c):\n    st = 'init'\n    try:\n        if c:\n            st = 'reading'\n            self.read_header()\n            st = 'done'\n    except IOError:\n        pass\n    return st",
     "def f(self, c):\n    st = 'init'\n    try:\n        if c:\n            self.read_header()\n            st = 'done'\n    except IOError:\n        pass\n    return st",
     None),
    ('handler reports an offset saved inside if inside try: the save is dropped',
     'def f(self, c):\n    off = 0\n    try:\n        if c:\n            off = self.tell()\n            self.read_header()\n            off = 0\n    except IOError:\n        self.report(off)',
     'def f(self, c):\n    off = 0\n    try:\n        if c:\n            self.tell()\n            self.read_header()\n            off = 0\n    except IOError:\n        self.report(off)',
     None),
    ('progress marker set at the top of a loop body inside try is dropped',
     'def f(self, rs):\n    st = 0\n    try:\n        for r in rs:\n            st = 1\n            self.risky(r)\n            st = 2\n    except IOError:\n        pass\n    return st',
     'def f(self, rs):\n    st = 0\n    try:\n        for r in rs:\n            self.risky(r)\n            st = 2\n    except IOError:\n        pass\n    return st',
     None),
    ('while inside try: store before the failing call dropped',
     'def f(self):\n    n = 0\n    try:\n        while self.more():\n            n = -1\n            self.step()\n            n = 1\n    except E:\n        pass\n    return n',
     'def f(self):\n    n = 0\n    try:\n        while self.more():\n            self.step()\n            n = 1\n    except E:\n        pass\n    return n',
     None),
    ('with inside try: store before the failing call dropped',
     'def f(self, p):\n    n = 0\n    try:\n        with self.open(p) as h:\n            n = 1\n            h.load()\n            n = 2\n    except IOError:\n        pass\n    return n',
     'def f(self, p):\n    n = 0\n    try:\n        with self.open(p) as h:\n            h.load()\n            n = 2\n    except IOError:\n        pass\n    return n',
     None),
    ('finally reads a definition made in a branch that returns',
     'def f(self, c):\n    x = 0\n    try:\n        if c:\n            x = 1\n            return self.g()\n    finally:\n        self.log(x)',
     'def f(self, c):\n    x = 0\n    try:\n        if c:\n            return self.g()\n    finally:\n        self.log(x)',
     None),
    ('walrus definition invisible to split_webs: the loop reads a stale earlier value',
     'def f(self):\n    n = self.read()\n    self.a = n\n    n = self.read()\n    self.b = n\n    while (n := self.read()):\n        self.c.append(n)',
     'def f(self):\n    k = self.read()\n    self.a = k\n    m = self.read()\n    self.b = m\n    while (n := self.read()):\n        self.c.append(m)',
     None),
    # ---- G. return_of_assignment ignores a finally clause that reads the name (equiv.py 880-896; `inside_try_finally` is set and never used)
    ('return of assignment when finally reads the name',
     'def f(self):\n    t = None\n    try:\n        t = self.read()\n        return t\n    finally:\n        self.log.append(t)',
     'def f(self):\n    t = None\n    try:\n        return self.read()\n    finally:\n        self.log.append(t)',
     None),
    # ---- H. stores to names declared `global` are treated as locals and deleted (copy_propagate 1943-1984, inline_temps 1581-1636, ssa_split 1658-1690: none checks ast.Global; drop_dead_locals and return_of_assignment do)
    ('store to a declared global removed by copy_propagate',
     'def f(p):\n    global LAST\n    LAST = p\n    return 1',
     'def f(p):\n    global LAST\n    return 1',
     None),
    ('store to a declared global removed by inline_temps',
     'def f(self):\n    global LAST\n    LAST = self.pos\n    return LAST',
     'def f(self):\n    global LAST\n    return self.pos',
     None),
    ('literal store to a declared global removed (flag never set)',
     'def f(self):\n    global READY\n    READY = True\n    self.go()',
     'def f(self):\n    global READY\n    self.go()',
     None),
    ('two stores to a declared global split into locals and removed',
     'def f():\n    global G\n    G = 1\n    use(G)\n    G = 2\n    use(G)',
     'def f():\n    global G\n    use(1)\n    use(2)',
     None),
    # ---- I. loop -> comprehension / sum() inside a try body whose result is read after a handler (loops_to_comprehensions 1160-1194, loops_to_sum 1401-1424)
    ('append loop inside try turned into a comprehension: partial list lost',
     'def f(rs):\n    out = None\n    try:\n        out = []\n        for r in rs:\n            out.append(parse(r))\n    except ValueError:\n        pass\n    return out',
     'def f(rs):\n    out = None\n    try:\n        out = [parse(r) for r in rs]\n    except ValueError:\n        pass\n    return out',
     None),
    ('sum loop inside try turned into sum(): partial total lost',
     'def f(xs):\n    n = -1\n    try:\n        n = 0\n        for x in xs:\n            n += g(x)\n    except ValueError:\n        pass\n    return n',
     'def f(xs):\n    n = -1\n    try:\n        n = sum([g(x) for x in xs])\n    except ValueError:\n        pass\n    return n',
     None),
    # ---- J. tree-level literal substitution: _subst_const.assigns() does not recognise tuple for-targets and walrus targets as assignments (equiv.py 2526-2574, esp. 2536-2538)
    ('literal initialisation folded into reads although a tuple for-target rebinds the name',
     'def f(a, b):\n    x = 0\n    for i, x in zip(a, b):\n        g(x)\n    return x',
     'def f(a, b):\n    x = 0\n    for i, x in zip(a, b):\n        g(0)\n    return x',
     None),
    ('literal initialisation folded into reads although a walrus rebinds the name',
     'def f(self):\n    n = 0\n    if (n := self.read()):\n        pass\n    return n',
     'def f(self):\n    n = 0\n    if (n := self.read()):\n        return 0\n    return n',
     None),
    # ---- K. cx(): commutative sorting / mirroring / keyword sorting applied to operands with side effects (equiv.py 2044-2074, 2113)
    ('mirrored comparison swaps the evaluation order of two stream reads',
     'def f(self):\n    if self.a() > self.b():\n        return 1\n    return 0',
     'def f(self):\n    if self.b() < self.a():\n        return 1\n    return 0',
     None),
    ('sorted bit-or swaps which read supplies the high byte',
     'def f(self):\n    return self.hi() << 8 | self.lo()',
     'def f(self):\n    return self.lo() | self.hi() << 8',
     None),
    ('keyword arguments sorted by name: the stream is read in another order',
     'def f(self):\n    return Rec(size=self.u16(), kind=self.u8())',
     'def f(self):\n    return Rec(kind=self.u8(), size=self.u16())',
     None),
    ('sorted product swaps two reads (observable through the order of calls)',
     'def f(self):\n    return self.read_len() * self.read_size()',
     'def f(self):\n    return self.read_size() * self.read_len()',
     None),
    ('sorted product moves a state read across the call that changes it',
     'def f(self):\n    return (self.n << 8) * self.read()',
     'def f(self):\n    return self.read() * (self.n << 8)',
     None),
    # ---- L. seq(): `return <attribute chain>` after a with block is taken as the block's last statement (equiv.py 2380-2390: `simple` only excludes "(" and "[")
    ('return of an attribute moved inside the with block (value read before vs after __exit__)',
     'def f(p):\n    with opener(p) as h:\n        h.read()\n        return h.closed',
     'def f(p):\n    with opener(p) as h:\n        h.read()\n    return h.closed',
     None),
    # ---- M. side-effect-free expressions that can RAISE are moved across effects, evaluated conditionally, or lose a check (exception-path differences)
    ('tuple unpacking replaced by indexing loses the length check',
     'def f(p):\n    a, b = p\n    return a + b',
     'def f(p):\n    return p[0] + p[1]',
     None),
    ('default that can raise evaluated unconditionally vs only in the else case',
     'def f(self, code):\n    v = self.table[code]\n    if code == 0:\n        v = None\n    return v',
     'def f(self, code):\n    return None if code == 0 else self.table[code]',
     None),
    ('independent-run sorting moves a flag store across a value that can raise',
     'def f(self, s):\n    self.ready = True\n    self.count = int(s)',
     'def f(self, s):\n    self.count = int(s)\n    self.ready = True',
     None),
    ('lookup that can raise moved behind the call that consumes input (state after the exception differs)',
     'def f(self, k):\n    h = HANDLERS[k]\n    self.advance()\n    return h',
     'def f(self, k):\n    self.advance()\n    return HANDLERS[k]',
     None),
    ('try/except KeyError -> .get: a KeyError from the key expression is no longer caught',
     'def f(self, i):\n    try:\n        v = NAMES[self.codes[i]]\n    except KeyError:\n        v = None\n    return v',
     'def f(self, i):\n    return NAMES.get(self.codes[i])',
     None),
    ('early-return loop vs any([...]) over all rows (later malformed row)',
     'def f(rows, k):\n    for r in rows:\n        if r[0] == k:\n            return True\n    return False',
     'def f(rows, k):\n    return any([r[0] == k for r in rows])',
     None),
    ('enumerate over a mapping rewritten as an index loop',
     'def f(self):\n    for i, e in enumerate(self.items):\n        g(i, e)',
     'def f(self):\n    for i in range(len(self.items)):\n        g(i, self.items[i])',
     None),
]

GROUPS = [('A. inline_temps/_between ignores the header of the compound statement that encloses the use (equiv.py 1527-1567)',
  ['if-test with side effects between def and use (enclosing if header ignored by _between)',
   'elif test with side effects between def and use',
   'nested if header with side effects between def and use',
   'with-header call between def and use',
   'with ... as self.h rebinding what the temp read',
   'value captured before a yield in the if header']),
 ('B. inline_temps does not look at what is evaluated earlier in the statement that contains the use (equiv.py 1615-1621, the check announced in the comment '
  'is missing)',
  ['impure call evaluated earlier in the same statement as the use',
   'impure call before the use in an and-condition',
   'temp used as argument after an impure receiver call in the same statement',
   'subscript index captured before vs after the impure value of the same assignment',
   'factor captured before vs after the impure call in the same augmented assignment']),
 ('C. inline_next_use / _impure_before only look for impure calls evaluated BEFORE the use, not for pure reads evaluated before it that the inlined call '
  'changes, nor for conditional / repeated evaluation contexts (equiv.py 808-821, 912-936)',
  ['pure read evaluated before the inlined impure call that changes it',
   'pure read evaluated before the inlined impure call (offset arithmetic)',
   'augmented assignment: target is read before the inlined call that changes it',
   'receiver attribute is loaded before the inlined call that rebinds it',
   'pure argument evaluated before the inlined impure call (call argument)',
   'pure value evaluated before the inlined impure call (dict display)',
   'generator: yielded position taken before vs after the read',
   'sink_into_branches + inline_next_use: read position taken before vs after the read',
   'impure value evaluated once moved into a while test evaluated every iteration',
   'impure value moved into the conditionally evaluated tail of a chained comparison']),
 ('D. written_chains / interferes: aliases and argument shapes that are not seen as writes (equiv.py 157-201, 204-208)',
  ['alias chosen by a conditional expression, then mutated through the alias',
   'walrus alias mutated, length read through the original chain',
   'loop variable aliases an element of the list the temp reads',
   'object stored into an attribute, then mutated through the local name',
   'whole-object argument that is a subscript is not "written"',
   'object passed inside a tuple argument is not treated as written',
   'self.__dict__.update() does not interfere with a read of self.x',
   'whitelisted side-effect-free method on self (count) reads state changed in between',
   'whitelisted side-effect-free method on self (keys) reads state changed in between',
   'independent-run sorting across a side-effect-free method on self that reads the appended list',
   'module global rebound by a callee between def and use of the temp']),
 ('E. substitution details of inline_temps: variable capture, fresh objects / one-shot iterators written out twice (equiv.py 266-273, 1570-1578, 1624-1625)',
  ['temp substituted into a comprehension that rebinds the name it reads (capture)',
   '[0] * n row shared by two attributes vs two separate rows',
   'slice copy shared by two attributes vs two separate copies',
   'one-shot iterator (zip) written out twice']),
 ('F. split_webs: definitions made in the middle of a compound statement inside try are invisible to handlers / finally / the code after the try, so the store '
  'becomes a dead web and is deleted (equiv.py 1853-1879); walrus targets are not definitions at all (1738-1777)',
  ['status set before a risky call inside if inside try: the store is dropped (split_webs loses the mid-statement definition)',
   'handler reports an offset saved inside if inside try: the save is dropped',
   'progress marker set at the top of a loop body inside try is dropped',
   'while inside try: store before the failing call dropped',
   'with inside try: store before the failing call dropped',
   'finally reads a definition made in a branch that returns',
   'walrus definition invisible to split_webs: the loop reads a stale earlier value']),
 ('G. return_of_assignment ignores a finally clause that reads the name (equiv.py 880-896; `inside_try_finally` is set and never used)',
  ['return of assignment when finally reads the name']),
 ('H. stores to names declared `global` are treated as locals and deleted (copy_propagate 1943-1984, inline_temps 1581-1636, ssa_split 1658-1690: none checks '
  'ast.Global; drop_dead_locals and return_of_assignment do)',
  ['store to a declared global removed by copy_propagate',
   'store to a declared global removed by inline_temps',
   'literal store to a declared global removed (flag never set)',
   'two stores to a declared global split into locals and removed']),
 ('I. loop -> comprehension / sum() inside a try body whose result is read after a handler (loops_to_comprehensions 1160-1194, loops_to_sum 1401-1424)',
  ['append loop inside try turned into a comprehension: partial list lost', 'sum loop inside try turned into sum(): partial total lost']),
 ('J. tree-level literal substitution: _subst_const.assigns() does not recognise tuple for-targets and walrus targets as assignments (equiv.py 2526-2574, esp. '
  '2536-2538)',
  ['literal initialisation folded into reads although a tuple for-target rebinds the name',
   'literal initialisation folded into reads although a walrus rebinds the name']),
 ('K. cx(): commutative sorting / mirroring / keyword sorting applied to operands with side effects (equiv.py 2044-2074, 2113)',
  ['mirrored comparison swaps the evaluation order of two stream reads',
   'sorted bit-or swaps which read supplies the high byte',
   'keyword arguments sorted by name: the stream is read in another order',
   'sorted product swaps two reads (observable through the order of calls)',
   'sorted product moves a state read across the call that changes it']),
 ('L. seq(): `return <attribute chain>` after a with block is taken as the block\'s last statement (equiv.py 2380-2390: `simple` only excludes "(" and "[")',
  ['return of an attribute moved inside the with block (value read before vs after __exit__)']),
 ('M. side-effect-free expressions that can RAISE are moved across effects, evaluated conditionally, or lose a check (exception-path differences)',
  ['tuple unpacking replaced by indexing loses the length check',
   'default that can raise evaluated unconditionally vs only in the else case',
   'independent-run sorting moves a flag store across a value that can raise',
   'lookup that can raise moved behind the call that consumes input (state after the exception differs)',
   'try/except KeyError -> .get: a KeyError from the key expression is no longer caught',
   'early-return loop vs any([...]) over all rows (later malformed row)',
   'enumerate over a mapping rewritten as an index loop'])]

DEMOS = {
    'if-test with side effects between def and use (enclosing if header ignored by _between)':
        "\nclass Rd:\n    def __init__(self):\n        self.pos = 0; self.log = []\n    def advance(self):\n        self.pos += 4; return True\n    def read(self):\n        self.pos += 1; return 'v%d' % self.pos\ndef g(*a): return a\ndef trial(f):\n    return f(Rd())\n",
    'elif test with side effects between def and use':
        "\nclass Rd:\n    def __init__(self):\n        self.pos = 0; self.log = []\n    def advance(self):\n        self.pos += 4; return True\n    def read(self):\n        self.pos += 1; return 'v%d' % self.pos\ndef g(*a): return a\ndef trial(f):\n    return f(Rd(), 0)\n",
    'nested if header with side effects between def and use':
        '\nclass Out:\n    def __init__(self): self.got = []\n    def emit(self, x): self.got.append(x)\nclass Rd:\n    def __init__(self):\n        self.pos = 0; self.n = 0; self.out = {}; self.step = 1; self.total = 0; self.o = Out(); self.rows = []; self._d = {}; self.x = 1\n    def advance(self):\n        self.pos += 4; return True\n    def take(self):\n        self.pos += 2; return self.o\n    def read(self):\n        self.pos += 1; self.n += 1; self.step = 10; return 5\n    def count(self): return len(self.rows)\n    def keys(self): return list(self._d)\ndef trial(f): return f(Rd(), 1)\n',
    'with-header call between def and use':
        '\nimport contextlib\nclass Rd:\n    def __init__(self): self.pos = 0\n    @contextlib.contextmanager\n    def section(self):\n        self.pos += 8\n        yield self\ndef g(x): return x\ndef trial(f): return f(Rd())\n',
    'with ... as self.h rebinding what the temp read':
        "\nimport contextlib\nclass S: h = 'old'\n@contextlib.contextmanager\ndef opener(p):\n    yield 'new:' + p\ndef g(x): return x\ndef trial(f): return f(S(), 'p')\n",
    'value captured before a yield in the if header':
        '\nseen = []\ndef use(x): seen.append(x)\nclass S: pos = 0\ndef trial(f):\n    del seen[:]\n    s = S(); gen = f(s); next(gen); s.pos = 99\n    try: gen.send(True)\n    except StopIteration: pass\n    return list(seen)\n',
    'impure call evaluated earlier in the same statement as the use':
        "\nclass Rd:\n    def __init__(self):\n        self.pos = 0; self.log = []\n    def advance(self):\n        self.pos += 4; return True\n    def read(self):\n        self.pos += 1; return 'v%d' % self.pos\ndef g(*a): return a\ndef trial(f):\n    return f(Rd())\n",
    'impure call before the use in an and-condition':
        "\nclass Rd:\n    def __init__(self):\n        self.pos = 0; self.log = []\n    def advance(self):\n        self.pos += 4; return True\n    def read(self):\n        self.pos += 1; return 'v%d' % self.pos\ndef g(*a): return a\ndef trial(f):\n    return f(Rd())\n",
    'temp used as argument after an impure receiver call in the same statement':
        '\nclass Out:\n    def __init__(self): self.got = []\n    def emit(self, x): self.got.append(x)\nclass Rd:\n    def __init__(self):\n        self.pos = 0; self.n = 0; self.out = {}; self.step = 1; self.total = 0; self.o = Out(); self.rows = []; self._d = {}; self.x = 1\n    def advance(self):\n        self.pos += 4; return True\n    def take(self):\n        self.pos += 2; return self.o\n    def read(self):\n        self.pos += 1; self.n += 1; self.step = 10; return 5\n    def count(self): return len(self.rows)\n    def keys(self): return list(self._d)\ndef trial(f):\n    r = Rd(); f(r); return r.o.got\n',
    'subscript index captured before vs after the impure value of the same assignment':
        '\nclass Out:\n    def __init__(self): self.got = []\n    def emit(self, x): self.got.append(x)\nclass Rd:\n    def __init__(self):\n        self.pos = 0; self.n = 0; self.out = {}; self.step = 1; self.total = 0; self.o = Out(); self.rows = []; self._d = {}; self.x = 1\n    def advance(self):\n        self.pos += 4; return True\n    def take(self):\n        self.pos += 2; return self.o\n    def read(self):\n        self.pos += 1; self.n += 1; self.step = 10; return 5\n    def count(self): return len(self.rows)\n    def keys(self): return list(self._d)\ndef trial(f):\n    r = Rd(); f(r); return r.out\n',
    'factor captured before vs after the impure call in the same augmented assignment':
        '\nclass Out:\n    def __init__(self): self.got = []\n    def emit(self, x): self.got.append(x)\nclass Rd:\n    def __init__(self):\n        self.pos = 0; self.n = 0; self.out = {}; self.step = 1; self.total = 0; self.o = Out(); self.rows = []; self._d = {}; self.x = 1\n    def advance(self):\n        self.pos += 4; return True\n    def take(self):\n        self.pos += 2; return self.o\n    def read(self):\n        self.pos += 1; self.n += 1; self.step = 10; return 5\n    def count(self): return len(self.rows)\n    def keys(self): return list(self._d)\ndef trial(f):\n    r = Rd(); f(r); return r.total\n',
    'pure read evaluated before the inlined impure call that changes it':
        "\nclass Rd:\n    def __init__(self):\n        self.pos = 0; self.log = []\n    def advance(self):\n        self.pos += 4; return True\n    def read(self):\n        self.pos += 1; return 'v%d' % self.pos\n    def read_block(self):\n        self.pos += 10; return 10\n    def read_len(self):\n        self.pos += 2; return 7\ndef g(*a): return a\ndef trial(f):\n    return f(Rd())\n",
    'pure read evaluated before the inlined impure call (offset arithmetic)':
        "\nclass Rd:\n    def __init__(self):\n        self.pos = 0; self.log = []\n    def advance(self):\n        self.pos += 4; return True\n    def read(self):\n        self.pos += 1; return 'v%d' % self.pos\n    def read_block(self):\n        self.pos += 10; return 10\n    def read_len(self):\n        self.pos += 2; return 7\ndef g(*a): return a\ndef trial(f):\n    return f(Rd())\n",
    'augmented assignment: target is read before the inlined call that changes it':
        "\nclass Rd:\n    def __init__(self):\n        self.pos = 0; self.log = []\n    def advance(self):\n        self.pos += 4; return True\n    def read(self):\n        self.pos += 1; return 'v%d' % self.pos\n    def read_block(self):\n        self.pos += 10; return 10\n    def read_len(self):\n        self.pos += 2; return 7\ndef g(*a): return a\ndef trial(f):\n    r = Rd(); f(r); return r.pos\n",
    'receiver attribute is loaded before the inlined call that rebinds it':
        "\nclass Rd:\n    def __init__(self):\n        self.pos = 0; self.items = ['old']; self.c = []; self.k = 0\n    def read(self):\n        self.pos += 1; self.k += 1; return self.k if self.k < 5 else 0\n    def _next(self):\n        self.items = []      # refill: a fresh list replaces the old one\n        return 1\ndef g(*a): return a\ndef trial(f):\n    r = Rd(); f(r); return r.items\n",
    'pure argument evaluated before the inlined impure call (call argument)':
        "\nclass Rd:\n    def __init__(self):\n        self.pos = 0; self.items = ['old']; self.c = []; self.k = 0\n    def read(self):\n        self.pos += 1; self.k += 1; return self.k if self.k < 5 else 0\n    def _next(self):\n        self.items = []      # refill: a fresh list replaces the old one\n        return 1\ndef g(*a): return a\ndef trial(f):\n    o = []; f(Rd(), o); return o\n",
    'pure value evaluated before the inlined impure call (dict display)':
        "\nclass Rd:\n    def __init__(self):\n        self.pos = 0; self.items = ['old']; self.c = []; self.k = 0\n    def read(self):\n        self.pos += 1; self.k += 1; return self.k if self.k < 5 else 0\n    def _next(self):\n        self.items = []      # refill: a fresh list replaces the old one\n        return 1\ndef g(*a): return a\ndef trial(f):\n    return f(Rd())\n",
    'generator: yielded position taken before vs after the read':
        "\nclass Rd:\n    def __init__(self):\n        self.pos = 0; self.items = ['old']; self.c = []; self.k = 0\n    def read(self):\n        self.pos += 1; self.k += 1; return self.k if self.k < 5 else 0\n    def _next(self):\n        self.items = []      # refill: a fresh list replaces the old one\n        return 1\ndef g(*a): return a\ndef trial(f):\n    return list(f(Rd()))\n",
    'sink_into_branches + inline_next_use: read position taken before vs after the read':
        "\nclass Rd:\n    def __init__(self):\n        self.pos = 0; self.items = ['old']; self.c = []; self.k = 0\n    def read(self):\n        self.pos += 1; self.k += 1; return self.k if self.k < 5 else 0\n    def _next(self):\n        self.items = []      # refill: a fresh list replaces the old one\n        return 1\ndef g(*a): return a\ndef trial(f):\n    return f(Rd(), True)\n",
    'impure value evaluated once moved into a while test evaluated every iteration':
        "\nclass M:\n    def __init__(self): self.calls = []\n    def begin(self):\n        self.calls.append('begin'); return True\n    def step(self):\n        self.calls.append('step'); return len(self.calls) > 4\ndef trial(f):\n    m = M(); f(m); return m.calls\n",
    'impure value moved into the conditionally evaluated tail of a chained comparison':
        '\nclass Rd:\n    def __init__(self): self.pos = 0\n    def read(self):\n        self.pos += 1; return 100\ndef trial(f):\n    r = Rd(); v = f(r, 5, 3); return v, r.pos\n',
    'alias chosen by a conditional expression, then mutated through the alias':
        '\nclass S:\n    def __init__(self): self.rows = []; self.other = []\ndef trial(f): return f(S(), True, 1)\n',
    'walrus alias mutated, length read through the original chain':
        '\nclass S:\n    def __init__(self): self.rows = [0]\ndef trial(f): return f(S())\n',
    'loop variable aliases an element of the list the temp reads':
        '\nclass Row:\n    def __init__(self): self.count = 0\nclass S:\n    def __init__(self): self.rows = [Row(), Row()]\nseen = []\ndef use(n): seen.append(n)\ndef trial(f):\n    del seen[:]; f(S()); return list(seen)\n',
    'object stored into an attribute, then mutated through the local name':
        '\nclass Rec:\n    def __init__(self): self.n = 0\nclass S: pass\ndef trial(f): return f(S(), Rec())\n',
    'whole-object argument that is a subscript is not "written"':
        '\nclass Row:\n    def __init__(self): self.n = 1\nclass S:\n    def __init__(self): self.rows = [Row()]\ndef update(r): r.n += 1\ndef trial(f): return f(S())\n',
    'object passed inside a tuple argument is not treated as written':
        'class S:\n    def fill(self, spec): spec[0].extend(b"\\0" * spec[1])\ndef trial(f): return f(S(), bytearray())\n',
    'self.__dict__.update() does not interfere with a read of self.x':
        '\nclass Out:\n    def __init__(self): self.got = []\n    def emit(self, x): self.got.append(x)\nclass Rd:\n    def __init__(self):\n        self.pos = 0; self.n = 0; self.out = {}; self.step = 1; self.total = 0; self.o = Out(); self.rows = []; self._d = {}; self.x = 1\n    def advance(self):\n        self.pos += 4; return True\n    def take(self):\n        self.pos += 2; return self.o\n    def read(self):\n        self.pos += 1; self.n += 1; self.step = 10; return 5\n    def count(self): return len(self.rows)\n    def keys(self): return list(self._d)\ndef trial(f): return f(Rd(), {"x": 2})\n',
    'whitelisted side-effect-free method on self (count) reads state changed in between':
        '\nclass Out:\n    def __init__(self): self.got = []\n    def emit(self, x): self.got.append(x)\nclass Rd:\n    def __init__(self):\n        self.pos = 0; self.n = 0; self.out = {}; self.step = 1; self.total = 0; self.o = Out(); self.rows = []; self._d = {}; self.x = 1\n    def advance(self):\n        self.pos += 4; return True\n    def take(self):\n        self.pos += 2; return self.o\n    def read(self):\n        self.pos += 1; self.n += 1; self.step = 10; return 5\n    def count(self): return len(self.rows)\n    def keys(self): return list(self._d)\ndef trial(f): return f(Rd(), 1)\n',
    'whitelisted side-effect-free method on self (keys) reads state changed in between':
        '\nclass Out:\n    def __init__(self): self.got = []\n    def emit(self, x): self.got.append(x)\nclass Rd:\n    def __init__(self):\n        self.pos = 0; self.n = 0; self.out = {}; self.step = 1; self.total = 0; self.o = Out(); self.rows = []; self._d = {}; self.x = 1\n    def advance(self):\n        self.pos += 4; return True\n    def take(self):\n        self.pos += 2; return self.o\n    def read(self):\n        self.pos += 1; self.n += 1; self.step = 10; return 5\n    def count(self): return len(self.rows)\n    def keys(self): return list(self._d)\ndef trial(f): return f(Rd(), 1, 2)\n',
    'independent-run sorting across a side-effect-free method on self that reads the appended list':
        '\nclass Out:\n    def __init__(self): self.got = []\n    def emit(self, x): self.got.append(x)\nclass Rd:\n    def __init__(self):\n        self.pos = 0; self.n = 0; self.out = {}; self.step = 1; self.total = 0; self.o = Out(); self.rows = []; self._d = {}; self.x = 1\n    def advance(self):\n        self.pos += 4; return True\n    def take(self):\n        self.pos += 2; return self.o\n    def read(self):\n        self.pos += 1; self.n += 1; self.step = 10; return 5\n    def count(self): return len(self.rows)\n    def keys(self): return list(self._d)\ndef trial(f):\n    r = Rd(); f(r, 1); return r.n\n',
    'module global rebound by a callee between def and use of the temp':
        'COUNT = 0\ndef bump():\n    global COUNT\n    COUNT += 1\ndef trial(f):\n    return f()\n',
    'temp substituted into a comprehension that rebinds the name it reads (capture)':
        'def trial(f): return f(b"abcd", [b"x", b"yy"])\n',
    '[0] * n row shared by two attributes vs two separate rows':
        'class S: pass\ndef trial(f):\n    s = S(); f(s, 2); s.a[0] = 9; return s.b\n',
    'slice copy shared by two attributes vs two separate copies':
        'class S: pass\ndef trial(f):\n    s = S(); f(s, [1]); s.a.append(2); return s.b\n',
    'one-shot iterator (zip) written out twice':
        'def trial(f): return f([1], [2])\n',
    'status set before a risky call inside if inside try: the store is dropped (split_webs loses the mid-statement definition)':
        "\nclass S:\n    def read_header(self): raise IOError('short read')\ndef trial(f): return f(S(), True)\n",
    'handler reports an offset saved inside if inside try: the save is dropped':
        '\nclass S:\n    def __init__(self): self.rep = []\n    def tell(self): return 512\n    def read_header(self): raise IOError()\n    def report(self, o): self.rep.append(o)\ndef trial(f):\n    s = S(); f(s, True); return s.rep\n',
    'progress marker set at the top of a loop body inside try is dropped':
        '\nclass S:\n    def risky(self, r): raise IOError()\ndef trial(f): return f(S(), [1])\n',
    'while inside try: store before the failing call dropped':
        '\nclass E(Exception): pass\nclass S:\n    def more(self): return True\n    def step(self): raise E()\ndef trial(f): return f(S())\n',
    'with inside try: store before the failing call dropped':
        "\nimport contextlib\nclass H:\n    def load(self): raise IOError()\nclass S:\n    @contextlib.contextmanager\n    def open(self, p): yield H()\ndef trial(f): return f(S(), 'p')\n",
    'finally reads a definition made in a branch that returns':
        "\nclass S:\n    def __init__(self): self.logged = []\n    def g(self): return 'r'\n    def log(self, x): self.logged.append(x)\ndef trial(f):\n    s = S(); f(s, True); return s.logged\n",
    'walrus definition invisible to split_webs: the loop reads a stale earlier value':
        "\nclass Rd:\n    def __init__(self):\n        self.pos = 0; self.items = ['old']; self.c = []; self.k = 0\n    def read(self):\n        self.pos += 1; self.k += 1; return self.k if self.k < 5 else 0\n    def _next(self):\n        self.items = []      # refill: a fresh list replaces the old one\n        return 1\ndef g(*a): return a\ndef trial(f):\n    r = Rd(); f(r); return r.c\n",
    'return of assignment when finally reads the name':
        "\nclass Rd:\n    def __init__(self):\n        self.pos = 0; self.log = []\n    def advance(self):\n        self.pos += 4; return True\n    def read(self):\n        self.pos += 1; return 'v%d' % self.pos\ndef g(*a): return a\ndef trial(f):\n    r = Rd(); v = f(r); return v, r.log\n",
    'store to a declared global removed by copy_propagate':
        'LAST = None\ndef trial(f):\n    f(42); return f.__globals__["LAST"]\n',
    'store to a declared global removed by inline_temps':
        'LAST = None\nclass S: pos = 7\ndef trial(f):\n    f(S()); return f.__globals__["LAST"]\n',
    'literal store to a declared global removed (flag never set)':
        'READY = False\nclass S:\n    def go(self): pass\ndef trial(f):\n    f(S()); return f.__globals__["READY"]\n',
    'two stores to a declared global split into locals and removed':
        'G = 0\ndef use(x): pass\ndef trial(f):\n    f(); return f.__globals__["G"]\n',
    'append loop inside try turned into a comprehension: partial list lost':
        "def parse(r): return int(r)\ndef trial(f): return f(['1', '2', 'x'])\n",
    'sum loop inside try turned into sum(): partial total lost':
        "def g(r): return int(r)\ndef trial(f): return f(['1', '2', 'x'])\n",
    'literal initialisation folded into reads although a tuple for-target rebinds the name':
        'seen = []\ndef g(x): seen.append(x)\ndef trial(f):\n    del seen[:]; r = f([1, 2], [7, 8]); return r, list(seen)\n',
    'literal initialisation folded into reads although a walrus rebinds the name':
        'class S:\n    def read(self): return 5\ndef trial(f): return f(S())\n',
    'mirrored comparison swaps the evaluation order of two stream reads':
        '\nclass St:\n    def __init__(self): self.data = [3, 1, 7, 9]; self.i = 0; self.n = 1\n    def _n(self):\n        v = self.data[self.i]; self.i += 1; self.n += 1; return v\n    a = b = read_len = read_size = u8 = u16 = check = hi = lo = read = _n\ndef Rec(**kw): return sorted(kw.items())\ndef trial(f): return f(St())\n',
    'sorted bit-or swaps which read supplies the high byte':
        '\nclass St:\n    def __init__(self): self.data = [3, 1, 7, 9]; self.i = 0; self.n = 1\n    def _n(self):\n        v = self.data[self.i]; self.i += 1; self.n += 1; return v\n    a = b = read_len = read_size = u8 = u16 = check = hi = lo = read = _n\ndef Rec(**kw): return sorted(kw.items())\ndef trial(f): return f(St())\n',
    'keyword arguments sorted by name: the stream is read in another order':
        '\nclass St:\n    def __init__(self): self.data = [3, 1, 7, 9]; self.i = 0; self.n = 1\n    def _n(self):\n        v = self.data[self.i]; self.i += 1; self.n += 1; return v\n    a = b = read_len = read_size = u8 = u16 = check = hi = lo = read = _n\ndef Rec(**kw): return sorted(kw.items())\ndef trial(f): return f(St())\n',
    'sorted product swaps two reads (observable through the order of calls)':
        '\nclass St:\n    def __init__(self): self.calls = []\n    def read_len(self): self.calls.append("len"); return 2\n    def read_size(self): self.calls.append("size"); return 3\ndef trial(f):\n    s = St(); f(s); return s.calls\n',
    'sorted product moves a state read across the call that changes it':
        '\nclass St:\n    def __init__(self): self.data = [3, 1, 7, 9]; self.i = 0; self.n = 1\n    def _n(self):\n        v = self.data[self.i]; self.i += 1; self.n += 1; return v\n    a = b = read_len = read_size = u8 = u16 = check = hi = lo = read = _n\ndef Rec(**kw): return sorted(kw.items())\ndef trial(f): return f(St())\n',
    'return of an attribute moved inside the with block (value read before vs after __exit__)':
        '\nclass H:\n    closed = False\n    def read(self): return b""\n    def __enter__(self): return self\n    def __exit__(self, *a): self.closed = True\ndef opener(p): return H()\ndef trial(f): return f("p")\n',
    'tuple unpacking replaced by indexing loses the length check':
        'def trial(f): return f((1, 2, 3))\n',
    'default that can raise evaluated unconditionally vs only in the else case':
        'class S: table = {1: "a"}\ndef trial(f): return f(S(), 0)\n',
    'independent-run sorting moves a flag store across a value that can raise':
        "\nclass S: ready = False\ndef trial(f):\n    s = S()\n    try: f(s, 'x')\n    except ValueError: pass\n    return s.ready\n",
    'lookup that can raise moved behind the call that consumes input (state after the exception differs)':
        '\nHANDLERS = {}\nclass S:\n    def __init__(self): self.pos = 0\n    def advance(self): self.pos += 1\ndef trial(f):\n    s = S()\n    try: f(s, 9)\n    except KeyError: pass\n    return s.pos\n',
    'try/except KeyError -> .get: a KeyError from the key expression is no longer caught':
        'NAMES = {1: "a"}\nclass S: codes = {0: 1}\ndef trial(f): return f(S(), 7)\n',
    'early-return loop vs any([...]) over all rows (later malformed row)':
        'def trial(f): return f([[1], []], 1)\n',
    'enumerate over a mapping rewritten as an index loop':
        'seen = []\ndef g(i, e): seen.append((i, e))\nclass S: items = {"k": 1}\ndef trial(f):\n    del seen[:]; f(S()); return list(seen)\n',
}


def _same(a, b, kw):
    sys.path.insert(0, __import__('os').path.dirname(__import__('os').path.dirname(__import__('os').path.abspath(__file__))))
    from tdstatic import equiv
    equiv.REPO_DEFINED[0] = frozenset()
    kw = kw or {}
    ca = equiv.canonical(ast.parse(a).body[0], kw.get('helpers_a'), dicts=kw.get('dicts'), sized=kw.get('sized'), props=kw.get('props'))
    cb = equiv.canonical(ast.parse(b).body[0], kw.get('helpers_b'), dicts=kw.get('dicts'), sized=kw.get('sized'), props=kw.get('props'))
    return ca is not None and ca == cb


def _outcome(trial, f):
    try:
        return ('returned', trial(f))
    except Exception as e:
        return ('raised', type(e).__name__, str(e))


def verify(verbose=True):
    bad = 0
    for k, (title, a, b, kw) in enumerate(FINDINGS, 1):
        s = _same(a, b, kw)
        na, nb = {}, {}
        exec(DEMOS[title], na)
        exec(DEMOS[title], nb)
        exec(a, na)
        exec(b, nb)
        oa, ob = _outcome(na['trial'], na['f']), _outcome(nb['trial'], nb['f'])
        ok = s and oa != ob
        bad += not ok
        if verbose:
            print(f'[{k:2d}] {"CONFIRMED" if ok else "NOT CONFIRMED"}  same()={s}  {title}')
            print(f'       A: {oa}')
            print(f'       B: {ob}')
    print(f'{len(FINDINGS) - bad} of {len(FINDINGS)} findings confirmed')
    return bad


if __name__ == '__main__':
    sys.exit(1 if verify() else 0)
