"""Red-team round 3 against tdstatic/equiv.py - focus: fresh objects, numbers, nested functions
(_allocates / _numeric / _NUMERIC_LOCALS / _identity_free_uses / _container_value / consumes_name / scalar_locals /
closed nested functions / LAMBDA_WRITES / state around the recursive canonical()).

FINDINGS = [(title, src_a, src_b, kwargs_dict_or_None), ...]   -- every pair has same(A, B) == True and behaves differently.
DEMOS[title] = source of `run(f)`: builds the stubs, calls f, returns the observable outcome (exceptions are caught by the driver).
GATE_FINDINGS = [(title, current_module_src, reference_module_src, qualname), ...]  -- taken as equivalent by gate.apply
GATE_DEMOS[title] = source of `run(ns)`: ns is the namespace of the executed module.
Run:  /venv/bin/python /tmp/redteam3/3/findings.py
"""
import ast
import os
import sys
import textwrap

_ALL = []
_GATE = []


def F(title, a, b, demo, kw=None, where=''):
    _ALL.append((title, textwrap.dedent(a).strip() + '\n', textwrap.dedent(b).strip() + '\n', kw, textwrap.dedent(demo), where))


def G(title, cur, ref, qualname, demo, where=''):
    _GATE.append((title, textwrap.dedent(cur).strip() + '\n', textwrap.dedent(ref).strip() + '\n', qualname, textwrap.dedent(demo), where))


# ===========================================================================================================================
# A. _identity_free_uses: "every use only looks at it" - but an item read / loop / += hands out the ELEMENTS, and those are
#    fresh too when the container is a display / comprehension of fresh objects.  Written out once per use, every use gets
#    its own rows.
# ===========================================================================================================================
W_A = 'equiv.py:2281 _identity_free_uses (2298 AugAssign value, 2300 item read, 2302 loop iterable) used by inline_temps:2330 - elements of the fresh container are fresh as well'
F('A1 table of fresh rows: rows reached by item read are filled, then summed (buckets)',
  '''
  def f(vals, n):
      buckets = [[] for _ in range(n)]
      for i, v in enumerate(vals):
          buckets[i % n].append(v)
      return [sum(b) for b in buckets]
  ''', '''
  def f(vals, n):
      for i, v in enumerate(vals):
          [[] for _ in range(n)][i % n].append(v)
      return [sum(b) for b in [[] for _ in range(n)]]
  ''', '''
  def run(f): return f([1, 2, 3, 4, 5], 2)
  ''', where=W_A)
F('A2 item read of a fresh table, mutated, read again',
  '''
  def f(n, x):
      t = [[] for _ in range(n)]
      t[0].append(x)
      return t[0]
  ''', '''
  def f(n, x):
      [[] for _ in range(n)][0].append(x)
      return [[] for _ in range(n)][0]
  ''', '''
  def run(f): return f(3, 7)
  ''', where=W_A)
F('A3 fresh rows as the iterable of two loops: the first loop fills them, the second reads them',
  '''
  def f(n, x):
      rows = [[] for _ in range(n)]
      for r in rows:
          r.append(x)
      return [len(r) for r in rows]
  ''', '''
  def f(n, x):
      for r in [[] for _ in range(n)]:
          r.append(x)
      return [len(r) for r in [[] for _ in range(n)]]
  ''', '''
  def run(f): return f(3, 7)
  ''', where=W_A)
F('A4 value of two augmented assignments: the same blank row shared by two tables vs one row each',
  '''
  def f(self, n):
      blank = [[0] * n]
      self.a += blank
      self.b += blank
      self.a[-1][0] = 1
      return self.b
  ''', '''
  def f(self, n):
      self.a += [[0] * n]
      self.b += [[0] * n]
      self.a[-1][0] = 1
      return self.b
  ''', '''
  def run(f):
      class S: pass
      s = S(); s.a = []; s.b = []
      return f(s, 2)
  ''', where=W_A)

# ===========================================================================================================================
# B. scalar_locals: an operand of `-` / the target of `-=` "is a number, never an alias" - sets subtract too
# ===========================================================================================================================
W_B = 'equiv.py:4048 / 4051 scalar_locals (operand of `-`, target of `-=`) -> function_aliases:4098 drops the pair (seen, self.seen)'
F('B1 `keys - seen` makes `seen` a scalar: the alias seen = self.seen is forgotten, len(self.seen) moves past seen.update()',
  '''
  def f(self, keys):
      seen = self.seen
      missing = keys - seen
      n = len(self.seen)
      seen.update(keys)
      return missing, n
  ''', '''
  def f(self, keys):
      seen = self.seen
      missing = keys - seen
      seen.update(keys)
      return missing, len(self.seen)
  ''', '''
  def run(f):
      class S: pass
      s = S(); s.seen = {1}
      return f(s, {1, 2, 3})
  ''', where=W_B)
F('B2 same with `seen |= keys - seen`',
  '''
  def f(self, keys):
      seen = self.seen
      n = len(self.seen)
      seen |= keys - seen
      return n
  ''', '''
  def f(self, keys):
      seen = self.seen
      seen |= keys - seen
      return len(self.seen)
  ''', '''
  def run(f):
      class S: pass
      s = S(); s.seen = {1}
      return f(s, {1, 2, 3})
  ''', where=W_B)
F('B3 `todo -= done` (in-place set difference) makes `todo` a scalar: the write through the alias is not seen',
  '''
  def f(self, done):
      todo = self.todo
      n = len(self.todo)
      todo -= done
      return n
  ''', '''
  def f(self, done):
      todo = self.todo
      todo -= done
      return len(self.todo)
  ''', '''
  def run(f):
      class S: pass
      s = S(); s.todo = {1, 2, 3}
      return f(s, {1})
  ''', where=W_B)

# ===========================================================================================================================
# C. LAMBDA_WRITES is charged to CALLS only - a generator made from a nested function / lambda / generator expression of
#    this very function runs its body when it is ITERATED (comprehension, unpacking, star display): no call in sight
# ===========================================================================================================================
W_C = 'equiv.py:385 written_chains / 523 interferes: LAMBDA_WRITES only added for statements that contain an impure Call; iteration of a local generator is not one'
_REC = '''
      def records():
          for d in data:
              self.pos += 1
              yield d
'''
F('C1 generator closure advances self.pos while a comprehension iterates it: stale base vs live self.pos',
  '''
  def f(self, data):
      def records():
          for d in data:
              self.pos += 1
              yield d
      it = records()
      base = self.pos
      return [base + r for r in it]
  ''', '''
  def f(self, data):
      def records():
          for d in data:
              self.pos += 1
              yield d
      it = records()
      return [self.pos + r for r in it]
  ''', '''
  def run(f):
      class S: pos = 0
      return f(S(), [10, 20, 30])
  ''', where=W_C)
F('C2 same in a for statement whose body makes no call',
  '''
  def f(self, data):
      def records():
          for d in data:
              self.pos += 1
              yield d
      it = records()
      base = self.pos
      out = []
      for r in it:
          out += [base + r]
      return out
  ''', '''
  def f(self, data):
      def records():
          for d in data:
              self.pos += 1
              yield d
      it = records()
      out = []
      for r in it:
          out += [self.pos + r]
      return out
  ''', '''
  def run(f):
      class S: pos = 0
      return f(S(), [10, 20, 30])
  ''', where=W_C)
F('C3 tuple unpacking runs the generator closure',
  '''
  def f(self, data):
      def records():
          for d in data:
              self.pos += 1
              yield d
      it = records()
      n = self.pos
      a, b = it
      return a, b, n
  ''', '''
  def f(self, data):
      def records():
          for d in data:
              self.pos += 1
              yield d
      it = records()
      a, b = it
      return a, b, self.pos
  ''', '''
  def run(f):
      class S: pos = 0
      return f(S(), [10, 20])
  ''', where=W_C)
F('C4 star display [*it] runs the generator closure',
  '''
  def f(self, data):
      def records():
          for d in data:
              self.pos += 1
              yield d
      it = records()
      n = self.pos
      t = [*it]
      return t, n
  ''', '''
  def f(self, data):
      def records():
          for d in data:
              self.pos += 1
              yield d
      it = records()
      t = [*it]
      return t, self.pos
  ''', '''
  def run(f):
      class S: pos = 0
      return f(S(), [10, 20])
  ''', where=W_C)
F('C5 the closure appends to a captured local list while it is iterated',
  '''
  def f(data):
      seen = []
      def records():
          for d in data:
              seen.append(d)
              yield d
      it = records()
      n = len(seen)
      return [(n, r) for r in it]
  ''', '''
  def f(data):
      seen = []
      def records():
          for d in data:
              seen.append(d)
              yield d
      it = records()
      return [(len(seen), r) for r in it]
  ''', '''
  def run(f): return f([10, 20])
  ''', where=W_C)
F('C6 lazy map over a lambda of this function',
  '''
  def f(self, data):
      it = map(lambda d: self.bump(d), data)
      base = self.pos
      return [base + r for r in it]
  ''', '''
  def f(self, data):
      it = map(lambda d: self.bump(d), data)
      return [self.pos + r for r in it]
  ''', '''
  def run(f):
      class S:
          pos = 0
          def bump(self, d):
              self.pos += 1
              return d
      return f(S(), [10, 20, 30])
  ''', where=W_C)
F('C7 generator expression with an impure element, iterated later',
  '''
  def f(self, data):
      it = (self.bump(d) for d in data)
      base = self.pos
      return [base + r for r in it]
  ''', '''
  def f(self, data):
      it = (self.bump(d) for d in data)
      return [self.pos + r for r in it]
  ''', '''
  def run(f):
      class S:
          pos = 0
          def bump(self, d):
              self.pos += 1
              return d
      return f(S(), [10, 20, 30])
  ''', where=W_C + ' (the deferred body of a generator expression is not in LAMBDA_WRITES at all: canonical:4181-4191 looks at Lambda / FunctionDef only)')

# ===========================================================================================================================
# D. LAMBDA_WRITES: "own names" of the nested function are collected over ALL scopes inside it - a comprehension variable
#    (or an inner-inner local) of the same spelling hides the captured container the closure really changes
# ===========================================================================================================================
F('D1 the closure appends to the captured `seen`; a comprehension inside it has a variable called `seen` too',
  '''
  def f(groups, xs):
      seen = []
      def add(x):
          seen.append(x)
          return any(x in seen for seen in groups)
      n = len(seen)
      hits = [add(x) for x in xs]
      return n, hits
  ''', '''
  def f(groups, xs):
      seen = []
      def add(x):
          seen.append(x)
          return any(x in seen for seen in groups)
      hits = [add(x) for x in xs]
      return len(seen), hits
  ''', '''
  def run(f): return f([[1], [5]], [1, 2, 3])
  ''', where='equiv.py:4188 canonical: `own` = every Name stored anywhere inside the nested function (comprehension variables included) is subtracted from its writes')

# ===========================================================================================================================
# E. consumes_name: only a BARE name / attribute argument counts as "runs through an iterator".  zip / enumerate / `or` around
#    it are side-effect-free values that consume it all the same; such a value is now written out at every use
# ===========================================================================================================================
W_E = 'equiv.py:210 consumes_name.bare (zip(..) / enumerate(..) / `it or d` around the iterator are not looked through) -> is_pure:79 -> inline_temps:2328/2330 writes the value out per use'
F('E1 list(zip(it, ys)) (fresh list, identity-free uses): the second copy finds the iterator empty',
  '''
  def f(it, ys):
      t = list(zip(it, ys))
      return len(t), t[0]
  ''', '''
  def f(it, ys):
      return len(list(zip(it, ys))), list(zip(it, ys))[0]
  ''', '''
  def run(f): return f(iter([1, 2, 3]), [4, 5, 6])
  ''', where=W_E)
F('E2 rows read from the file handle once vs twice: tuple(zip(keys, self.fh))',
  '''
  def f(self, keys):
      rows = tuple(zip(keys, self.fh))
      if len(rows) < len(keys):
          raise ValueError('short')
      return rows
  ''', '''
  def f(self, keys):
      if len(tuple(zip(keys, self.fh))) < len(keys):
          raise ValueError('short')
      return tuple(zip(keys, self.fh))
  ''', '''
  def run(f):
      class S: pass
      s = S(); s.fh = iter(['1', '2', '3'])
      return f(s, ['a', 'b'])
  ''', where=W_E)
F('E3 sorted(zip(keys, vals)) item reads',
  '''
  def f(keys, vals):
      t = sorted(zip(keys, vals))
      return t[0], t[-1]
  ''', '''
  def f(keys, vals):
      return sorted(zip(keys, vals))[0], sorted(zip(keys, vals))[-1]
  ''', '''
  def run(f): return f(iter([3, 1, 2]), [4, 5, 6])
  ''', where=W_E)
F('E4 list comprehension over zip(it, ys)',
  '''
  def f(it, ys):
      t = [a + b for a, b in zip(it, ys)]
      return len(t), t[0]
  ''', '''
  def f(it, ys):
      return len([a + b for a, b in zip(it, ys)]), [a + b for a, b in zip(it, ys)][0]
  ''', '''
  def run(f): return f(iter([1, 2, 3]), [4, 5, 6])
  ''', where=W_E + '; is_pure:92 (ListComp: only a bare Name as first iterable is suspected)')
F('E5 dict(zip(names, vals))',
  '''
  def f(names, vals):
      d = dict(zip(names, vals))
      return len(d), sorted(d)
  ''', '''
  def f(names, vals):
      return len(dict(zip(names, vals))), sorted(dict(zip(names, vals)))
  ''', '''
  def run(f): return f(iter('ab'), [1, 2])
  ''', where=W_E)
F('E6 tuple(enumerate(lines)): lines is a file-like iterator',
  '''
  def f(lines):
      t = tuple(enumerate(lines))
      return len(t), t
  ''', '''
  def f(lines):
      return len(tuple(enumerate(lines))), tuple(enumerate(lines))
  ''', '''
  def run(f): return f(iter(['a', 'b']))
  ''', where=W_E)
F('E7 list(enumerate(it)) item reads',
  '''
  def f(it):
      t = list(enumerate(it))
      return t[-1], t[0]
  ''', '''
  def f(it):
      return list(enumerate(it))[-1], list(enumerate(it))[0]
  ''', '''
  def run(f): return f(iter('ab'))
  ''', where=W_E)
F('E8 tuple(it or default)',
  '''
  def f(it, default):
      t = tuple(it or default)
      return len(t), t
  ''', '''
  def f(it, default):
      return len(tuple(it or default)), tuple(it or default)
  ''', '''
  def run(f): return f(iter(['a', 'b']), ())
  ''', where=W_E)

# ===========================================================================================================================
# F. _numeric: `/` `//` `%` `**` `<<` `>>` are "visibly a number" whatever the operands - a vector / array type divides too,
#    and its quotient is a new mutable object (so _allocates says no, and it is written out once per use)
# ===========================================================================================================================
W_F = 'equiv.py:2236 _numeric (Div / FloorDiv / ... numeric regardless of operands) -> _allocates:2261 False'
_VEC = '''
      class V:
          def __init__(self, xs): self.xs = list(xs)
          def __truediv__(self, n): return V(x / n for x in self.xs)
          def __floordiv__(self, n): return V(x // n for x in self.xs)
      class S: pass
'''
F('F1 v / n of a vector type: one shared object vs two',
  '''
  def f(self, v, n):
      u = v / n
      self.a = u
      self.b = u
      return self
  ''', '''
  def f(self, v, n):
      self.a = v / n
      self.b = v / n
      return self
  ''', '''
  def run(f):
      class V:
          def __init__(self, xs): self.xs = list(xs)
          def __truediv__(self, n): return V(x / n for x in self.xs)
      class S: pass
      s = f(S(), V([2, 4]), 2)
      s.a.xs[0] = 99
      return s.b.xs
  ''', where=W_F)
F('F2 v // k likewise',
  '''
  def f(self, v, k):
      h = v // k
      self.lo = h
      self.hi = h
      return self
  ''', '''
  def f(self, v, k):
      self.lo = v // k
      self.hi = v // k
      return self
  ''', '''
  def run(f):
      class V:
          def __init__(self, xs): self.xs = list(xs)
          def __floordiv__(self, n): return V(x // n for x in self.xs)
      class S: pass
      s = f(S(), V([2, 4]), 2); s.lo.xs[0] = 99
      return s.hi.xs
  ''', where=W_F)

# ===========================================================================================================================
# G. gate level: the recursive canonical() of a closed nested function is called without the module context, and with the
#    enclosing function's `sized` table still in force
# ===========================================================================================================================
G('G1 closed nested function: mutable_globals not handed down - a global read moves past the call that rebinds it',
  '''
  _depth = 0
  def push():
      global _depth
      _depth += 1
  def outer(xs):
      def g(x):
          push()
          return _depth + x
      return [g(x) for x in xs]
  ''', '''
  _depth = 0
  def push():
      global _depth
      _depth += 1
  def outer(xs):
      def g(x):
          d = _depth
          push()
          return d + x
      return [g(x) for x in xs]
  ''', 'outer', '''
  def run(ns): return ns['outer']([10, 20])
  ''', where='equiv.py:3583 _stmt: canonical(st) without ctx (MUTABLE_GLOBALS = {} inside); the same pair at top level is kept apart')
G('G2 closed nested function: all_props not handed down - a property read moves past the write of what it reads',
  '''
  class Rec:
      def __init__(self, size):
          self.size, self.pos = size, 0
      @property
      def remaining(self):
          return self.size - self.pos
  def outer(recs):
      def g(r):
          r.pos += 1
          return r.remaining
      return [g(r) for r in recs]
  ''', '''
  class Rec:
      def __init__(self, size):
          self.size, self.pos = size, 0
      @property
      def remaining(self):
          return self.size - self.pos
  def outer(recs):
      def g(r):
          n = r.remaining
          r.pos += 1
          return n
      return [g(r) for r in recs]
  ''', 'outer', '''
  def run(ns): return ns['outer']([ns['Rec'](5)])
  ''', where='equiv.py:3583 _stmt: canonical(st) without ctx (ALL_PROPS = {} inside); the same pair at top level is kept apart')
G('G3 the enclosing function\'s sized local `rows` = [] is taken for the nested function\'s PARAMETER `rows`: `not rows` == `len(rows) == 0`',
  '''
  def outer(groups):
      def size(rows):
          if len(rows) == 0:
              return 0
          return len(rows)
      rows = []
      for g in groups:
          rows.append(size(g))
      return rows
  ''', '''
  def outer(groups):
      def size(rows):
          if not rows:
              return 0
          return len(rows)
      rows = []
      for g in groups:
          rows.append(size(g))
      return rows
  ''', 'outer', '''
  def run(ns): return ns['outer']([[1], None])
  ''', where='equiv.py:3655 sized_chains marks only the OUTER parameters bad (nested parameters are not); canonical:4192 keeps _SIZED of the enclosing function in the recursive call (sized=None)')


FINDINGS = [(t, a, b, kw) for t, a, b, kw, _d, _w in _ALL]
DEMOS = {t: d for t, _a, _b, _kw, d, _w in _ALL}
GATE_FINDINGS = [(t, c, r, q) for t, c, r, q, _d, _w in _GATE]
GATE_DEMOS = {t: d for t, _c, _r, _q, d, _w in _GATE}


def _equiv():
    here = os.path.dirname(os.path.dirname(os.path.abspath(__file__)))
    if here not in sys.path:
        sys.path.insert(0, here)
    from tdstatic import equiv
    equiv.REPO_DEFINED[0] = frozenset()
    return equiv


def same(a, b, **kw):
    equiv = _equiv()
    ca = equiv.canonical(ast.parse(a).body[0], kw.get('helpers_a'), kw.get('consts'), dicts=kw.get('dicts'), sized=kw.get('sized'), props=kw.get('props'))
    cb = equiv.canonical(ast.parse(b).body[0], kw.get('helpers_b'), kw.get('consts'), dicts=kw.get('dicts'), sized=kw.get('sized'), props=kw.get('props'))
    return ca is not None and ca == cb


def _same(a, b, kw):
    return same(a, b, **(kw or {}))


def _outcome(src, demo):
    ns = {}
    exec(src, ns)
    fn = ns[ast.parse(src).body[0].name]
    exec(demo, ns)
    try:
        return repr(ns['run'](fn))
    except Exception as e:            # noqa
        return f'raises {type(e).__name__}: {e}'


def _gate_outcome(src, demo):
    d = {}
    exec(demo, d)
    ns = {}
    try:
        exec(src, ns)
        return repr(d['run'](ns))
    except Exception as e:            # noqa
        return f'raises {type(e).__name__}: {e}'


def main():
    _equiv()
    from tdstatic import gate
    bad = 0
    for i, (title, a, b, kw, demo, where) in enumerate(_ALL, 1):
        s = _same(a, b, kw)
        ra, rb = _outcome(a, demo), _outcome(b, demo)
        okay = s and ra != rb
        bad += not okay
        print(f'{i:2d}. [{"CONFIRMED" if okay else "NOT A FINDING"}] {title}')
        print(f'      same() = {s}')
        print(f'      A -> {ra}')
        print(f'      B -> {rb}')
        print(f'      at: {where}')
    for i, (title, cur, ref, q, demo, where) in enumerate(_GATE, 1):
        g = gate.apply(ast.parse(cur), ast.parse(ref), lambda t: None)
        rc, rr = _gate_outcome(cur, demo), _gate_outcome(ref, demo)
        okay = q in g and rc != rr
        bad += not okay
        print(f'G{i}. [{"CONFIRMED" if okay else "NOT A FINDING"}] {title}')
        print(f'      gate.apply -> {g}')
        print(f'      current   -> {rc}')
        print(f'      reference -> {rr}')
        print(f'      at: {where}')
    print(f'{len(_ALL) + len(_GATE) - bad} of {len(_ALL) + len(_GATE)} confirmed')


if __name__ == '__main__':
    main()
