"""Red-team round 2 against tdstatic/equiv.py (focus: expression canonicalisation cx / _ExprRewrite / _atoms and the side
conditions added after round 1).

FINDINGS = [(title, src_a, src_b, kwargs_dict_or_None), ...]   -- every pair has same(A, B) == True and behaves differently.
DEMOS[title] = source of `run(f)`: builds the stubs, calls f, returns the observable outcome (exceptions are caught by the driver).
GATE_FINDINGS = [(title, current_module_src, reference_module_src, qualname), ...]  -- taken as equivalent by gate.apply
GATE_DEMOS[title] = source of `run(ns)`: ns is the namespace of the executed module.
Run:  /venv/bin/python /tmp/redteam2/3/findings.py
"""
import ast
import os
import sys
import textwrap

_ALL = []
_GATE = []


def F(title, a, b, demo, kw=None, where=''):
    _ALL.append((title, textwrap.dedent(a).strip() + '\n', textwrap.dedent(b).strip() + '\n', kw, textwrap.dedent(demo), where))


def G(title, cur, ref, qualname, demo, where=''):
    _GATE.append((title, textwrap.dedent(cur).strip() + '\n', textwrap.dedent(ref).strip() + '\n', qualname, textwrap.dedent(demo), where))


STUBS = '''
class FH:
    """byte stream with typed readers; every read advances the position"""
    def __init__(self, data):
        self.data, self.pos, self.calls = bytes(data), 0, []
    def u8(self):
        self.calls.append('u8'); v = self.data[self.pos]; self.pos += 1; return v
'''

# ===========================================================================================================================
# A. nested scopes are "compared as written" while the enclosing function's locals are renamed / numbered
# ===========================================================================================================================
F('A1 nested def keeps its spelling, the outer locals are numbered: two locals swap names, the closure now returns the other one',
  '''
  def callbacks(self):
      first = self.head()
      last = self.tail()
      def on_done():
          return first
      return on_done, first, last
  ''',
  '''
  def callbacks(self):
      last = self.head()
      first = self.tail()
      def on_done():
          return first
      return on_done, last, first
  ''',
  '''
  def run(f):
      class S:
          def head(self): return 'HEAD'
          def tail(self): return 'TAIL'
      cb, a, b = f(S())
      return cb(), a, b
  ''', where="canonical(): local_names are renamed outside nested scopes only (_Rename.visit_FunctionDef / visit_Lambda return the node), equiv.py:3629-3631 "
             "and 474-494; the nested def is printed with ast.dump, 3185-3186.  The comment at 475-476 ('the names they mention are never renamed outside either') is not implemented")

F('A2 local renamed, the lambda still says the old name: it now reads a module-level name of that spelling',
  '''
  def converter(self):
      scale = self.header.scale()
      self.log(scale)
      return lambda v: v * scale
  ''',
  '''
  def converter(self):
      k = self.header.scale()
      self.log(k)
      return lambda v: v * scale
  ''',
  '''
  def run(f):
      f.__globals__['scale'] = 1000          # a module-level default of the same name
      class H:
          def scale(self): return 2
      class S:
          header = H()
          def log(self, x): pass
      return f(S())(5)
  ''', where='canonical(), equiv.py:3629-3631; cx() Lambda printed as written, 2674-2675')

F('A3 comprehension variable is numbered (~1.0), the lambda in the element keeps its spelling: `for c in cols` -> `for k in cols` with `lambda: c` untouched',
  '''
  def getters(cols, c):
      return [lambda: c for c in cols]
  ''',
  '''
  def getters(cols, c):
      return [lambda: c for k in cols]
  ''',
  '''
  def run(f):
      return [g() for g in f(['a', 'b'], 'PARAM')]
  ''', where='cx() comprehension numbering renames with _Rename (skips lambdas), equiv.py:2643-2661 with 485-487')

F('A4 the `lambda v, c=c:` idiom inside a comprehension: the default is part of the lambda (kept as written), the comprehension variable is numbered',
  '''
  def getters(cols, c):
      return [(lambda v, c=c: v[c]) for c in cols]
  ''',
  '''
  def getters(cols, c):
      return [(lambda v, c=c: v[c]) for k in cols]
  ''',
  '''
  def run(f):
      row = {'a': 1, 'b': 2, 'z': 26}
      return [g(row) for g in f(['a', 'b'], 'z')]
  ''', where='cx(), equiv.py:2643-2661')

F('A5 sink_constant_inits moves `n = 0` below a call of a closure that reads n',
  '''
  def run_steps(self, out):
      def emit():
          out.append(n)
      n = -1
      self.step()
      n = 0
      emit()
      self.use(n)
  ''',
  '''
  def run_steps(self, out):
      def emit():
          out.append(n)
      n = -1
      self.step()
      emit()
      n = 0
      self.use(n)
  ''',
  '''
  def run(f):
      class S:
          def step(self): pass
          def use(self, n): pass
      out = []
      f(S(), out)
      return out
  ''', where='sink_constant_inits: `mentions x` looks at the Name nodes of the statements in between only; a call of a nested function that reads x is not a mention, equiv.py:1496-1510')

# ===========================================================================================================================
# B. cx(): operators / calls whose operands change places
# ===========================================================================================================================
F('B1 `&` is sorted as if on integers: set & frozenset gives a set, frozenset & set a frozenset (and the surviving elements come from the other operand)',
  '''
  def known(self, names):
      return self.allowed & names
  ''',
  '''
  def known(self, names):
      return names & self.allowed
  ''',
  '''
  def run(f):
      class S:
          allowed = frozenset(['DEPT', 'GR', 'NPHI'])
      r = f(S(), {'GR', 'XYZ'})
      r.add('CALI')                       # the caller goes on filling the result
      return sorted(r)
  ''', where='cx(): _COMMUTE swap for BitAnd / BitXor asks only is_pure, equiv.py:2549 (the `|` case is restricted to visible integers, & and ^ are not)')

F('B2 `^` likewise: the result type follows the left operand',
  '''
  def changed(self, names):
      return self.seen ^ names
  ''',
  '''
  def changed(self, names):
      return names ^ self.seen
  ''',
  '''
  def run(f):
      class S:
          seen = frozenset(['A'])
      return type(f(S(), {'B'})).__name__
  ''', where='cx(), equiv.py:2549')

F('B3 keyword arguments sorted by name: dict(kind=.., size=..) vs dict(size=.., kind=..) - the insertion order of the result (PEP 468: **kwargs keeps call order)',
  '''
  def header(kind, size):
      return dict(kind=kind, size=size)
  ''',
  '''
  def header(kind, size):
      return dict(size=size, kind=kind)
  ''',
  '''
  def run(f):
      return list(f(1, 16).items())           # e.g. written out field by field
  ''', where='cx() generic Call: keywords sorted when their values are side-effect free, equiv.py:2603-2605')

F('B4 generator handed to tuple()/list()/join() is taken for the list comprehension: a StopIteration raised by the element (next(tokens)) is RuntimeError in the generator (PEP 479), StopIteration in the comprehension',
  '''
  def triple(tokens):
      return tuple(next(tokens) for _ in range(3))
  ''',
  '''
  def triple(tokens):
      return tuple([next(tokens) for _ in range(3)])
  ''',
  '''
  def run(f):
      # three fields per record, the stream ends inside a record
      toks = iter([1, 2, 3, 4, 5])
      out = []
      try:
          while True:
              out.append(f(toks))
      except StopIteration:
          return ('clean end of input', out)          # what a reader loop written against B relies on
  ''', where="cx(): `consumed completely and at once: the same as the list comprehension`, equiv.py:2573-2580")

F('B5 comparison mirrored although both operands can fail: which exception is raised changes',
  '''
  def over(rec, lim):
      return rec[0] > lim['max']
  ''',
  '''
  def over(rec, lim):
      return lim['max'] < rec[0]
  ''',
  '''
  def run(f):
      return f((), {})
  ''', where='cx() Compare: mirror / sort ask is_pure only, not may_raise, equiv.py:2558-2563 (the same for the product leaves at 2542-2544 and _atoms LtE at 2733)')

F('B6 f(a[0], x if c[0] else y) -> f(a[0], x) if c[0] else f(a[0], y): the test moves in front of an argument that can fail',
  '''
  def emit(fn, a, c, x, y):
      return fn(a['k'], x if c[0] else y)
  ''',
  '''
  def emit(fn, a, c, x, y):
      return fn(a['k'], x) if c[0] else fn(a['k'], y)
  ''',
  '''
  def run(f):
      return f(max, {}, [], 1, 2)
  ''', where='cx() hoisting of the conditional argument (is_pure only), equiv.py:2594-2601; _split_ifexp 1187-1231 does the same at statement level')

# ===========================================================================================================================
# C. % / str.format -> f-string: conversion time
# ===========================================================================================================================
F("C2 '{}/{}'.format(self.rows, self.load()) converts after every argument is evaluated; the f-string converts self.rows before load() fills it",
  '''
  def status(self):
      return '{}/{}'.format(self.rows, self.load())
  ''',
  '''
  def status(self):
      return f'{self.rows}/{self.load()}'
  ''',
  '''
  def run(f):
      class S:
          def __init__(self): self.rows = []
          def load(self):
              self.rows.append('r1'); return len(self.rows)
      return f(S())
  ''', where="_fstring_of_format: an argument with side effects is refused only after a field with a format specification, equiv.py:899-902")

F("C3 '{:d}/{}'.format(n, rec[1]): format() evaluates rec[1] (IndexError) before it formats n (ValueError); the f-string the other way round",
  '''
  def tag(n, rec):
      return '{:d}/{}'.format(n, rec[1])
  ''',
  '''
  def tag(n, rec):
      return f'{n:d}/{rec[1]}'
  ''',
  '''
  def run(f):
      return f(1.5, (0,))
  ''', where='_fstring_of_format: the order condition looks at is_pure only (not may_raise), equiv.py:900-902')

# ===========================================================================================================================
# D. tests that can fail: dropped / reordered
# ===========================================================================================================================
F('D1 a side-effect-free test with identical branches is dropped - also when evaluating it can fail',
  '''
  def kind(rec):
      if rec[0] == 1:
          return 0
      return 0
  ''',
  '''
  def kind(rec):
      return 0
  ''',
  '''
  def run(f):
      return f(())
  ''', where='_mk_if: `c in _PURE_ATOMS and then == other`, equiv.py:2865-2866 (is_pure, not may_raise)')

F('D2 two side-effect-free tests put in one order: the exception of the first-evaluated one wins',
  '''
  def cls(rec, d):
      if rec[0] == 1:
          if d['k'] == 2:
              return 1
          return 2
      if d['k'] == 2:
          return 3
      return 4
  ''',
  '''
  def cls(rec, d):
      if d['k'] == 2:
          if rec[0] == 1:
              return 1
          return 3
      if rec[0] == 1:
          return 2
      return 4
  ''',
  '''
  def run(f):
      return f((), {})
  ''', where='_mk_if, equiv.py:2867-2870')

# ===========================================================================================================================
# E. may_raise() does not count an attribute read on an object that may be None
# ===========================================================================================================================
F('E1 `n = rec.size` read ABOVE the `if rec is None` guard is substituted below it',
  '''
  def usable(self, rec):
      n = rec.size
      if rec is None:
          return False
      return n > 0
  ''',
  '''
  def usable(self, rec):
      if rec is None:
          return False
      return rec.size > 0
  ''',
  '''
  def run(f):
      return f(object(), None)
  ''', where='inline_temps: the where-and-whether-it-fails block is entered for may_raise(value) only; may_raise ignores Attribute, equiv.py:101-117, 2047-2060')

F('E2 default-then-override: `size = hdr.size; if ext is not None: size = ext.size` vs the conditional expression (hdr is None when ext is given)',
  '''
  def size_of(hdr, ext):
      size = hdr.size
      if ext is not None:
          size = ext.size
      return size
  ''',
  '''
  def size_of(hdr, ext):
      return ext.size if ext is not None else hdr.size
  ''',
  '''
  def run(f):
      class Ext: size = 8
      return f(None, Ext())
  ''', where='assignments_to_ifexp default-then-override: `not may_raise(prev.value)`, equiv.py:1418-1419 with 101-117')

# ===========================================================================================================================
# F. a call with side effects moved behind an expression that can fail
# ===========================================================================================================================
F('F1 sink_into_branches: `n = self.read()` moved into the branches of `if rec[0] == 1` - when the test fails the stream has / has not been advanced',
  '''
  def step(self, rec):
      n = self.read()
      if rec[0] == 1:
          self.a = n
      else:
          self.b = n
  ''',
  '''
  def step(self, rec):
      if rec[0] == 1:
          self.a = self.read()
      else:
          self.b = self.read()
  ''',
  '''
  def run(f):
      class S:
          pos = 0
          def read(self):
              self.pos += 4; return self.pos
      s = S()
      try:
          f(s, ())
      except IndexError:
          pass                      # the caller skips the malformed record and goes on reading
      return s.pos
  ''', where='sink_into_branches: is_pure(nx.test) and interferes(), nothing about may_raise(nx.test), equiv.py:1597-1602')

F('F2 inline_next_use: `n = self.read(); return rec[0] + n` vs `return rec[0] + self.read()`',
  '''
  def total(self, rec):
      n = self.read()
      return rec[0] + n
  ''',
  '''
  def total(self, rec):
      return rec[0] + self.read()
  ''',
  '''
  def run(f):
      class S:
          pos = 0
          def read(self):
              self.pos += 4; return self.pos
      s = S()
      try:
          f(s, ())
      except IndexError:
          pass
      return s.pos
  ''', where='inline_next_use / _impure_before(.., moved): looks for impure calls and for reads of what E writes before the use, not for expressions that can fail, equiv.py:1135-1157, 1293')

# ===========================================================================================================================
# G. fresh objects written out twice: _allocates() sees displays / list() / slices only
# ===========================================================================================================================
F('G1 `t = a + b` (lists) stored in two attributes vs `a + b` written twice: one shared list vs two lists',
  '''
  def setup(self, a, b):
      t = a + b
      self.x = t
      self.y = t
  ''',
  '''
  def setup(self, a, b):
      self.x = a + b
      self.y = a + b
  ''',
  '''
  def run(f):
      class S: pass
      s = S()
      f(s, [1], [2])
      s.x.append(99)
      return s.y
  ''', where='_allocates: BinOp Add / Mult only when an operand is visibly a display, equiv.py:2004-2005 (also `row * n`, `a | b` on dicts / sets, `-arr`)')

F('G2 `t = self.cache.get(key, [])` used twice: the fresh default list is one object in A, two in B',
  '''
  def add(self, key, v):
      t = self.cache.get(key, [])
      t.append(v)
      self.cache[key] = t
  ''',
  '''
  def add(self, key, v):
      self.cache.get(key, []).append(v)
      self.cache[key] = self.cache.get(key, [])
  ''',
  '''
  def run(f):
      class S:
          def __init__(self): self.cache = {}
      s = S()
      f(s, 'k', 1)
      return s.cache
  ''', where='_allocates does not look into the arguments of a call (the default of get / getattr), equiv.py:1994-2010')

# ===========================================================================================================================
# H. iterator consumption: consumes_name() knows bare names handed to list() & co only
# ===========================================================================================================================
F('H1 list(self.lines) drains the iterator kept in an attribute: the dead store is dropped',
  '''
  def skip_rest(self):
      rest = list(self.lines)
      return 'skipped'
  ''',
  '''
  def skip_rest(self):
      return 'skipped'
  ''',
  '''
  def run(f):
      class S:
          def __init__(self): self.lines = iter(['a', 'b', 'c'])
      s = S()
      f(s)
      return list(s.lines)
  ''', where='consumes_name: `bare` accepts ast.Name only, equiv.py:149-154; is_pure 77-80; drop_dead_locals 1850')

F('H2 two consumers of the iterator kept in an attribute are reordered',
  '''
  def split(self):
      a = sorted(self.toks)
      b = list(self.toks)
      return a, b
  ''',
  '''
  def split(self):
      b = list(self.toks)
      a = sorted(self.toks)
      return a, b
  ''',
  '''
  def run(f):
      class S:
          def __init__(self): self.toks = iter([3, 1, 2])
      return f(S())
  ''', where='consumes_name, equiv.py:149-154 (then inline_temps / sort of pure statements)')

F('H3 `[*it]` (the display spelling of list(it)) counts as side-effect free: the dead store is dropped',
  '''
  def skip_rest(it):
      rest = [*it]
      return 'skipped'
  ''',
  '''
  def skip_rest(it):
      return 'skipped'
  ''',
  '''
  def run(f):
      it = iter([1, 2, 3])
      f(it)
      return list(it)
  ''', where='is_pure: List / Tuple / Set displays and Starred are pure when the names in them are, equiv.py:63-64, 71-72')

F('H4 `marker in toks` on an iterator advances it: the unused test is dropped',
  '''
  def seek(toks, marker):
      found = marker in toks
      return 'done'
  ''',
  '''
  def seek(toks, marker):
      return 'done'
  ''',
  '''
  def run(f):
      toks = iter([1, 2, 0xff, 7, 8])
      f(toks, 0xff)
      return list(toks)
  ''', where='is_pure(Compare), equiv.py:59-60; drop_dead_locals 1850')

F('H5 `if marker in toks` repeated under itself is resolved (the second test would look for the NEXT marker)',
  '''
  def seek(toks, marker):
      if marker in toks:
          if marker in toks:
              return 2
          return 1
      return 0
  ''',
  '''
  def seek(toks, marker):
      if marker in toks:
          return 2
      return 0
  ''',
  '''
  def run(f):
      return f(iter([1, 0xff, 7, 8]), 0xff)
  ''', where='_mk_cond_leaf marks the In-test pure, _assume resolves the repetition, equiv.py:2773-2774, 2811-2814')

# ===========================================================================================================================
# I. reordering of neighbouring stores ignores the alias pairs
# ===========================================================================================================================
F('I1 `rec.done = a; self.recs[0].done = b` inside `for rec in self.recs` are taken as independent and sorted',
  '''
  def mark(self, a, b):
      for rec in self.recs:
          rec.done = a
          self.recs[0].done = b
  ''',
  '''
  def mark(self, a, b):
      for rec in self.recs:
          self.recs[0].done = b
          rec.done = a
  ''',
  '''
  def run(f):
      class R: done = None
      class S:
          def __init__(self): self.recs = [R()]
      s = S()
      f(s, 'A', 'B')
      return s.recs[0].done
  ''', where='sort_independent_runs compares chains with _prefix only (no _with_aliases / ALIASES), equiv.py:1717-1729; _bubble does the same for literals, 2965-2981')

# ===========================================================================================================================
# J. `s |= set(E)` -> `s.update(E)`
# ===========================================================================================================================
F('J1 `s |= set(extra)` on a local that holds a frozenset rebinds it to the union; `s.update(extra)` does not exist there',
  '''
  def names(self, extra):
      s = self.base
      s |= set(extra)
      return s
  ''',
  '''
  def names(self, extra):
      s = self.base
      s.update(extra)
      return s
  ''',
  '''
  def run(f):
      class S:
          base = frozenset(['DEPT'])          # class-level constant
      return sorted(f(S(), ['GR']))
  ''', where='_cstmt: AugAssign BitOr of set(E) on any local Name, equiv.py:3157-3160')


FINDINGS = [(t, a, b, kw) for (t, a, b, kw, d, w) in _ALL]
DEMOS = {t: d for (t, a, b, kw, d, w) in _ALL}
WHERE = {t: w for (t, a, b, kw, d, w) in _ALL}

# ===========================================================================================================================
# gate level (production path: gate.apply with the module context)
# ===========================================================================================================================
G('Z1 sized attributes: the base class comes through a relative import (`from .base import Base`, level 1) and is not looked at; it binds self.rows = None',
  '''
  from .base import Base
  class Table(Base):
      def load(self, fh):
          self.rows = [r for r in fh]
      def empty(self):
          return len(self.rows) == 0
  ''',
  '''
  from .base import Base
  class Table(Base):
      def load(self, fh):
          self.rows = [r for r in fh]
      def empty(self):
          return not self.rows
  ''', 'Table.empty',
  '''
  PRELUDE = "class Base:\\n    def __init__(self):\\n        self.rows = None      # not loaded yet\\n"
  def run(ns):
      return ns['Table']().empty()
  ''', where='gate._class_scope: `st.level == 0` and ImportFrom only, gate.py:105-106 (a base written `base.Base` after `import base` is skipped as well, 98-104)')

G('Z2 sized attributes: base class named through its module (`import base` / `class Table(base.Base)`)',
  '''
  import base
  class Table(base.Base):
      def load(self, fh):
          self.rows = [r for r in fh]
      def empty(self):
          return len(self.rows) == 0
  ''',
  '''
  import base
  class Table(base.Base):
      def load(self, fh):
          self.rows = [r for r in fh]
      def empty(self):
          return not self.rows
  ''', 'Table.empty',
  '''
  PRELUDE = "class Base:\\n    def __init__(self):\\n        self.rows = None\\nclass base:\\n    Base = Base\\n"
  def run(ns):
      return ns['Table']().empty()
  ''', where='gate._class_scope, gate.py:97-131')

G('Z3 sized attributes: a dataclass field without default (`rows: list`) is bound by the generated __init__ to whatever the caller passes',
  '''
  import dataclasses
  @dataclasses.dataclass
  class Table:
      rows: list
      def reset(self):
          self.rows = []
      def empty(self):
          return len(self.rows) == 0
  ''',
  '''
  import dataclasses
  @dataclasses.dataclass
  class Table:
      rows: list
      def reset(self):
          self.rows = []
      def empty(self):
          return not self.rows
  ''', 'Table.empty',
  '''
  PRELUDE = ""
  def run(ns):
      return ns['Table'](None).empty()
  ''', where='equiv.module_bad_attrs / sized_chains: an annotation without value binds nothing, equiv.py:3258-3259, 3277')

G('Z4 _assume: `self.rows = ..` between two tests of `self.size == 0` is skipped although size is a property (not an inlinable one) that reads self.rows',
  '''
  class Table:
      @property
      def size(self):
          n = 0
          for r in self.rows:
              n += r.n
          return n
      def trim(self):
          if self.size == 0:
              self.rows = self.spare
              return 'empty'
          return 'ok'
  ''',
  '''
  class Table:
      @property
      def size(self):
          n = 0
          for r in self.rows:
              n += r.n
          return n
      def trim(self):
          if self.size == 0:
              self.rows = self.spare
              if self.size == 0:
                  return 'empty'
              return 'refilled'
          return 'ok'
  ''', 'Table.trim',
  '''
  PRELUDE = ""
  def run(ns):
      class R: n = 3
      t = ns['Table']()
      t.rows, t.spare = [], [R()]
      return t.trim()
  ''', where="_assume: an assignment is skipped when its target text does not occur in the test's text; ALL_PROPS (read_chains.cut) is not consulted, equiv.py:2819")

GATE_FINDINGS = [(t, c, r, q) for (t, c, r, q, d, w) in _GATE]
GATE_DEMOS = {t: d for (t, c, r, q, d, w) in _GATE}


def _equiv():
    sys.path.insert(0, os.path.dirname(os.path.dirname(os.path.abspath(__file__))))
    from tdstatic import equiv
    equiv.REPO_DEFINED[0] = frozenset()
    return equiv


def same(a, b, **kw):
    equiv = _equiv()
    ca = equiv.canonical(ast.parse(a).body[0], kw.get('helpers_a'), kw.get('consts'), dicts=kw.get('dicts'), sized=kw.get('sized'), props=kw.get('props'))
    cb = equiv.canonical(ast.parse(b).body[0], kw.get('helpers_b'), kw.get('consts'), dicts=kw.get('dicts'), sized=kw.get('sized'), props=kw.get('props'))
    return ca is not None and ca == cb


def _same(a, b, kw):
    return same(a, b, **(kw or {}))


def _outcome(src, demo):
    ns = {}
    exec(textwrap.dedent(STUBS), ns)
    exec(src, ns)
    fn = ns[ast.parse(src).body[0].name]
    exec(demo, ns)
    try:
        return repr(ns['run'](fn))
    except Exception as e:            # noqa
        return f'raises {type(e).__name__}: {e}'


def _gate_outcome(src, demo):
    d = {}
    exec(demo, d)
    # the module under test, with its imports replaced by the prelude that stands for the other module
    body = '\n'.join(ln for ln in src.splitlines() if not (ln.startswith('from .') or ln.startswith('import base')))
    ns = {}
    try:
        exec(d['PRELUDE'] + body, ns)
        return repr(d['run'](ns))
    except Exception as e:            # noqa
        return f'raises {type(e).__name__}: {e}'


def main():
    _equiv()
    from tdstatic import gate
    bad = 0
    for i, (title, a, b, kw, demo, where) in enumerate(_ALL, 1):
        s = _same(a, b, kw)
        ra, rb = _outcome(a, demo), _outcome(b, demo)
        okay = s and ra != rb
        bad += not okay
        print(f'{i:2d}. [{"CONFIRMED" if okay else "NOT A FINDING"}] {title}')
        print(f'      same() = {s}')
        print(f'      A -> {ra}')
        print(f'      B -> {rb}')
        print(f'      at: {where}')
    for i, (title, cur, ref, q, demo, where) in enumerate(_GATE, 1):
        g = gate.apply(ast.parse(cur), ast.parse(ref), lambda t: None)
        rc, rr = _gate_outcome(cur, demo), _gate_outcome(ref, demo)
        okay = q in g and rc != rr
        bad += not okay
        print(f'G{i}. [{"CONFIRMED" if okay else "NOT A FINDING"}] {title}')
        print(f'      gate.apply -> {g}')
        print(f'      current   -> {rc}')
        print(f'      reference -> {rr}')
        print(f'      at: {where}')
    print(f'{len(_ALL) + len(_GATE) - bad} of {len(_ALL) + len(_GATE)} confirmed')


if __name__ == '__main__':
    main()
