"""Round 3, agent 2: class_method_writes() / METHOD_WRITES and the gate-level plumbing around it.

FINDINGS = [(title, src_a, src_b, kwargs)]: two versions of a method `f`; kwargs carries the module context the production path
   (gate._ctx) derives its tables from: {'head': class line, 'common': the other members of the class (same in both versions),
   'pre': module text before the class, 'post': module text after it, 'cls': class name}.  same(a, b, **kw) wraps both versions
   in that module, lets gate._ctx compute the context (method_writes, other_class_methods, all_props, ...) exactly as
   gate.canonical_pair does, and compares equiv.canonical() of the two.
GATE_FINDINGS = [(title, current_module_src, reference_module_src, qualname)]: the same pairs as whole modules (taken as
   equivalent by gate.apply), plus the ASYMMETRIC ones where the two versions of the *module* differ outside f (J1-J3): for
   those the demo runs the current module as it is against the current module as the analyser sees it after gate.apply has put
   the reference body into f.
STEP[title] = the step held responsible (line numbers of /tmp/redteam3/2/tdstatic).

Run:  /venv/bin/python /tmp/redteam3/2/findings.py
"""
import ast
import os
import sys
import textwrap

sys.path.insert(0, os.path.dirname(os.path.dirname(os.path.abspath(__file__))))
from tdstatic import equiv, gate  # noqa: E402

equiv.REPO_DEFINED[0] = frozenset()

FINDINGS = []
GATE_FINDINGS = []
DEMOS = {}          # title -> driver source (defines run(ns))
ASYM = {}           # title -> driver source, for the gate-level pairs whose modules differ outside f
STEP = {}
_step = ['']


def _ind(s, n=4):
    return textwrap.indent(textwrap.dedent(s).strip('\n'), ' ' * n) + '\n'


def module(f_src, kw):
    kw = kw or {}
    pre = textwrap.dedent(kw.get('pre', '')).strip('\n')
    return (pre + '\n' if pre else '') + kw.get('head', 'class R:') + '\n' + _ind(kw.get('common', 'pass')) + _ind(f_src) + textwrap.dedent(kw.get('post', ''))


def _driver(init, args, cls):
    return (f'def run(ns):\n    K = ns[{cls!r}]\n    r = K.__new__(K)\n' + ''.join(f'    r.{k} = {v}\n' for k, v in init.items())
            + f'    out = r.f({", ".join(args)})\n    return out\n')


def M(title, common, fa, fb, init=None, args=(), head='class R:', pre='', post='', cls='R', step=None, driver=None):
    if step:
        _step[0] = step
    kw = {'head': head, 'common': common, 'pre': pre, 'post': post, 'cls': cls}
    FINDINGS.append((title, fa, fb, kw))
    GATE_FINDINGS.append((title, module(fa, kw), module(fb, kw), f'{cls}.f'))
    DEMOS[title] = driver or _driver(init or {}, args, cls)
    STEP[title] = _step[0]


def A(title, cur, ref, q, driver, step=None):
    if step:
        _step[0] = step
    GATE_FINDINGS.append((title, cur, ref, q))
    ASYM[title] = driver
    STEP[title] = _step[0]


def same(a, b, **kw):
    out = []
    for src in (a, b):
        tree = ast.parse(module(src, kw))
        cls = [st for st in tree.body if isinstance(st, ast.ClassDef) and st.name == kw.get('cls', 'R')][-1]
        f = [g for g in cls.body if isinstance(g, ast.FunctionDef) and g.name == 'f'][0]
        out.append(equiv.canonical(f, None, equiv.module_constants(tree), set(), cls.name, equiv.module_properties(tree), equiv.module_dicts(tree),
                                   ctx=gate._ctx(tree, set(), cls, False)))
    return out[0] is not None and out[0] == out[1]


FA = 'def f(self):\n    self._bump()\n    return self.pos\n'
FB = 'def f(self):\n    t = self.pos\n    self._bump()\n    return t\n'
POS = {'pos': 10, 'n': 0}

# ======================================================================================================================
# A. another name for self inside the own method: only the literal statement `x = self` is recognised
# ======================================================================================================================
S = 'class_method_writes l.3724: only `x = self` (ast.Assign whose value IS the name) makes the method unknown; stores through any other alias of self (l.3692 wants c_[0] == "self") are dropped'
M('A1 alias of self by tuple assignment', 'def _bump(self):\n    a, b = self, 1\n    a.pos += 4', FA, FB, POS, step=S)
M('A2 alias of self by annotated assignment', 'def _bump(self):\n    a: object = self\n    a.pos += 4', FA, FB, POS)
M('A3 alias of self: o = o or self', 'def _bump(self, o=None):\n    o = o or self\n    o.pos += 4', FA, FB, POS)
M('A4 alias of self: o = self if o is None else o', 'def _bump(self, o=None):\n    o = self if o is None else o\n    o.pos += 4', FA, FB, POS)
M('A5 alias of self: for o in (self, self.peer)', 'def _bump(self):\n    for o in (self, self.peer):\n        o.pos += 4', FA, FB,
  {'pos': 10, 'peer': '__import__("types").SimpleNamespace(pos=0)'})
M('A6 alias of self: with self as o', 'def __enter__(self):\n    return self\ndef __exit__(self, *a):\n    return False\ndef _bump(self):\n    with self as o:\n        o.pos += 4', FA, FB, POS)
M('A7 alias of self: x = self._me() (own method returning self)', 'def _me(self):\n    return self\ndef _bump(self):\n    x = self._me()\n    x.pos += 4', FA, FB, POS)
M('A8 alias of self: walrus', 'def _bump(self):\n    if (o := self).ready:\n        o.pos += 4', FA, FB, {'pos': 10, 'ready': True})
M('A9 alias of self: starred unpacking', 'def _bump(self):\n    o, *_ = [self]\n    o.pos += 4', FA, FB, POS)

# ======================================================================================================================
# B. implicit calls on self: `with self:` runs __enter__/__exit__, `for _ in self` runs __iter__/__next__
# ======================================================================================================================
M('B1 with self: (own __enter__ advances)', 'def __enter__(self):\n    self.pos += 4\n    return self\ndef __exit__(self, *a):\n    return False\ndef _bump(self):\n    with self:\n        pass',
  FA, FB, POS, step='class_method_writes l.3680-3685: a context manager that is the bare name self is ignored (only self.<attr> context expressions count); written_chains l.375 does write it as a whole in the caller itself')
M('B2 for _ in self: (own __next__ advances; a reader that is its own iterator)',
  'def __iter__(self):\n    return self\ndef __next__(self):\n    if self.pos >= self.end:\n        raise StopIteration\n    self.pos += 4\n    return self.pos\ndef _bump(self):\n    for _ in self:\n        pass',
  FA, FB, {'pos': 10, 'end': 30}, step='class_method_writes l.3664-3725: the iterable of a for loop / comprehension is never looked at; iterating self (or self.<attr> that is an iterator) changes nothing in the summary')

# ======================================================================================================================
# C. class attributes read through self
# ======================================================================================================================
S = 'class_method_writes l.3692: a store whose chain starts at the class name (R.pos) is not a write to self.pos although the caller reads the class attribute through self; same for a call on the class (l.3701-3708)'
M('C1 own method bumps a class-level counter: R.pos += 4', 'pos = 0\ndef _bump(self):\n    R.pos += 4', FA, FB, {}, step=S)
M('C2 own method calls a classmethod through the class: R._inc()', 'pos = 0\n@classmethod\ndef _inc(cls):\n    cls.pos += 4\ndef _bump(self):\n    R._inc()', FA, FB, {})

# ======================================================================================================================
# D / E. targets and arguments that the walk does not see
# ======================================================================================================================
M('D1 comprehension target self.pos', 'def _bump(self):\n    [0 for self.pos in range(4)]', FA, FB, POS,
  step='class_method_writes l.3673-3681: comprehension targets are not among the targets looked at')
S = 'class_method_writes l.3712-3723: an argument that mentions self is only "unknown" when NO attribute chain self.x occurs in the same argument; `(self.kind, self)` names self.kind, so handing self over inside a display goes unnoticed'
M('E1 self handed over inside a tuple argument', 'def _bump(self):\n    advance((self.kind, self))', FA, FB, {'pos': 10, 'kind': 1},
  pre='def advance(pair):\n    pair[1].pos += 4 * pair[0]\n', step=S)
M('E2 self handed over inside a list argument', 'def _bump(self):\n    run_job(work, [self, self.kind])', FA, FB, {'pos': 10, 'kind': 1},
  pre='def work(r, k):\n    r.pos += 4 * k\ndef run_job(fn, a):\n    fn(*a)\n')

# ======================================================================================================================
# F. which function `self._bump` is
# ======================================================================================================================
M('F1 method defined twice in the class body: the last one counts in Python, the first in the table', 'def _bump(self):\n    self.n += 1\ndef _bump(self):\n    self.pos += 4', FA, FB, POS,
  step='class_method_writes l.3658: methods.setdefault keeps the FIRST definition (meant for class-before-bases), inside one class body the last one wins')
M('F2 method redefined under `if` in the class body', 'def _bump(self):\n    self.n += 1\nif FAST:\n    def _bump(self):\n        self.pos += 4', FA, FB, POS, pre='FAST = True\n',
  step='class_method_writes l.3655-3658: only direct FunctionDefs of the class body are collected; a conditional redefinition of the same name is not seen (gate._rebound_names knows it, but only the helper table uses that)')
M('F3 method name rebound on the instance (self._bump = self._bump2 in __init__)',
  'def __init__(self, v2):\n    self.pos = 10\n    self.n = 0\n    if v2:\n        self._bump = self._bump2\ndef _bump(self):\n    self.n += 1\ndef _bump2(self):\n    self.pos += 4', FA, FB,
  driver='def run(ns):\n    return ns["R"](True).f()\n',
  step='gate._ctx l.249-255 / class_method_writes: names that the module rebinds (gate._rebound_names: attribute stores `self._bump = ..`, class-level assignments) are not taken out of the table')
M('F4 subclass binds the method name by assignment', 'def _bump(self):\n    self.n += 1\ndef _skip(self):\n    self.pos += 4', FA, FB, POS, post='class S(R):\n    _bump = R._skip\n', cls='R',
  driver='def run(ns):\n    r = ns["S"]()\n    r.pos = 10\n    r.n = 0\n    return r.f()\n',
  step='gate._ctx l.247: other_class_methods only lists the FunctionDefs found directly in the bodies of the other classes; an override by assignment, under `if`, or patched in from module level is not an override for it')
M('F5 subclass overrides under `if` in its class body', 'def _bump(self):\n    self.n += 1', FA, FB, POS, pre='FAST = True\n', post='class S(R):\n    if FAST:\n        def _bump(self):\n            self.pos += 4\n',
  driver='def run(ns):\n    r = ns["S"]()\n    r.pos = 10\n    r.n = 0\n    return r.f()\n')
M('F6 method patched from module level: R._bump = R._skip', 'def _bump(self):\n    self.n += 1\ndef _skip(self):\n    self.pos += 4', FA, FB, POS, post='R._bump = R._skip\n')
M('F7 subclass overrides with a lambda', 'def _bump(self):\n    self.n += 1\ndef _reset(self):\n    self.pos = 0', FA, FB, POS, post='class S(R):\n    _bump = lambda self: self._reset()\n',
  driver='def run(ns):\n    r = ns["S"]()\n    r.pos = 10\n    r.n = 0\n    return r.f()\n')

# ======================================================================================================================
# G. objects that self holds, changed through a local name of the own method
# ======================================================================================================================
S = 'class_method_writes l.3686-3708: stores / calls count only when their chain starts at the name self; `h = self.hdr` followed by `h.count += 1`, `h.bump()`, `update(h)`, `s.append(x)`, `buf += d`, `del d[k]` changes what self.hdr / self.stack / self.buf hold and adds nothing (equiv has an ALIASES table for the function at hand; the summary has none)'
HA = 'def f(self):\n    self._bump()\n    return self.hdr.count\n'
HB = 'def f(self):\n    t = self.hdr.count\n    self._bump()\n    return t\n'
HDR = {'hdr': '__import__("types").SimpleNamespace(count=0)', 'trl': '__import__("types").SimpleNamespace(count=0)'}
M('G1 h = self.hdr; h.count += 1', 'def _bump(self):\n    h = self.hdr\n    h.count += 1', HA, HB, HDR, step=S)
M('G2 h = self.hdr; h.bump()', 'def _bump(self):\n    h = self.hdr\n    h.bump()', HA, HB, {'hdr': 'ns["Hdr"]()'}, pre='class Hdr:\n    count = 0\n    def bump(self):\n        self.count += 1\n')
M('G3 h = self.hdr; update(h)', 'def _bump(self):\n    h = self.hdr\n    update(h)', HA, HB, HDR, pre='def update(h):\n    h.count += 1\n')
M('G4 for h in (self.hdr, self.trl): h.count += 1', 'def _bump(self):\n    for h in (self.hdr, self.trl):\n        h.count += 1', HA, HB, HDR)
SA = 'def f(self):\n    self._push(1)\n    return len(self.stack)\n'
SB = 'def f(self):\n    n = len(self.stack)\n    self._push(1)\n    return n\n'
M('G5 s = self.stack; s.append(x)', 'def _push(self, x):\n    s = self.stack\n    s.append(x)', SA, SB, {'stack': '[]'})
M('G6 s = self.stack; s[0:0] = [x]', 'def _push(self, x):\n    s = self.stack\n    s[0:0] = [x]', SA, SB, {'stack': '[]'})
M('G7 ap = self.stack.append; ap(x)', 'def _push(self, x):\n    ap = self.stack.append\n    ap(x)', SA, SB, {'stack': '[]'})
M('G8 buf = self.buf; buf += d (bytearray grows in place)', 'def _feed(self, d):\n    buf = self.buf\n    buf += d',
  'def f(self, d):\n    self._feed(d)\n    return len(self.buf)\n', 'def f(self, d):\n    n = len(self.buf)\n    self._feed(d)\n    return n\n', {'buf': 'bytearray()'}, args=('b"abcd"',))
M('G9 d = self.cache; del d["k"]', 'def _drop(self):\n    d = self.cache\n    del d["k"]',
  'def f(self):\n    self._drop()\n    return len(self.cache)\n', 'def f(self):\n    n = len(self.cache)\n    self._drop()\n    return n\n', {'cache': '{"k": 1}'})

# ======================================================================================================================
# H. super()
# ======================================================================================================================
S = 'class_method_writes l.3701-3708: a call whose receiver is `super()` has chain None and does not mention the name self: it is neither a call of an own method (l.3703) nor "unknown" (l.3707) - whatever the base-class method does to self is dropped, also when the base is a class of the same module whose method is in other_class_methods'
M('H1 super().__init__() of a base class of the module resets the position', 'def _bump(self):\n    super().__init__()', FA, FB, POS, head='class R(Base):',
  pre='class Base:\n    def __init__(self):\n        self.pos = 0\n', step=S)
M('H2 super().advance(4) of a base class of the module', 'def _bump(self):\n    super().advance(4)', FA, FB, POS, head='class R(Base):', pre='class Base:\n    def advance(self, n):\n        self.pos += n\n')
LA = 'def f(self, k):\n    self._load(k)\n    return len(self)\n'
LB = 'def f(self, k):\n    n = len(self)\n    self._load(k)\n    return n\n'
M('H3 dict subclass: super().__setitem__(k, 1)', 'def _load(self, k):\n    super().__setitem__(k, 1)', LA, LB, {}, args=('"a"',), head='class R(dict):',
  step=S + '; gate._class_scope l.157 takes builtin bases as harmless, so the empty write set is used and `len(self)` / `self[k]` move across the call')
M('H4 list subclass: super().append(k)', 'def _load(self, k):\n    super().append(k)', LA, LB, {}, args=('"a"',), head='class R(list):')
M('H5 Exception subclass: super().__init__(m) replaces self.args', 'def _set(self, m):\n    super().__init__(m)',
  'def f(self, m):\n    self._set(m)\n    return self.args\n', 'def f(self, m):\n    a = self.args\n    self._set(m)\n    return a\n', {}, args=('"boom"',), head='class R(Exception):')

# ======================================================================================================================
# K. (outside the focus, found on the way) attributes that are computed or that react to stores, and are not known as properties
# ======================================================================================================================
TA = 'def f(self):\n    self._add(1)\n    return self.total\n'
TB = 'def f(self):\n    t = self.total\n    self._add(1)\n    return t\n'
ADD = 'def _add(self, x):\n    self.rows.append(x)\n'
S = 'module_all_properties / read_chains.cut l.278-285: only @property (and property(..), cached_property) names cut a read chain; a method under another descriptor-making decorator, a class-level descriptor instance and __getattr__ all make `self.total` read self.rows'
M('K1 computed attribute under a home-made decorator (@lazy)', ADD + '@lazy\ndef total(self):\n    return sum(self.rows)\n', TA, TB, {'rows': '[5]'},
  pre='class lazy:\n    def __init__(self, fn):\n        self.fn = fn\n    def __get__(self, o, t=None):\n        return self.fn(o)\n', step=S)
M('K2 class-level descriptor instance: total = Total()', ADD + 'total = Total()\n', TA, TB, {'rows': '[5]'}, pre='class Total:\n    def __get__(self, o, t=None):\n        return sum(o.rows)\n')
M('K3 __getattr__ computes the attribute', ADD + 'def __getattr__(self, k):\n    if k == "total":\n        return sum(self.rows)\n    raise AttributeError(k)\n', TA, TB, {'rows': '[5]'})
S = 'class_method_writes l.3686-3696 and written_chains l.346-358: a class that defines __setattr__ is treated like any other; every attribute store of the own method (and of the caller) also does what __setattr__ does (here: sets the dirty flag)'
SETA = 'def __setattr__(self, k, v):\n    object.__setattr__(self, k, v)\n    object.__setattr__(self, "dirty", True)\n'
DRV = 'def run(ns):\n    r = ns["R"]()\n    object.__setattr__(r, "dirty", False)\n    return r.f()\n'
M('K4 __setattr__ marks the object dirty; the own method stores another attribute', SETA + 'def _bump(self):\n    self.n = 1\n',
  'def f(self):\n    self._bump()\n    return self.dirty\n', 'def f(self):\n    t = self.dirty\n    self._bump()\n    return t\n', driver=DRV, step=S)
M('K5 __setattr__ marks the object dirty; direct store in the caller', SETA,
  'def f(self):\n    self.n = 1\n    return self.dirty\n', 'def f(self):\n    t = self.dirty\n    self.n = 1\n    return t\n', driver=DRV)

# ======================================================================================================================
# J. gate level: each side is canonicalised with the tables of ITS OWN module, then the reference body is put into the
#    CURRENT module.  When the two modules differ in what `self._bump()` may change, the reference body is rewritten under
#    facts that do not hold in the current module.
# ======================================================================================================================
S = ('gate.canonical_pair l.274-279 / gate._ctx: method_writes and other_class_methods are computed per side and not intersected (unlike sized / seqs l.266-270); '
     'gate.apply l.337-340 only refuses when a changed function is called by the reference body ALONE (`called_only_ref`), a changed callee that both bodies call passes')


def _m(common, f, post=''):
    return 'class R:\n' + _ind(common) + _ind(f) + post


W_N = 'def _bump(self):\n    self.n += 1\n'
W_P = 'def _bump(self):\n    self.pos += 4\n'
DJ = 'def run(ns):\n    r = ns["R"]()\n    r.pos = 10\n    r.n = 0\n    return r.f()\n'
A('J1 the callee was changed in the same commit (now advances pos); f was changed to read pos after the call; the analyser puts the stale read back',
  _m(W_P, FA), _m(W_N, FB), 'R.f', DJ, step=S)
A('J2 the commit adds a subclass that overrides _bump; the reference module had none', _m(W_N, FA, 'class S(R):\n    def _bump(self):\n        self.pos += 4\n'), _m(W_N, FB), 'R.f',
  'def run(ns):\n    r = ns["S"]()\n    r.pos = 10\n    r.n = 0\n    return r.f()\n')
A('J3 a method two calls away was changed (_bump -> _skip now advances pos)',
  _m('def _bump(self):\n    self._skip()\ndef _skip(self):\n    self.pos += 4\n', FA), _m('def _bump(self):\n    self._skip()\ndef _skip(self):\n    self.n += 1\n', FB), 'R.f', DJ)


# ---------------------------------------------------------------------------------------------------------------- runner
def outcome(src, driver):
    ns = {}
    try:
        exec(src, ns)
        exec(driver, ns)
        return repr(ns['run'](ns))
    except BaseException as e:      # noqa
        return f'raised {type(e).__name__}: {e}'


def main():
    bad = gbad = 0
    for title, a, b, kw in FINDINGS:
        s = same(a, b, **(kw or {}))
        oa, ob = outcome(module(a, kw), DEMOS[title]), outcome(module(b, kw), DEMOS[title])
        ok = s and oa != ob
        bad += not ok
        print(f'{"CONFIRMED" if ok else "NOT CONFIRMED"}  same={s}  A -> {oa}   B -> {ob}   {title}')
    for title, cur, ref, q in GATE_FINDINGS:
        tree = ast.parse(cur)
        got = gate.apply(tree, ast.parse(ref), lambda t: None)
        if q not in got:
            gbad += 1
            print('gate.apply keeps apart: ' + title)
        elif title in ASYM:
            o1, o2 = outcome(cur, ASYM[title]), outcome(ast.unparse(tree), ASYM[title])
            ok = o1 != o2
            gbad += not ok
            print(f'{"CONFIRMED" if ok else "NOT CONFIRMED"}  gated={got}  current module as it runs -> {o1}   as the analyser reads it -> {o2}   {title}')
    print(f'{len(FINDINGS)} findings, {bad} not confirmed; {len(GATE_FINDINGS)} gate-level pairs, {gbad} kept apart / not confirmed')


if __name__ == '__main__':
    main()
