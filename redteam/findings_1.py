"""Red-team findings for tdstatic/equiv.py (focus: loops and carried state).
FINDINGS = [(title, src_a, src_b, kwargs_dict_or_None), ...]; DEMOS[title] is code run with fa / fb (the two functions) defined.
Run:  /venv/bin/python /tmp/redteam/1/findings.py      (checks same() is True for every pair and prints the differing outcomes)"""
import ast
import sys

sys.path.insert(0, __import__('os').path.dirname(__import__('os').path.dirname(__import__('os').path.abspath(__file__))))

FINDINGS = []
DEMOS = {}

STUBS = '''
class Rec:
    """records every method call made on it; return values are scripted per method name"""
    def __init__(self, **script):
        self.calls = []
        self._script = {k: list(v) if isinstance(v, list) else v for k, v in script.items()}
    def __getattr__(self, name):
        if name.startswith('_') :
            raise AttributeError(name)
        def m(*a, **k):
            self.calls.append((name,) + a)
            s = self._script.get(name)
            if isinstance(s, list):
                v = s.pop(0) if s else None
            elif callable(s):
                v = s(*a)
            else:
                v = s
            if isinstance(v, BaseException) or isinstance(v, type) and issubclass(v, BaseException):
                raise v
            return v
        return m
def outcome(fn, *a, **k):
    try:
        return ('returned', fn(*a, **k))
    except Exception as e:
        return ('raised', type(e).__name__, str(e))
'''


def add(title, a, b, demo, kw=None):
    FINDINGS.append((title, a.strip('\n'), b.strip('\n'), kw))
    DEMOS[title] = demo

# ---------------------------------------------------------------------------------------------------------------------------
# 1. _subst_const (equiv.py 2526-2574, `assigns()` at 2536-2538): a literal local is replaced by the literal through a nested
#    for / while / try / with node unless the node's text contains "('assign', ('§n§'" / an aug on it / "('for', '§n§'".
#    A tuple-target assignment inside the loop is none of these, so the rebinding is not seen (and the target itself becomes the literal).
add('subst_const: local rebound by tuple assignment inside a loop is taken as its initial literal (two results swapped)', '''
def f(self, recs):
    first = None
    last = None
    for r in recs:
        first, last = self.span(r)
    self.lo = first
    self.hi = last
''', '''
def f(self, recs):
    first = None
    last = None
    for r in recs:
        first, last = self.span(r)
    self.lo = last
    self.hi = first
''', '''
class S:
    def span(self, r): return (r, r + 10)
a, b = S(), S()
fa(a, [1, 2]); fb(b, [1, 2])
print('A: lo, hi =', a.lo, a.hi)
print('B: lo, hi =', b.lo, b.hi)
assert (a.lo, a.hi) != (b.lo, b.hi)
''')

add('subst_const: count returned by a loop with tuple target (for n, r in enumerate(..)) is taken as 0', '''
def f(self, recs):
    n = 0
    for n, r in enumerate(recs, 1):
        self.put(r)
    self.log(n)
    return n
''', '''
def f(self, recs):
    n = 0
    for n, r in enumerate(recs, 1):
        self.put(r)
    self.log(n)
    return 0
''', '''
a, b = Rec(), Rec()
ra, rb = outcome(fa, a, ['x', 'y', 'z']), outcome(fb, b, ['x', 'y', 'z'])
print('A:', ra); print('B:', rb)
assert ra != rb
''')

add('subst_const: name bound by `with .. as h` inside a loop is taken as its earlier literal None', '''
def f(self, ps):
    h = None
    for p in ps:
        with self.open(p) as h:
            self.load(h)
    self.keep(h)
    return h
''', '''
def f(self, ps):
    h = None
    for p in ps:
        with self.open(p) as h:
            self.load(h)
    self.keep(h)
    return None
''', '''
class CM:
    def __enter__(self): return self
    def __exit__(self, *a): return False
    def __repr__(self): return '<handle>'
class S:
    def open(self, p): return CM()
    def load(self, h): pass
    def keep(self, h): pass
ra, rb = outcome(fa, S(), ['p', 'q']), outcome(fb, S(), ['p', 'q'])
print('A:', ra); print('B:', rb)
assert ra != rb
''')

add('subst_const: name bound by a walrus inside a loop is taken as its earlier literal', '''
def f(self, xs):
    n = 0
    for x in xs:
        if (n := self.g(x)):
            break
    self.use(n)
    return n
''', '''
def f(self, xs):
    n = 0
    for x in xs:
        if (n := self.g(x)):
            break
    self.use(n)
    return 0
''', '''
a, b = Rec(g=[0, 7]), Rec(g=[0, 7])
ra, rb = outcome(fa, a, [1, 2, 3]), outcome(fb, b, [1, 2, 3])
print('A:', ra); print('B:', rb)
assert ra != rb
''')

# ---------------------------------------------------------------------------------------------------------------------------
# 2. _assume_local (2294-2310): "mark is not assigned anywhere in the tree" is tested with the text "('§b§'" (first target of a
#    plain assignment) only; a for target, tuple target, with-as, walrus or the second target of a chained assignment is not seen.
add('assume_local: `not ok` folded to False although ok was rebound by a tuple assignment after the test', '''
def f(self):
    ok = self.begin()
    if ok:
        if self.has_more():
            ok, n = self.read()
        self.failed = not ok
    return ok
''', '''
def f(self):
    ok = self.begin()
    if ok:
        if self.has_more():
            ok, n = self.read()
        self.failed = False
    return ok
''', '''
class S:
    def begin(self): return True
    def has_more(self): return True
    def read(self): return (False, 0)
a, b = S(), S()
fa(a); fb(b)
print('A: failed =', a.failed); print('B: failed =', b.failed)
assert a.failed != b.failed
''')

add('assume_local: `not b` folded although b is the target of a for loop after the test', '''
def f(self, xs):
    b = self.h()
    if b:
        for b in xs:
            pass
        self.s = not b
        self.t = b
''', '''
def f(self, xs):
    b = self.h()
    if b:
        for b in xs:
            pass
        self.s = False
        self.t = b
''', '''
class S:
    def h(self): return True
a, b = S(), S()
fa(a, [1, 0]); fb(b, [1, 0])
print('A: s =', a.s); print('B: s =', b.s)
assert a.s != b.s
''')

# ---------------------------------------------------------------------------------------------------------------------------
# 3. _assume (2313-2329): an assignment is passed over when its value has no `name(` in it; `(yield ..)` / `(await ..)` has none,
#    so a side-effect-free test repeated after a yield is taken as still true (the consumer may have changed the object meanwhile).
add('assume: test of self.active repeated after `reply = yield r` dropped (state may change while suspended)', '''
def f(self, recs):
    for r in recs:
        if self.active:
            reply = yield r
            if self.active:
                self.ack(reply)
                self.log(reply)
''', '''
def f(self, recs):
    for r in recs:
        if self.active:
            reply = yield r
            self.ack(reply)
            self.log(reply)
''', '''
def run(fn):
    s = Rec(); s.active = True
    g = fn(s, [1, 2])
    next(g)
    s.active = False            # the consumer switches the object off between two sends
    try:
        g.send('r1')
    except StopIteration:
        pass
    return s.calls
ca, cb = run(fa), run(fb)
print('A calls:', ca); print('B calls:', cb)
assert ca != cb
''')

# ---------------------------------------------------------------------------------------------------------------------------
# 4. split_webs, Try (1853-1879): the handlers see the definitions that reach the *boundaries between the top-level statements* of
#    the try body only.  A definition inside a compound statement of the body (with / for / if / nested try) that is overwritten
#    before that statement ends never reaches the handler: it becomes a web of its own, is dead, and drop_dead_locals removes it.
add('split_webs: progress marker set inside a with-block of a try body is dropped (handler reads it)', '''
def f(self):
    state = 'init'
    try:
        with self.open() as h:
            state = 'header'
            self.read_header(h)
            state = 'body'
            self.read_body(h)
    except IOError:
        self.log(state)
''', '''
def f(self):
    state = 'init'
    try:
        with self.open() as h:
            self.read_header(h)
            state = 'body'
            self.read_body(h)
    except IOError:
        self.log(state)
''', '''
class CM:
    def __enter__(self): return self
    def __exit__(self, *a): return False
class S(Rec):
    def open(self): return CM()
a, b = S(read_header=IOError), S(read_header=IOError)
fa(a); fb(b)
print('A logged:', [c for c in a.calls if c[0] == 'log']); print('B logged:', [c for c in b.calls if c[0] == 'log'])
assert a.calls != b.calls
''')

add('split_webs: record index remembered per iteration inside try is dropped (handler returns it)', '''
def f(self, recs):
    n = 0
    try:
        for r in recs:
            n = r.index
            self.check(r)
            n = -1
    except ValueError:
        return n
    return None
''', '''
def f(self, recs):
    n = 0
    try:
        for r in recs:
            self.check(r)
            n = -1
    except ValueError:
        return n
    return None
''', '''
class R:
    def __init__(self, i): self.index = i
recs = [R(5), R(6)]
ra = outcome(fa, Rec(check=[None, ValueError]), recs); rb = outcome(fb, Rec(check=[None, ValueError]), recs)
print('A:', ra); print('B:', rb)
assert ra != rb
''')

# 5. split_webs (1813-1820 / 1872-1879): the environments of `break` / `continue` are recorded where the statement stands, before
#    the finally clause of an enclosing try runs; when the body and all handlers leave that way the definitions made in the finally
#    clause reach nothing, form their own web and are dropped as dead.
add('split_webs: counter updated in a finally clause is dropped when body and handlers leave by break / continue', '''
def f(self):
    tries = 0
    while True:
        try:
            self.step()
            break
        except Retry:
            continue
        finally:
            tries = tries + 1
    return tries
''', '''
def f(self):
    while True:
        try:
            self.step()
            break
        except Retry:
            continue
        finally:
            pass
    return 0
''', '''
ra = outcome(fa, Rec(step=[Retry, Retry, None])); rb = outcome(fb, Rec(step=[Retry, Retry, None]))
print('A:', ra); print('B:', rb)
assert ra != rb
''')

# ---------------------------------------------------------------------------------------------------------------------------
# 6. tree_safe_locals (2493-2502) vs _cstmt(Try) (2616-2618): for a try statement WITH a finally clause the else-part is
#    canonicalised on its own (`seq(st.orelse, ())`), but tree_safe_locals gives it the region of the enclosing block; a literal
#    assigned there is "substituted" into an empty continuation, i.e. deleted, and the earlier literal flows to the reads after it.
add('tree_safe_locals: flag set in the else-part of try/except/finally is deleted', '''
def f(self):
    ok = False
    try:
        self.risky()
    except IOError:
        self.log()
    else:
        ok = True
    finally:
        self.cleanup()
    return ok
''', '''
def f(self):
    try:
        self.risky()
    except IOError:
        self.log()
    finally:
        self.cleanup()
    return False
''', '''
ra, rb = outcome(fa, Rec()), outcome(fb, Rec())
print('A:', ra); print('B:', rb)
assert ra != rb
''')

# ---------------------------------------------------------------------------------------------------------------------------
# 7. inline_next_use (912-936): `_stmt_exprs(While)` is the test, so a value with side effects computed ONCE before the loop is
#    written into the test, which is evaluated on every iteration.
add('inline_next_use: call made once before a while loop moved into the loop test (made on every iteration)', '''
def f(self):
    ok = self.ready()
    while ok:
        if self.step():
            break
''', '''
def f(self):
    while self.ready():
        if self.step():
            break
''', '''
a, b = Rec(ready=[True, False], step=[False, False, True]), Rec(ready=[True, False], step=[False, False, True])
fa(a); fb(b)
print('A calls:', a.calls); print('B calls:', b.calls)
assert a.calls != b.calls
''')

# 8. inline_next_use / _impure_before (808-821): for an augmented assignment Python reads the target BEFORE it evaluates the value;
#    `_stmt_exprs` lists [target, value] but a plain attribute read is not counted as something the moved call could disturb.
add('inline_next_use: `n = self.read_block(); self.pos += n` vs `self.pos += self.read_block()` (target read before the call)', '''
def f(self):
    n = self.read_block()
    self.pos += n
''', '''
def f(self):
    self.pos += self.read_block()
''', '''
class S:
    def __init__(self): self.pos = 0
    def read_block(self):
        self.pos += 4          # the call itself skips a 4-byte header
        return 10
a, b = S(), S()
fa(a); fb(b)
print('A: pos =', a.pos); print('B: pos =', b.pos)
assert a.pos != b.pos
''')

# ---------------------------------------------------------------------------------------------------------------------------
# 9. inline_temps / _between (1527-1567, comment at 1620): "what runs between definition and use" holds the statements before the
#    statement that contains the use and the bodies of enclosing loops, but neither the header of an enclosing if / elif / with nor
#    the part of the using statement that is evaluated before the use.
add('inline_temps: position saved before `if self.consume(r):` read after it (loop over records)', '''
def f(self, recs):
    for r in recs:
        start = self.pos
        if self.consume(r):
            self.index.append(start)
''', '''
def f(self, recs):
    for r in recs:
        if self.consume(r):
            self.index.append(self.pos)
''', '''
class S:
    def __init__(self): self.pos = 0; self.index = []
    def consume(self, r):
        self.pos += r
        return True
a, b = S(), S()
fa(a, [3, 4]); fb(b, [3, 4])
print('A: index =', a.index); print('B: index =', b.index)
assert a.index != b.index
''')

add('inline_temps: value saved before a call that stands earlier in the same argument list', '''
def f(self, out):
    off = self.pos
    out.add(self.read_name(), off)
''', '''
def f(self, out):
    out.add(self.read_name(), self.pos)
''', '''
class S:
    def __init__(self): self.pos = 0
    def read_name(self):
        self.pos += 8
        return 'nm'
oa, ob = Rec(), Rec()
fa(S(), oa); fb(S(), ob)
print('A:', oa.calls); print('B:', ob.calls)
assert oa.calls != ob.calls
''')

add('inline_temps: value saved before `with self.section():` read inside the block', '''
def f(self):
    n = self.pos
    with self.section():
        self.write(n)
''', '''
def f(self):
    with self.section():
        self.write(self.pos)
''', '''
class CM:
    def __enter__(self): return self
    def __exit__(self, *a): return False
class S(Rec):
    def __init__(self): Rec.__init__(self); self.pos = 0
    def section(self):
        self.pos += 2          # writes a section tag
        return CM()
a, b = S(), S()
fa(a); fb(b)
print('A:', a.calls); print('B:', b.calls)
assert a.calls != b.calls
''')

# ---------------------------------------------------------------------------------------------------------------------------
# 10. loops_to_comprehensions (1160-1194): the list being built is visible to the rest of the function while the loop runs; in a
#     try body the handler / the code after it sees the partial list, the comprehension binds nothing when an element raises.
add('loops_to_comprehensions: partial result kept by the loop, lost by the comprehension (inside try)', '''
def f(self, recs):
    out = None
    try:
        out = []
        for r in recs:
            out.append(self.parse(r))
    except ValueError:
        pass
    return out
''', '''
def f(self, recs):
    out = None
    try:
        out = [self.parse(r) for r in recs]
    except ValueError:
        pass
    return out
''', '''
ra = outcome(fa, Rec(parse=[1, 2, ValueError]), 'abc'); rb = outcome(fb, Rec(parse=[1, 2, ValueError]), 'abc')
print('A:', ra); print('B:', rb)
assert ra != rb
''')

# 11. loops_to_sum (1401-1424): since Python 3.12 sum() of floats uses compensated summation, the += loop does not.
add('loops_to_sum: float accumulation loop vs sum() (different result on Python 3.12)', '''
def f(xs):
    t = 0
    for x in xs:
        t += x.w
    return t
''', '''
def f(xs):
    return sum([x.w for x in xs])
''', '''
class X:
    w = 0.1
xs = [X()] * 10
ra, rb = outcome(fa, xs), outcome(fb, xs)
print('A:', ra); print('B:', rb)
assert ra != rb
''')

# 12. loops_to_any (1263-1284): the early-return loop stops consuming its iterable at the first hit, any([.. for ..]) consumes all of it
#     (a file object / iterator passed in is left at a different position).
add('loops_to_any: early-return loop over an iterator vs any([...]) (iterator consumed to the end)', '''
def f(it):
    for line in it:
        if line == '':
            return True
    return False
''', '''
def f(it):
    return any([line == '' for line in it])
''', '''
ia, ib = iter(['a', '', 'b', 'c']), iter(['a', '', 'b', 'c'])
ra, rb = fa(ia), fb(ib)
print('A:', ra, 'left in iterator:', list(ia)); print('B:', rb, 'left in iterator:', list(ib))
''')

# 13. cx (2083-2087) and _atoms (2251-2262): any(<generator>) / all(<generator>) are given the text of the list comprehension
#     ("consumed completely and at once") - but any / all stop at the first decisive element, so the calls made differ.
add('cx / _atoms: any(generator) with calls that have side effects equals any([list]) (no short circuit)', '''
def f(self, recs):
    return any(self.check(r) for r in recs)
''', '''
def f(self, recs):
    return any([self.check(r) for r in recs])
''', '''
a, b = Rec(check=[False, True, False]), Rec(check=[False, True, False])
fa(a, [1, 2, 3]); fb(b, [1, 2, 3])
print('A calls:', a.calls); print('B calls:', b.calls)
assert a.calls != b.calls
''')

# 14. enumerate_to_index (1064-1095): enumerate(X) works on any iterable, X[i] / len(X) only on sequences - and on a dict means something else.
add('enumerate_to_index: enumerate over a dict (keys) vs d[i]', '''
def f(d, out):
    for i, k in enumerate(d):
        out.append((i, k))
''', '''
def f(d, out):
    for i in range(len(d)):
        out.append((i, d[i]))
''', '''
d = {1: 'one', 0: 'zero'}
oa, ob = [], []
print('A:', outcome(fa, d, oa), oa); print('B:', outcome(fb, d, ob), ob)
assert oa != ob
''')

# 15. return_of_assignment (880-896; `inside_try_finally` is set and never used) and seq (2424-2429): `r = E; return r` -> `return E`
#     also when a finally clause reads r.
add('return_of_assignment: `r = self.read(); return r` inside try, finally reads r', '''
def f(self):
    r = None
    try:
        r = self.read()
        return r
    finally:
        self.log(r)
''', '''
def f(self):
    r = None
    try:
        return self.read()
    finally:
        self.log(r)
''', '''
a, b = Rec(read=[42]), Rec(read=[42])
fa(a); fb(b)
print('A calls:', a.calls); print('B calls:', b.calls)
assert a.calls != b.calls
''')

# 16. try_keyerror_idioms (1244-1247): `try: v = D[k] / except KeyError: v = None` -> `v = D.get(k)` for any side-effect-free D and k;
#     when D is itself a lookup (or k contains one) its KeyError was caught by the handler and now escapes.
add('try_keyerror_idioms: nested lookup - KeyError of the outer key was handled, D[a].get(b) lets it escape', '''
def f(self, keys):
    out = []
    for k in keys:
        try:
            v = self.tab[k[0]][k[1]]
        except KeyError:
            v = None
        out.append(v)
    return out
''', '''
def f(self, keys):
    return [self.tab[k[0]].get(k[1]) for k in keys]
''', '''
class S:
    tab = {'a': {'x': 1}}
ra, rb = outcome(fa, S(), [('a', 'x'), ('b', 'x')]), outcome(fb, S(), [('a', 'x'), ('b', 'x')])
print('A:', ra); print('B:', rb)
assert ra != rb
''')

# 17. assignments_to_ifexp (1019-1032): `a, b = E` -> `a = E[0]; b = E[1]`: the length check of unpacking is lost (and E must be indexable).
add('assignments_to_ifexp: tuple unpacking (checks the length) vs two subscripts', '''
def f(self):
    lo, hi = self.span
    return hi - lo
''', '''
def f(self):
    return self.span[1] - self.span[0]
''', '''
class S:
    span = (3, 10, 99)
ra, rb = outcome(fa, S()), outcome(fb, S())
print('A:', ra); print('B:', rb)
assert ra != rb
''')

# 18. sink_bool_assign (1372-1398): the tested name need not hold a bool, but True / False are written for it inside comparisons.
add('sink_bool_assign: `v is None` computed before `if v:` becomes `True is None` / `False is None` (v may be None)', '''
def f(self, v):
    self.missing = v is None
    if v:
        self.use(v)
    else:
        self.skip()
''', '''
def f(self, v):
    if v:
        self.missing = True is None
        self.use(v)
    else:
        self.missing = False is None
        self.skip()
''', '''
a, b = Rec(), Rec()
fa(a, None); fb(b, None)
print('A: missing =', a.missing); print('B: missing =', b.missing)
assert a.missing != b.missing
''')


# ---------------------------------------------------------------------------------------------------------------------------
# 19. tree_safe_locals (2509-2522) + literal substitution in seq (2397-2404) / _subst_const: "every read lies inside the loop body
#     AFTER the assignment" is a test of positions.  When the literal assignment is CONDITIONAL (inside an `if` of the loop body) a
#     read that stands after it is also reached, in a later iteration, without passing it - with the value carried over the back
#     edge.  The substitution deletes the assignment, so the carried state disappears from the canonical tree.
add('tree_safe_locals: flag reset per iteration vs initialised once before the loop (sticky flag) - conditional literal in a loop', '''
def f(self, recs):
    for r in recs:
        bad = False
        if r.kind == 0:
            bad = True
        self.emit(r, bad)
''', '''
def f(self, recs):
    bad = False
    for r in recs:
        if r.kind == 0:
            bad = True
        self.emit(r, bad)
''', '''
class R:
    def __init__(self, k): self.kind = k
    def __repr__(self): return f'R{self.kind}'
recs = [R(1), R(0), R(2)]
a, b = Rec(), Rec()
fa(a, recs); fb(b, recs)
print('A:', a.calls); print('B:', b.calls)
assert a.calls != b.calls
''')

add('tree_safe_locals: generator state machine (in_block) - initialisation moved into the loop', '''
def f(lines):
    in_block = False
    for ln in lines:
        if ln == 'BEGIN':
            in_block = True
        elif ln == 'END':
            in_block = False
        if in_block:
            yield ln
''', '''
def f(lines):
    for ln in lines:
        in_block = False
        if ln == 'BEGIN':
            in_block = True
        elif ln == 'END':
            in_block = False
        if in_block:
            yield ln
''', '''
lines = ['x', 'BEGIN', 'a', 'b', 'END', 'y']
print('A yields:', list(fa(lines))); print('B yields:', list(fb(lines)))
assert list(fa(lines)) != list(fb(lines))
''')

add('tree_safe_locals: conditional literal in a loop equals the stateless version (carried mode lost)', '''
def f(self, xs):
    mode = 1
    for x in xs:
        if x.reset:
            mode = 0
        self.use(mode)
''', '''
def f(self, xs):
    for x in xs:
        if x.reset:
            self.use(0)
        else:
            self.use(1)
''', '''
class X:
    def __init__(self, r): self.reset = r
xs = [X(False), X(True), X(False)]
a, b = Rec(), Rec()
fa(a, xs); fb(b, xs)
print('A:', a.calls); print('B:', b.calls)
assert a.calls != b.calls
''')

add('tree_safe_locals: nested loops - flag per row vs flag for the whole table', '''
def f(self, rows):
    for row in rows:
        seen_null = False
        for c in row:
            if c is None:
                seen_null = True
            self.emit(c, seen_null)
''', '''
def f(self, rows):
    seen_null = False
    for row in rows:
        for c in row:
            if c is None:
                seen_null = True
            self.emit(c, seen_null)
''', '''
rows = [[None, 1], [2]]
a, b = Rec(), Rec()
fa(a, rows); fb(b, rows)
print('A:', a.calls); print('B:', b.calls)
assert a.calls != b.calls
''')

# 20. inline_helpers (523-548): a default value of the helper is evaluated once, when the helper is defined; the pasted body
#     evaluates a copy of it on every call (mutable default used as a cache / accumulator).
add('inline_helpers: helper with a mutable default used as a cache is pasted with a fresh dict per call', '''
def f(self, key):
    return self._lookup(key)
''', '''
def f(self, key):
    cache = {}
    if key not in cache:
        cache[key] = self.compute(key)
    return cache[key]
''', '''
src_h = HELPER
class A(Rec): pass
class B(Rec): pass
ns = {}
exec(src_h, ns)
A._lookup = ns['_lookup']; A.f = fa
B.f = fb
a, b = A(compute=lambda k: k * 2), B(compute=lambda k: k * 2)
a.f(3); a.f(3); b.f(3); b.f(3)
print('A calls:', a.calls); print('B calls:', b.calls)
assert a.calls != b.calls
''', {'helpers_a': 'def _lookup(self, key, cache={}):\n    if key not in cache:\n        cache[key] = self.compute(key)\n    return cache[key]'})

# 21. sort_independent_runs / written_chains (190-192): `.extend(it)` is taken to only read its argument; an iterator is consumed by it.
add('sort_independent_runs: two extend() calls fed from one iterator put in the other order', '''
def f(self, it):
    self.a.extend(it)
    self.b.extend(it)
''', '''
def f(self, it):
    self.b.extend(it)
    self.a.extend(it)
''', '''
class S:
    def __init__(self): self.a = []; self.b = []
a, b = S(), S()
fa(a, iter([1, 2])); fb(b, iter([1, 2]))
print('A: a, b =', a.a, a.b); print('B: a, b =', b.a, b.b)
assert (a.a, a.b) != (b.a, b.b)
''')


# 22. seq, With (2380-2390): `return <name or attribute chain>` after a with block is put inside the block ("the value is computed inside
#     either way") - but an attribute of the managed object read after the block is read after __exit__ ran.
add('seq/with: `return s.length` after the with block (after __exit__) equals the return inside the block', '''
def f(self):
    with self.section() as s:
        s.write(1)
    return s.length
''', '''
def f(self):
    with self.section() as s:
        s.write(1)
        return s.length
''', '''
class Sec:
    length = None
    def __enter__(self): self.n = 0; return self
    def write(self, v): self.n += 1
    def __exit__(self, *a): self.length = self.n; return False      # the length is known when the section is closed
class S:
    def section(self): return Sec()
ra, rb = outcome(fa, S()), outcome(fb, S())
print('A:', ra); print('B:', rb)
assert ra != rb
''')

# 23. (borderline: aliasing) _assume (2326): "assignments that cannot change what c reads" is decided on the text of the target; a local
#     that the same function bound to the tested object (`st = self.state`) is another text.
add('assume (borderline, alias made in the same function): self.state.open retested after `st.open = False`, st = self.state', '''
def f(self, xs):
    st = self.state
    for x in xs:
        if self.state.open:
            st.open = False
            if self.state.open:
                self.g(x)
''', '''
def f(self, xs):
    st = self.state
    for x in xs:
        if self.state.open:
            st.open = False
            self.g(x)
''', '''
class St: open = True
a, b = Rec(), Rec(); a.state, b.state = St(), St()
fa(a, [1, 2]); fb(b, [1, 2])
print('A calls:', a.calls); print('B calls:', b.calls)
assert a.calls != b.calls
''')


# ---------------------------------------------------------------------------------------------------------------------------
def _helpers(hs):
    if not hs:
        return None
    out = {}
    for src in ([hs] if isinstance(hs, str) else hs):
        h = ast.parse(src).body[0]
        out[h.name] = (h, bool(h.args.args) and h.args.args[0].arg == 'self' or any(isinstance(d, ast.Name) and d.id == 'staticmethod' for d in h.decorator_list))
    return out


def same(a, b, **kw):
    from tdstatic import equiv
    equiv.REPO_DEFINED[0] = frozenset()
    ca = equiv.canonical(ast.parse(a).body[0], _helpers(kw.get('helpers_a')), dicts=kw.get('dicts'), sized=kw.get('sized'), props=kw.get('props'))
    cb = equiv.canonical(ast.parse(b).body[0], _helpers(kw.get('helpers_b')), dicts=kw.get('dicts'), sized=kw.get('sized'), props=kw.get('props'))
    return ca is not None and ca == cb


if __name__ == '__main__':
    bad = 0
    for k, (title, a, b, kw) in enumerate(FINDINGS, 1):
        r = same(a, b, **(kw or {}))
        print(f'--- {k}. {title}')
        print(f'    same(A, B) = {r}')
        ns = {}
        exec(STUBS, ns)
        ns['Retry'] = type('Retry', (Exception,), {})
        ns['HELPER'] = (kw or {}).get('helpers_a') or ''
        exec(a, ns); ns['fa'] = ns.pop('f')
        exec(b, ns); ns['fb'] = ns.pop('f')
        try:
            exec(DEMOS[title], ns)
        except AssertionError:
            print('    !! demo shows NO difference')
            bad += 1
        if not r:
            bad += 1
    print(f'{len(FINDINGS)} findings, {bad} not confirmed')
