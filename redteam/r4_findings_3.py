"""Round 4, agent 3: the gate (gate.py) end to end, with whole modules.

FINDINGS      = [(title, src_a, src_b, kwargs_or_None)]   function-level pairs: none this round (focus was the gate), kept for the format.
GATE_FINDINGS = [(title, current_module_src, reference_module_src, qualname)]   every one is taken as equivalent NOW
                (qualname in gate.apply(cur, ref)).
DRIVERS[title] = source defining run(ns) (and optionally setup(), which installs the stub modules the pair imports).
KIND[title]   = 'sym'  : the two MODULES behave differently on the driver (classic A != B taken as equal)
                'asym' : the current module as it runs differs from the current module AS THE ANALYSER SEES IT after gate.apply
                         (reference body put into f, helpers dropped / restored) - the tree that is analysed is not the program.
STEP[title]   = the step held responsible (line numbers of /tmp/redteam4/3/tdstatic).
GATE_REPO[title] = {module name: source} other repository modules the pair imports from (written to a scratch TD_REPO for the
                `cur` side and handed to gate._REF for the `ref` side, as in production).

Run:  /venv/bin/python /tmp/redteam4/3/findings.py
"""
import ast
import os
import sys
import tempfile
import textwrap

sys.path.insert(0, os.path.dirname(os.path.dirname(os.path.abspath(__file__))))
from tdstatic import equiv, gate, loader  # noqa: E402

equiv.REPO_DEFINED[0] = frozenset()

FINDINGS = []
GATE_FINDINGS = []
DRIVERS, KIND, STEP, GATE_REPO = {}, {}, {}, {}


def same(a, b, **kw):
    ca = equiv.canonical(ast.parse(a).body[0], kw.get('helpers_a'), dicts=kw.get('dicts'), sized=kw.get('sized'), props=kw.get('props'))
    cb = equiv.canonical(ast.parse(b).body[0], kw.get('helpers_b'), dicts=kw.get('dicts'), sized=kw.get('sized'), props=kw.get('props'))
    return ca is not None and ca == cb


def G(title, cur, ref, q, driver, kind='asym', step='', repo=None):
    GATE_FINDINGS.append((title, textwrap.dedent(cur).lstrip('\n'), textwrap.dedent(ref).lstrip('\n'), q))
    DRIVERS[title] = textwrap.dedent(driver)
    KIND[title] = kind
    STEP[title] = step
    if repo:
        GATE_REPO[title] = repo


def _stub(name, src):
    return ('import sys, types\ndef setup():\n    m = types.ModuleType(%r)\n    exec(%r, m.__dict__)\n    sys.modules[%r] = m\n' % (name, src, name))


# ======================================================================================================================
# 1. The reference body is read inside the CURRENT module, but only the names of rf itself are checked (constants), and
#    nothing at all is checked for what was folded in through a restored helper, a pasted callee, or a property.
# ======================================================================================================================
S1 = ('gate.apply l.347-349: the "constants must have the value they had" check looks at the names of rf only; the helper that is RESTORED '
      '(l.388-403) / the unchanged callee that was PASTED into rf (only_r, l.336) is folded with ref_consts by canonical() and then read with the current value')
G('C1 byte-order constant changed, f keeps the old literal (stale value); the restored helper reads the NEW constant',
  '''
  import struct
  FMT = ">H"
  def f(b):
      return struct.unpack("<H", b[:2])[0] + 1
  ''', '''
  import struct
  FMT = "<H"
  def _u16(b):
      return struct.unpack(FMT, b[:2])[0]
  def f(b):
      return _u16(b) + 1
  ''', 'f', 'def run(ns): return ns["f"](b"\\x01\\x02")', step=S1)
G('C2 header size changed 4 -> 8, f has the old size inlined; gone helper restored',
  '''
  K = 8
  def f(x):
      return x + 4
  ''', '''
  K = 4
  def _h(x):
      return x + K
  def f(x):
      return _h(x)
  ''', 'f', 'def run(ns): return ns["f"](1)', step=S1)
G('C3 the same through a callee that is textually the same in both versions (pasted into rf by the second path): it reads the changed constant',
  '''
  K = 8
  def g(x):
      return x + K
  def f(x):
      return (x + 4) * 2
  ''', '''
  K = 4
  def g(x):
      return x + K
  def f(x):
      return g(x) * 2
  ''', 'f', 'def run(ns): return ns["f"](1)', step=S1)

S2 = ('gate.apply l.317-318, 329: cur_props / ref_props are each used for their own side and there is NO check like l.347-349 for them: rf is '
      'canonicalised with the property as the REFERENCE module defines it, then read in a module where the property means something else')
G('P1 property changed (size is now len - 1); f no longer uses it and computes the old value; the analyser reads `self.size * 2` with the new property',
  '''
  class R:
      def __init__(self): self._rows = [1, 2, 3]
      @property
      def size(self):
          return len(self._rows) - 1
      def f(self):
          return len(self._rows) * 2
  ''', '''
  class R:
      def __init__(self): self._rows = [1, 2, 3]
      @property
      def size(self):
          return len(self._rows)
      def f(self):
          return self.size * 2
  ''', 'R.f', 'def run(ns): return ns["R"]().f()', step=S2)
G('P2 the same through a restored helper',
  '''
  class R:
      def __init__(self): self._rows = [1, 2, 3]
      @property
      def size(self):
          return len(self._rows) - 1
      def f(self):
          return len(self._rows) * 2
  ''', '''
  class R:
      def __init__(self): self._rows = [1, 2, 3]
      @property
      def size(self):
          return len(self._rows)
      def _twice(self):
          return self.size * 2
      def f(self):
          return self._twice()
  ''', 'R.f', 'def run(ns): return ns["R"]().f()', step=S2)
G('P3 the same through an unchanged callee pasted into rf',
  '''
  class R:
      def __init__(self): self._rows = [1, 2, 3]
      @property
      def size(self):
          return len(self._rows) - 1
      def last(self):
          return self.size - 1
      def f(self):
          return self._rows[len(self._rows) - 1]
  ''', '''
  class R:
      def __init__(self): self._rows = [1, 2, 3]
      @property
      def size(self):
          return len(self._rows)
      def last(self):
          return self.size - 1
      def f(self):
          return self._rows[self.last()]
  ''', 'R.f', 'def run(ns): return ns["R"]().f()', step=S2)
G('P4 property replaced by a plain attribute set once in __init__ (never updated); f computes afresh; the analyser reads the stale attribute',
  '''
  class R:
      def __init__(self):
          self._rows = []
          self.size = 0
      def add(self, x):
          self._rows.append(x)
      def f(self):
          return len(self._rows) * 2
  ''', '''
  class R:
      def __init__(self):
          self._rows = []
      @property
      def size(self):
          return len(self._rows)
      def add(self, x):
          self._rows.append(x)
      def f(self):
          return self.size * 2
  ''', 'R.f', 'def run(ns):\n    r = ns["R"](); r.add(1); r.add(2)\n    return r.f()', step=S2)

G('D1 (contrived) module dict display became a registry object without .get; rf `TABLE.get(k)` was rewritten with the dict facts of the REFERENCE module',
  '''
  class Registry:
      def __init__(self): self.d = {}
      def __contains__(self, k): return k in self.d
      def __getitem__(self, k): return self.d[k]
  TABLE = Registry()
  def f(k):
      return TABLE[k] if k in TABLE else None
  ''', '''
  TABLE = {}
  def f(k):
      return TABLE.get(k)
  ''', 'f', 'def run(ns): return ns["f"]("a")',
  step='gate.canonical_pair l.287 / l.291: module_dicts(cur_tree) / module_dicts(ref_tree) per side, not intersected (sized / seqs are, l.275-278)')

# ======================================================================================================================
# 2. "the same function in both versions" is decided by _dump(), which leaves the decorators out
# ======================================================================================================================
S3 = ('gate._dump l.47-48 (body + args, no decorator_list) used by l.335-336 (`same in both versions` -> pasted from the reference tree, where it is '
      'undecorated and passes _simple_helper) and by changed_fns l.350')
_CLAMP = '''
  def clamp(fn):
      def w(x):
          return min(fn(x), 3)
      return w
'''
G('X1 a decorator was added to the callee (clamps the result); the caller has the old body inlined; the analyser reads `g(x) * 2` with the decorated g',
  _CLAMP + '''
  @clamp
  def g(x):
      return x + 1
  def f(x):
      return (x + 1) * 2
  ''', _CLAMP + '''
  def g(x):
      return x + 1
  def f(x):
      return g(x) * 2
  ''', 'f', 'def run(ns): return ns["f"](10)', step=S3)
G('X2 the callee lost its @staticmethod',
  '''
  class R:
      def g(x):
          return x + 1
      def f(self, x):
          return (x + 1) * 2
  ''', '''
  class R:
      @staticmethod
      def g(x):
          return x + 1
      def f(self, x):
          return self.g(x) * 2
  ''', 'R.f', 'def run(ns): return ns["R"]().f(10)', step=S3)
_ONCE = '''
  def once(fn):
      memo = {}
      def w(self):
          if 0 not in memo:
              memo[0] = fn(self)
          return memo[0]
      return w
'''
G('X3 a memoising decorator was added to the method that advances the position',
  _ONCE + '''
  class R:
      def __init__(self): self.pos = 0
      @once
      def _next(self):
          self.pos += 2
          return self.pos
      def f(self):
          self.pos += 2
          return self.pos * 10
  ''', _ONCE + '''
  class R:
      def __init__(self): self.pos = 0
      def _next(self):
          self.pos += 2
          return self.pos
      def f(self):
          return self._next() * 10
  ''', 'R.f', 'def run(ns):\n    r = ns["R"]()\n    return (r.f(), r.f())', step=S3)

# ======================================================================================================================
# 3. Helpers dropped from the analysed tree although they change what the CLASS / MODULE does
# ======================================================================================================================
_TMPL = '''class Template:
    def __init__(self):
        self.pos = 5
        self.n = 7
    def _reset(self):
        self.pos = -1
    def rewind(self):
        self._reset()
        return (self.pos, self.n)
    def read(self):
        return self.pos
'''
S4 = ('gate.apply l.368-385: a new helper is dropped when no Name / Attribute of the current tree spells it; gate._ctx l.249-255 (other_class_methods) '
      'and gate._own l.214 know the classes of THIS module only, so a hook of a base class of another module (read or not) that the new helper overrides is not seen')
G('O1 extract-method gives the new helper the name of a hook of the (imported, unreadable) base class: the template method of the base now runs the override; '
  'the analyser drops it (-R._reset)',
  '''
  from base import Template
  class R(Template):
      def _reset(self):
          self.pos = 0
          self.n = 0
      def f(self):
          self._reset()
          return self.read()
  ''', '''
  from base import Template
  class R(Template):
      def f(self):
          self.pos = 0
          self.n = 0
          return self.read()
  ''', 'R.f', _stub('base', _TMPL) + 'def run(ns): return ns["R"]().rewind()', step=S4)
G('O2 the same with a base class of another repository module that the gate DOES read',
  '''
  from tmpl import Template
  class R(Template):
      def _reset(self):
          self.pos = 0
          self.n = 0
      def f(self):
          self._reset()
          return self.read()
  ''', '''
  from tmpl import Template
  class R(Template):
      def f(self):
          self.pos = 0
          self.n = 0
          return self.read()
  ''', 'R.f', _stub('tmpl', _TMPL) + 'def run(ns): return ns["R"]().rewind()', step=S4, repo={'tmpl': _TMPL})

S5 = 'gate.apply l.373-380: `still` looks for Name / Attribute nodes only; a method reached BY NAME (getattr dispatch, dir(), hasattr, type(self).__dict__) counts as unreferenced'
_DISP = '''
      def dispatch(self, tag, x):
          h = getattr(self, '_read_' + tag, None)
          if h is None:
              return None
          return h(x)
'''
G('N1 record dispatch by name: the extracted helper `_read_hdr` becomes a handler for tag "hdr"; dropped from the analysed tree',
  '''
  class R:''' + _DISP + '''
      def _read_hdr(self, x):
          return x[0] + x[1]
      def f(self, x):
          return self._read_hdr(x) * 2
  ''', '''
  class R:''' + _DISP + '''
      def f(self, x):
          return (x[0] + x[1]) * 2
  ''', 'R.f', 'def run(ns): return ns["R"]().dispatch("hdr", [1, 2])', step=S5)
G('N2 handler table built from dir(R)',
  '''
  class R:
      def _read_hdr(self, x):
          return x[0] + x[1]
      def f(self, x):
          return self._read_hdr(x) * 2
  HANDLERS = sorted(n[6:] for n in dir(R) if n.startswith('_read_'))
  ''', '''
  class R:
      def f(self, x):
          return (x[0] + x[1]) * 2
  HANDLERS = sorted(n[6:] for n in dir(R) if n.startswith('_read_'))
  ''', 'R.f', 'def run(ns): return ns["HANDLERS"]', step=S5)
G('N3 hasattr probe for an optional hook; the new helper happens to bear that name',
  '''
  class R:
      def finish(self):
          if hasattr(self, "_flush"):
              return "flushed"
          return "plain"
      def _flush(self):
          self.buf = []
          self.n = 0
      def f(self):
          self._flush()
          return self.n
  ''', '''
  class R:
      def finish(self):
          if hasattr(self, "_flush"):
              return "flushed"
          return "plain"
      def f(self):
          self.buf = []
          self.n = 0
          return self.n
  ''', 'R.f', 'def run(ns): return ns["R"]().finish()', step=S5)
G('N4 getattr(self, "_norm") with a literal name',
  '''
  class R:
      def _norm(self, b):
          return b[:]
      def g(self, b):
          return getattr(self, "_norm")(b)
      def f(self, b):
          return self._norm(b) + [0]
  ''', '''
  class R:
      def g(self, b):
          return getattr(self, "_norm")(b)
      def f(self, b):
          return b[:] + [0]
  ''', 'R.f', 'def run(ns): return ns["R"]().g([1])', step=S5)
G('N5 (residual of G-R8) a brand-new PUBLIC method `close` (buggy: forgets to close the file) is dropped because the gated f happens to spell `.close` on another object '
  'and the reference spelling hides that mention inside a helper that is restored only AFTER the drop loop',
  '''
  class R:
      def close(self):
          self.fh = None
          self.closed = True
      def f(self):
          self.fh.flush()
          self.fh.close()
          return 1
  ''', '''
  class R:
      def _shut(self):
          self.fh.flush()
          self.fh.close()
      def f(self):
          self._shut()
          return 1
  ''', 'R.f', 'def run(ns): return hasattr(ns["R"], "close")',
  step='gate.apply l.362 (pasted_from = every Name / attribute spelled by the gated body, not the helpers actually pasted), l.368-385 run before l.388-403')

# ======================================================================================================================
# 4. Functions RESTORED into the analysed tree although the current module really lacks them
# ======================================================================================================================
S6 = ('gate.apply l.388-403: a function of the reference only is put back whenever ANY function was gated and ANY Name / Attribute of the current tree spells its name; '
      'that the current module no longer has it (so the call now fails, or reaches the base class) is exactly the regression')
G('R1 a function was deleted although g still calls it (NameError at run time); an unrelated function f was refactored; the analyser sees `_scale` restored',
  '''
  def g(x):
      return _scale(x) + 1
  def f(x):
      y = x * 2
      return y
  ''', '''
  def _scale(x):
      return x * 10
  def g(x):
      return _scale(x) + 1
  def f(x):
      return x * 2
  ''', 'f', 'def run(ns): return ns["g"](1)', step=S6)
G('R2 an override was deleted from the subclass (calls now reach the base, which moves the other way); unrelated f refactored; the override is restored for the analyser',
  '''
  class B:
      def __init__(self): self.pos = 5
      def _skip(self, n):
          self.pos -= n
      def step(self):
          self._skip(1)
          return self.pos
  class S(B):
      def f(self, x):
          y = x * 2
          return y
  ''', '''
  class B:
      def __init__(self): self.pos = 5
      def _skip(self, n):
          self.pos -= n
      def step(self):
          self._skip(1)
          return self.pos
  class S(B):
      def _skip(self, n):
          self.pos += n
      def f(self, x):
          return x * 2
  ''', 'S.f', 'def run(ns): return ns["S"]().step()', step=S6)
G('R3 the helper that overrode a hook of the imported base was inlined into its only visible caller: the base template method lost the override; the analyser puts it back',
  '''
  from base import Template
  class R(Template):
      def f(self):
          self.pos = 0
          self.n = 0
          return self.read()
  ''', '''
  from base import Template
  class R(Template):
      def _reset(self):
          self.pos = 0
          self.n = 0
      def f(self):
          self._reset()
          return self.read()
  ''', 'R.f', _stub('base', _TMPL) + 'def run(ns): return ns["R"]().rewind()', step=S6)
_BSKIP = 'class Base:\n    def __init__(self):\n        self.pos = 5\n    def _skip(self, n, *more):\n        self.pos -= n\n'
G('R4 override removed, the call in f now reaches the base method (which moves backwards); the helper has *args (not pasteable) so both texts keep the call',
  '''
  from base import Base
  class R(Base):
      def f(self, n):
          self._skip(n)
          return self.pos
  ''', '''
  from base import Base
  class R(Base):
      def _skip(self, n, *more):
          self.pos += n
      def f(self, n):
          self._skip(n)
          p = self.pos
          return p
  ''', 'R.f', _stub('base', _BSKIP) + 'def run(ns): return ns["R"]().f(2)', kind='sym', step=S6)
G('R5 public method removed while `done` still calls it; `.close` is also spelled on another object; unrelated f refactored',
  '''
  class R:
      def done(self):
          self.fh.close()
          return self.close()
      def f(self, x):
          y = x * 2
          return y
  ''', '''
  class R:
      def close(self):
          self.closed = True
          return 1
      def done(self):
          self.fh.close()
          return self.close()
      def f(self, x):
          return x * 2
  ''', 'R.f', 'class FH:\n    def close(self): pass\ndef run(ns):\n    r = ns["R"](); r.fh = FH()\n    return r.done()', step=S6)

# ======================================================================================================================
# 5. Helper names rebound by means that _rebound_names does not see
# ======================================================================================================================
S7 = ('gate._rebound_names l.72-108: only syntactic stores (Name / Attribute targets, imports, global, second def) count; setattr(obj, computed_name, ..) '
      '- the usual way to pick the byte order once per reader - an `except .. as name`, a class statement of the same name do not')
_BO = '''
      def __init__(self, order):
          for n in ('u16', 'u32'):
              setattr(self, '_' + n, getattr(self, '_' + n + '_' + order))
      def _u16_le(self, b):
          return b[0] | b[1] << 8
      def _u16_be(self, b):
          return b[1] | b[0] << 8
      def _u32_le(self, b):
          return 0
      def _u32_be(self, b):
          return 0
'''
G('S1 (classic A != B) the reference calls self._u16(), which __init__ replaces per instance through setattr (big-endian reader); the current version has the '
  'little-endian class default inlined: every big-endian file is now misread',
  '''
  class R:''' + _BO + '''
      def f(self, b):
          return (b[0] | b[1] << 8) + 1
  ''', '''
  class R:''' + _BO + '''
      def _u16(self, b):
          return b[0] | b[1] << 8
      def f(self, b):
          return self._u16(b) + 1
  ''', 'R.f', 'def run(ns): return ns["R"]("be").f([1, 2])', kind='sym', step=S7)
G('S2 the mirror case: the current version introduces self._u16() (replaced per instance through setattr), the reference had the little-endian read inline',
  '''
  class R:''' + _BO + '''
      def _u16(self, b):
          return b[0] | b[1] << 8
      def f(self, b):
          return self._u16(b) + 1
  ''', '''
  class R:''' + _BO + '''
      def f(self, b):
          return (b[0] | b[1] << 8) + 1
  ''', 'R.f', 'def run(ns): return ns["R"]("be").f([1, 2])', kind='sym', step=S7)
G('S3 method patched from module level through setattr(R, "_norm", R._skip)',
  '''
  class R:
      def _skip(self, b):
          return b[1:]
      def _norm(self, b):
          return b[:]
      def f(self, b):
          return self._norm(b) + [0]
  setattr(R, '_norm', R._skip)
  ''', '''
  class R:
      def _skip(self, b):
          return b[1:]
      def f(self, b):
          return b[:] + [0]
  setattr(R, '_norm', R._skip)
  ''', 'R.f', 'def run(ns): return ns["R"]().f([1, 2])', kind='sym', step=S7)
G('S4 (contrived) a class statement of the same name follows the def',
  '''
  def _norm(b):
      return b[:]
  class _norm:
      def __init__(self, b): self.b = b[1:]
  def f(b):
      return _norm(b)
  ''', '''
  class _norm:
      def __init__(self, b): self.b = b[1:]
  def f(b):
      return b[:]
  ''', 'f', 'def run(ns): return type(ns["f"]([1, 2])).__name__', kind='sym', step=S7)
G('S5 (contrived) `except ImportError as _norm` unbinds the helper',
  '''
  def _norm(b):
      return b[:]
  try:
      import _no_such_speedups
  except ImportError as _norm:
      pass
  def f(b):
      return _norm(b) + [0]
  ''', '''
  try:
      import _no_such_speedups
  except ImportError as _norm:
      pass
  def f(b):
      return b[:] + [0]
  ''', 'f', 'def run(ns): return ns["f"]([1, 2])', kind='sym', step=S7)

# ======================================================================================================================
# 6. Base classes of another module: properties and attribute hooks of the base are not in the tables
# ======================================================================================================================
_BASEMOD = ('class Base:\n    def __init__(self, d): self._data = d; self._base = 0; self._off = 0\n'
            '    @property\n    def pos(self): return self._base + self._off\n')
_RD = '''
  from basemod import Base
  class Reader(Base):
      def read(self, n):
%s
'''
_RA = "          self._off += n\n          return self._data[self.pos:self.pos + n]"
_RB = "          start = self.pos\n          self._off += n\n          return self._data[start:start + n]"
S8 = ('gate._ctx l.264-265: all_props = the properties of THIS module (+ "*" only when a base is unreadable); when the base class is found in another repository '
      'module (gate._class_scope l.159-188 reads it for the sized facts) its properties / __getattr__ / __setattr__ are not added, so `self.pos` is a plain attribute '
      'that `self._off += n` cannot disturb (round-1 P1 / round-2 GP4 / round-3 K3-K5 reopened for the most common production shape, `from TotalDepth.x import Base`)')
G('B1 (classic A != B) property inherited from a base class of another repository module that the gate reads: read position taken before / after the advance',
  _RD % _RA, _RD % _RB, 'Reader.read', _stub('basemod', _BASEMOD) + 'def run(ns): return ns["Reader"](b"abcdef").read(2)', kind='sym', step=S8, repo={'basemod': _BASEMOD})
_HOOK = ('class Tracked:\n    def __setattr__(self, k, v):\n        object.__setattr__(self, k, v)\n        object.__setattr__(self, "dirty", True)\n'
         'class Lazy:\n    def __getattr__(self, k):\n        if k == "total":\n            return sum(self.rows)\n        raise AttributeError(k)\n')
G('B2 (classic A != B) __setattr__ of a base class of another repository module marks the object dirty',
  '''
  from hookmod import Tracked
  class R(Tracked):
      def f(self):
          self.n = 1
          return self.dirty
  ''', '''
  from hookmod import Tracked
  class R(Tracked):
      def f(self):
          t = self.dirty
          self.n = 1
          return t
  ''', 'R.f', _stub('hookmod', _HOOK) + 'def run(ns):\n    r = ns["R"]()\n    object.__setattr__(r, "dirty", False)\n    return r.f()\n', kind='sym', step=S8, repo={'hookmod': _HOOK})
G('B3 (classic A != B) __getattr__ of a base class of another repository module computes `total` from self.rows',
  '''
  from hookmod import Lazy
  class R(Lazy):
      def f(self, x):
          self.rows.append(x)
          return self.total
  ''', '''
  from hookmod import Lazy
  class R(Lazy):
      def f(self, x):
          t = self.total
          self.rows.append(x)
          return t
  ''', 'R.f', _stub('hookmod', _HOOK) + 'def run(ns):\n    r = ns["R"]()\n    r.rows = [5]\n    return r.f(2)\n', kind='sym', step=S8, repo={'hookmod': _HOOK})
_OPTS = '''
  class Opts:
      def __init__(self, **kw):
          for k, v in kw.items():
              setattr(self, k, v)
'''
_RD2 = '''
  import basemod
''' + _OPTS + '''
  class Reader(basemod.Base):
      def read(self, n):
%s
'''
G('B4 (classic A != B) round-2 GP4 (unreadable base, `import basemod; class Reader(basemod.Base)`) reopens as soon as the module mentions setattr anywhere: '
  'gate._sized returns before it resets / computes _UNRESOLVED, canonical_pair reads the flag left by the previous function (False after a module whose bases resolve)',
  _RD2 % _RA, _RD2 % _RB, 'Reader.read', _stub('basemod', _BASEMOD) + 'def run(ns): return ns["Reader"](b"abcdef").read(2)', kind='sym',
  step='gate._sized l.224-227 (early return when module_bad_attrs is None, before `_UNRESOLVED[0] = False` / _class_scope) and canonical_pair l.270-273, 279 (u1 / u2 are stale)')


# ======================================================================================================================
def _prepare_repo(title):
    """the other repository modules of a pair: files under a scratch TD_REPO for the current side, gate._REF for the reference"""
    repo = GATE_REPO.get(title, {})
    root = tempfile.mkdtemp(prefix='rt4_repo_')
    os.makedirs(os.path.join(root, 'src'))
    for name, src in repo.items():
        with open(os.path.join(root, 'src', name + '.py'), 'w') as fh:
            fh.write(src)
    loader.REPO = root
    gate._REF = dict(repo)
    gate._PARSED.clear()
    import atexit, shutil
    atexit.register(shutil.rmtree, root, True)
    # the state a previous, unremarkable module leaves behind (see B4)
    gate.apply(ast.parse('class A:\n    def f(self, x):\n        y = x\n        return y\n'), ast.parse('class A:\n    def f(self, x):\n        return x\n'), lambda t: None)


def gated(title, cur, ref):
    _prepare_repo(title)
    equiv.REPO_DEFINED[0] = frozenset()
    t = ast.parse(cur)
    g = gate.apply(t, ast.parse(ref), lambda t_: None)
    ast.fix_missing_locations(t)
    return g, ast.unparse(t)


def _run(src, driver):
    ns, d = {'__name__': 'm'}, {}
    try:
        exec(driver, d)
        if 'setup' in d:
            d['setup']()
        exec(src, ns)
        return repr(d['run'](ns))
    except Exception as e:
        return f'raises {type(e).__name__}: {e}'


def main():
    bad = 0
    for title, cur, ref, q in GATE_FINDINGS:
        print('=' * 120)
        print(title)
        g, seen = gated(title, cur, ref)
        ok = q in g
        print('  gate.apply(cur, ref) ->', g, '' if ok else '   (NOT gated)')
        a, b, c = _run(cur, DRIVERS[title]), _run(seen, DRIVERS[title]), _run(ref, DRIVERS[title])
        print(f'  current module        : {a}\n  as analysed after gate: {b}\n  reference module      : {c}')
        differs = (a != c) if KIND[title] == 'sym' else (a != b)
        print('  kind:', KIND[title], '| differs:', differs)
        print('  step:', STEP[title])
        if not (ok and differs):
            bad += 1
            print('  *** NOT CONFIRMED')
    print('=' * 120)
    print(f'{len(GATE_FINDINGS)} gate findings, {bad} not confirmed; {len(FINDINGS)} function-level findings')
    return bad


if __name__ == '__main__':
    sys.exit(1 if main() else 0)
