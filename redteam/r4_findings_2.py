"""Red-team round 4, agent 2, against tdstatic/equiv.py - focus: statement-level and tree-level steps, interactions between steps.

FINDINGS = [(title, src_a, src_b, kwargs_dict_or_None), ...]   -- every pair has same(A, B) == True and behaves differently.
DEMOS[title]  = source of `run(f)`: builds the stubs, calls f, returns the observable outcome (exceptions are caught by the driver).
WHERE[title]  = the step of equiv.py held responsible (line numbers of /tmp/redteam4/2/tdstatic/equiv.py).
GATE_FINDINGS = [(title, current_module_src, reference_module_src, qualname), ...]  -- the same pairs as whole modules (a method
                `f(self, ..)` is put into `class K`), all taken as equivalent by gate.apply (production path with its own context).
Run:  /venv/bin/python /tmp/redteam4/2/findings.py
"""
import ast
import os
import sys
import textwrap

_ALL = []


def F(title, a, b, demo, kw=None, where=''):
    _ALL.append((title, textwrap.dedent(a).strip() + '\n', textwrap.dedent(b).strip() + '\n', kw, textwrap.dedent(demo), where))


# ===========================================================================================================================
# A. Statement-level steps that move an assignment of a local across a call WITHOUT asking whether a nested scope (lambda,
#    nested def, lazily run generator expression) reads that local.  Every other step asks _has_nested_scope_use(); these
#    three do not, and the call in between can run the closure.
# ===========================================================================================================================
W_A1 = 'equiv.py:1673-1685 assignments_to_ifexp, "default then override" (`t = B; if c: t = A` -> `t = A if c else B`): the test c may be any call (only its written chains are compared with what B reads); no _has_nested_scope_use(func, ta) - a closure run by the call sees t == B in one spelling and the older value in the other'
F('A1 default-then-override: the call in the test runs a lambda that reads the local',
  '''
  def f(self):
      t = 5
      cb = lambda: t
      t = 0
      if self.g(cb):
          t = 1
      return t
  ''', '''
  def f(self):
      t = 5
      cb = lambda: t
      t = 1 if self.g(cb) else 0
      return t
  ''', '''
  class S:
      def g(self, cb):
          self.seen = cb()
          return True
  def run(f):
      s = S()
      return f(s), s.seen
  ''', where=W_A1)
F('A2 default-then-override: progress callback (nested def kept on self) reads the status local during the parse call',
  '''
  def f(self, src):
      status = 'idle'
      def report():
          return status
      self.on_progress = report
      status = 'failed'
      if self.parse(src):
          status = 'ok'
      return status
  ''', '''
  def f(self, src):
      status = 'idle'
      def report():
          return status
      self.on_progress = report
      status = 'ok' if self.parse(src) else 'failed'
      return status
  ''', '''
  class S:
      def parse(self, src):
          self.seen = self.on_progress()
          return True
  def run(f):
      s = S(); r = f(s, 'x'); return r, s.seen
  ''', where=W_A1)
F('A3 default-then-override: a generator expression kept on self reads the local when the call in the test advances it',
  '''
  def f(self, xs):
      scale = 1
      self.it = (x * scale for x in xs)
      scale = 2
      if self.peek():
          scale = 3
      return scale
  ''', '''
  def f(self, xs):
      scale = 1
      self.it = (x * scale for x in xs)
      scale = 3 if self.peek() else 2
      return scale
  ''', '''
  class S:
      def peek(self):
          self.first = next(self.it)
          return True
  def run(f):
      s = S(); r = f(s, [10, 20]); return r, s.first
  ''', where=W_A1)
W_A2 = 'equiv.py:1629-1642 assignments_to_ifexp, tuple display split (`a, b = x, y` -> `a = x; b = y`): for name targets outside a try any values are accepted (l.1633); no _has_nested_scope_use on the targets - in the tuple form a is still the old value while y is evaluated, after the split it is already x'
F('A4 tuple assignment split: the second value is a call that runs a nested function reading the first target',
  '''
  def f(self):
      a = 0
      def cb():
          return a
      a, b = 1, self.h(cb)
      return a, b
  ''', '''
  def f(self):
      a = 0
      def cb():
          return a
      a = 1
      b = self.h(cb)
      return a, b
  ''', '''
  class S:
      def h(self, cb): return cb()
  def run(f): return f(S())
  ''', where=W_A2)
F('A5 tuple assignment split: lambda kept on self reads the counter while the record is decoded',
  '''
  def f(self, rec):
      n = 0
      self.cb = lambda: n
      self.cb2 = self.cb
      n, v = 1, self.decode_rec(rec)
      return n, v
  ''', '''
  def f(self, rec):
      n = 0
      self.cb = lambda: n
      self.cb2 = self.cb
      n = 1
      v = self.decode_rec(rec)
      return n, v
  ''', '''
  class S:
      def decode_rec(self, rec): return self.cb()
  def run(f): return f(S(), 0)
  ''', where=W_A2)
W_A3 = 'equiv.py:1771-1777 sink_constant_inits, second part (an initialisation `x = literal` changes places with the assignment `y = g()` before it): _is_init (l.1781) does not ask _has_nested_scope_use(func, x) as the first part does (l.1754); g() may run a closure that reads x'
F('A6 literal initialisation moved in front of the call before it: the call runs a nested function that reads the local',
  '''
  def f(self):
      x = 5
      def cb():
          return x
      y = self.g(cb)
      x = 0
      return x, y
  ''', '''
  def f(self):
      x = 5
      def cb():
          return x
      x = 0
      y = self.g(cb)
      return x, y
  ''', '''
  class S:
      def g(self, cb): return cb()
  def run(f): return f(S())
  ''', where=W_A3)
F('A7 depth counter reset moved in front of the measuring call whose callback (lambda on self) reads it',
  '''
  def f(self, blk):
      depth = 3
      self.depth_of = lambda: depth
      size = self.measure(blk)
      depth = 0
      return size, depth
  ''', '''
  def f(self, blk):
      depth = 3
      self.depth_of = lambda: depth
      depth = 0
      size = self.measure(blk)
      return size, depth
  ''', '''
  class S:
      def measure(self, blk): return self.depth_of()
  def run(f): return f(S(), 0)
  ''', where=W_A3)

# ===========================================================================================================================
# B. Tree-level rules that decide "this assignment cannot change what the test reads" on the TEXT of target and test
#    (`target not in test`): a store to `self.hdr.kind` is not seen as a change of `self.hdr` (the statement-level steps use
#    prefix matching of chains in both directions, interferes() l.563-570), and aliases are only looked up for the target.
# ===========================================================================================================================
W_B1 = 'equiv.py:3225 _assume (called from _mk_if l.3286): an assignment is skipped when `t_ not in c` (substring of the text); the target self.hdr.kind is not a substring of the test `(Eq o self.hdr)` although it changes the object the test compares / measures / searches; the repeated test is then resolved (l.3219-3220) or written as #True / #False (l.3229-3231)'
F('B1 repeated == test after a field of the compared object was set (header compared by __eq__ over its fields)',
  '''
  def f(self, o):
      if self.hdr == o:
          self.hdr.kind = 2
          if self.hdr == o:
              return 1
          return 2
      return 3
  ''', '''
  def f(self, o):
      if self.hdr == o:
          self.hdr.kind = 2
          return 1
      return 3
  ''', '''
  class H:
      def __init__(self, k): self.kind = k
      def __eq__(self, o): return self.kind == o.kind
  class S: pass
  def run(f):
      s = S(); s.hdr = H(1)
      return f(s, H(1))
  ''', where=W_B1)
F('B2 repeated truth test of a block object after the attribute its __len__ reads was set',
  '''
  def f(self):
      if self.blk:
          self.blk.n = 0
          if self.blk:
              return 1
          return 2
      return 3
  ''', '''
  def f(self):
      if self.blk:
          self.blk.n = 0
          return 1
      return 3
  ''', '''
  class B:
      def __init__(self): self.n = 3
      def __len__(self): return self.n
  class S: pass
  def run(f):
      s = S(); s.blk = B()
      return f(s)
  ''', where=W_B1)
F('B3 the test re-read as a value after a field of the compared object was set: written as True',
  '''
  def f(self, o):
      if self.hdr == o:
          self.hdr.kind = 2
          self.same = self.hdr == o
      else:
          self.same = False
  ''', '''
  def f(self, o):
      if self.hdr == o:
          self.hdr.kind = 2
          self.same = True
      else:
          self.same = False
  ''', '''
  class H:
      def __init__(self, k): self.kind = k
      def __eq__(self, o): return self.kind == o.kind
  class S: pass
  def run(f):
      s = S(); s.hdr = H(1)
      f(s, H(1))
      return s.same
  ''', where=W_B1)
F('B4 repeated `in` test on an index object after its limit attribute was set',
  '''
  def f(self, k):
      if k in self.index:
          self.index.limit = 0
          if k in self.index:
              return 'hit'
          return 'evicted'
      return 'miss'
  ''', '''
  def f(self, k):
      if k in self.index:
          self.index.limit = 0
          return 'hit'
      return 'miss'
  ''', '''
  class Index:
      def __init__(self): self.keys = [1, 2, 3]; self.limit = 3
      def __contains__(self, k): return k in self.keys[:self.limit]
  class S: pass
  def run(f):
      s = S(); s.index = Index(); return f(s, 2)
  ''', where=W_B1)
F('B5 repeated len() test of a buffer after its end offset was set',
  '''
  def f(self):
      if len(self.buf) == 0:
          return 0
      self.buf.end = self.buf.start
      if len(self.buf) == 0:
          return -1
      return 1
  ''', '''
  def f(self):
      if len(self.buf) == 0:
          return 0
      self.buf.end = self.buf.start
      return 1
  ''', '''
  class Buf:
      def __init__(self): self.start = 2; self.end = 9
      def __len__(self): return self.end - self.start
  class S: pass
  def run(f):
      s = S(); s.buf = Buf(); return f(s)
  ''', where=W_B1)
F('B6 attribute default rule: the default is moved behind a test that reads the object whose field it sets',
  '''
  def f(self, o):
      self.hdr.kind = 0
      if self.hdr == o:
          self.hdr.kind = 5
      return self.hdr.kind
  ''', '''
  def f(self, o):
      if self.hdr == o:
          self.hdr.kind = 5
      else:
          self.hdr.kind = 0
      return self.hdr.kind
  ''', '''
  class H:
      def __init__(self, k): self.kind = k
      def __eq__(self, o): return self.kind == o.kind
  class S: pass
  def run(f):
      s = S(); s.hdr = H(1)
      r = f(s, H(0))
      return r, s.hdr.kind
  ''', where='equiv.py:3383 seq(), rule "`a.b = literal` overwritten at once on one branch": `tgt not in c` is a substring test; tgt = self.hdr.kind, c = (Eq o self.hdr) - the test reads the field through the object, the default is moved behind it')
F('B7 attribute default rule: the override reads the defaulted field through a local that is another name for the object',
  '''
  def f(self, c):
      h = self.current()
      self.hdr.kind = 0
      if c:
          self.hdr.kind = h.kind + 1
  ''', '''
  def f(self, c):
      h = self.current()
      if c:
          self.hdr.kind = h.kind + 1
      else:
          self.hdr.kind = 0
  ''', '''
  class H: kind = 7
  class S:
      def __init__(self): self.hdr = H()
      def current(self): return self.hdr
  def run(f):
      s = S(); f(s, True); return s.hdr.kind
  ''', where='equiv.py:3381 overwrites(): "the override does not read the default" is `root not in br[0][2]` (the spelling `self` does not occur in the value); ALIASES has (h) ~ (self) from `h = self.current()` (l.4075-4077) but is only consulted for target against test (_aliased_in(tgt, c), l.3383)')
F('B8 _assume_local: `not b` after the list b was emptied through the object that handed it out',
  '''
  def f(self):
      b = self.pending()
      if b:
          self.flush()
          self.empty = not b
      else:
          self.empty = True
      return self.empty
  ''', '''
  def f(self):
      b = self.pending()
      if b:
          self.flush()
          self.empty = False
      else:
          self.empty = True
      return self.empty
  ''', '''
  class S:
      def __init__(self): self.q = [1, 2]
      def pending(self): return self.q
      def flush(self): self.q.clear()
  def run(f): return f(S())
  ''', where='equiv.py:3191-3209 _assume_local (from _mk_cond_leaf l.3179-3183): for a local that is not a truth value the only guard is that its spelling occurs nowhere else in the branch (l.3198); `self.flush()` changes the list through its owner - ALIASES has (b) ~ (self) but is not consulted')

# ===========================================================================================================================
# C. Attribute default rule: "an override that can fail would leave the default in place in one spelling and the old value in
#    the other" - division and item reads are excluded, shifts are not (a negative shift count raises ValueError; may_raise()
#    l.139-141 knows that, overwrites() does not ask it).
# ===========================================================================================================================
W_C = 'equiv.py:3379-3382 overwrites() in seq(): the override value passes _effect_free_text (LShift / RShift / Pow are _PURE_HEADS, l.3262) and only `[`, Div, FloorDiv, Mod are refused; may_raise() is not asked'
F('C1 default 0, override `1 << k` with a negative k: ValueError leaves 0 in one version, the old value in the other',
  '''
  def f(self, c, k):
      self.m = 0
      if c:
          self.m = 1 << k
      self.n = 1
  ''', '''
  def f(self, c, k):
      if c:
          self.m = 1 << k
      else:
          self.m = 0
      self.n = 1
  ''', '''
  class S: pass
  def run(f):
      s = S(); s.m = 'old'
      try:
          f(s, True, -1)
      except ValueError as e:
          return ('ValueError', s.m)
      return s.m
  ''', where=W_C)
F('C2 mask default 0, override `hdr.bits >> hdr.shift` with a corrupt (negative) shift field',
  '''
  def f(self, hdr):
      self.mask = 0
      if hdr.wide:
          self.mask = hdr.bits >> hdr.shift
      self.ready = True
  ''', '''
  def f(self, hdr):
      if hdr.wide:
          self.mask = hdr.bits >> hdr.shift
      else:
          self.mask = 0
      self.ready = True
  ''', '''
  class H: wide = True; bits = 255; shift = -2
  class S: pass
  def run(f):
      s = S(); s.mask = 0xff
      try:
          f(s, H())
      except ValueError:
          return ('ValueError', s.mask)
      return s.mask
  ''', where=W_C)

# ===========================================================================================================================
# D. sink_into_branches gives the copy in the else-branch a name of its own - but the local is also read elsewhere (at the top
#    of the loop body, on the next iteration).  After the step that read sees only the value computed on the then-path.
# ===========================================================================================================================
W_D = 'equiv.py:1852-1870 sink_into_branches: the conditions count the reads of t inside the two branches (l.1856-1857) and after the if (l.1859), not the reads before the assignment that a later iteration reaches; the else-copy is renamed t__s (l.1866-1870), so the carried value is no longer updated on that path'
F('D1 value carried to the next iteration is only updated on one path after the assignment was sunk into the branches',
  '''
  def f(rd, xs, out):
      for x in xs:
          if out:
              out.append(t)
          else:
              out.append(None)
          t = rd.g(x)
          if len(out) == 1:
              first(t)
          else:
              later(t)
  ''', '''
  def f(rd, xs, out):
      for x in xs:
          if out:
              out.append(t)
          else:
              out.append(None)
          if len(out) == 1:
              t = rd.g(x)
              first(t)
          else:
              t2 = rd.g(x)
              later(t2)
  ''', '''
  class S:
      def g(self, x): return x * 10
  def first(t): pass
  def later(t): pass
  def run(f):
      out = []; f(S(), [1, -2, 3], out); return out
  ''', where=W_D)
F('D2 previous record written out at the start of the next iteration; the first n_wide records go the wide way',
  '''
  def f(rd, recs, out, n_wide):
      for rec in recs:
          if out:
              out.append(prev)
          else:
              out.append(0)
          prev = rd.parse(rec)
          if len(out) <= n_wide:
              emit_wide(prev)
          else:
              emit(prev)
  ''', '''
  def f(rd, recs, out, n_wide):
      for rec in recs:
          if out:
              out.append(prev)
          else:
              out.append(0)
          if len(out) <= n_wide:
              prev = rd.parse(rec)
              emit_wide(prev)
          else:
              cur = rd.parse(rec)
              emit(cur)
  ''', '''
  class R:
      def parse(self, r): return r * 10
  def emit(x): pass
  def emit_wide(x): pass
  def run(f):
      out = []
      f(R(), [1, 2, 3], out, 1)
      return out
  ''', where=W_D)

# ===========================================================================================================================
# E. Interaction of the try continuation rule with the literal substitution: when a handler falls through and the
#    continuation mentions `raise` / exc_info / the handler's name, seq() keeps the try statement closed (else-part and
#    handlers get the EMPTY continuation) - but tree_safe_locals still takes the else-part of a try without finally as part of
#    the enclosing region.  `n = 1` in the else-part is "substituted" into an empty continuation, i.e. dropped, and the reads
#    after the try get the literal of the initialisation before it.
# ===========================================================================================================================
W_E = 'equiv.py:3325-3330 seq() Try, `_falls` variant: seq(list(st.orelse), (), budget) - a closed tree; equiv.py:3474 tree_safe_locals: cut only for field == "body" (or a finally clause), so the else-part counts as continuing into what follows; equiv.py:3358-3365: `done = _subst_const(rest=(), ..)` returns () and the assignment is gone'
F('E1 count set in the else-part of a try; the continuation has a raise: the update is dropped',
  '''
  def f(self, d):
      n = 0
      try:
          self.load(d)
      except KeyError:
          self.note()
      else:
          n = 2
      self.count = n
      if self.strict:
          raise ValueError(d)
  ''', '''
  def f(self, d):
      n = 0
      try:
          self.load(d)
      except KeyError:
          self.note()
      self.count = n
      if self.strict:
          raise ValueError(d)
  ''', '''
  class S:
      strict = False
      def load(self, d): pass
      def note(self): pass
  def run(f):
      s = S(); f(s, 3); return s.count
  ''', where=W_E)
F('E2 same, the continuation only mentions exc_info (a logging keyword)',
  '''
  def f(self, d):
      n = 0
      try:
          self.load(d)
      except KeyError:
          self.note()
      else:
          n = 1
      self.count = n
      log.debug('done', exc_info=False)
  ''', '''
  def f(self, d):
      n = 0
      try:
          self.load(d)
      except KeyError:
          self.note()
      self.count = n
      log.debug('done', exc_info=False)
  ''', '''
  class L:
      def debug(self, *a, **k): pass
  log = L()
  class S:
      def load(self, d): pass
      def note(self): pass
  def run(f):
      s = S(); f(s, 3); return s.count
  ''', where=W_E)
F('E3 per-record flag in a loop over records: good = 1 in the else-part, tallied after the try, strict mode raises',
  '''
  def f(self, ds):
      for d in ds:
          good = 0
          try:
              self.load(d)
          except KeyError:
              self.note()
          else:
              good = 1
          self.tally(good)
          if self.strict:
              raise ValueError(d)
  ''', '''
  def f(self, ds):
      for d in ds:
          good = 0
          try:
              self.load(d)
          except KeyError:
              self.note()
          self.tally(good)
          if self.strict:
              raise ValueError(d)
  ''', '''
  class S:
      strict = False
      def __init__(self): self.t = []
      def load(self, d):
          if d < 0: raise KeyError(d)
      def note(self): pass
      def tally(self, g): self.t.append(g)
  def run(f):
      s = S(); f(s, [1, -1, 2]); return s.t
  ''', where=W_E)
F('E4 block kind recorded per block, error limit raises',
  '''
  def f(self, blocks):
      for b in blocks:
          kind = 'bad'
          try:
              self.check(b)
          except ValueError:
              self.errors += 1
          else:
              kind = 'good'
          self.kinds.append(kind)
          if self.errors > self.limit:
              raise RuntimeError('too many')
  ''', '''
  def f(self, blocks):
      for b in blocks:
          kind = 'bad'
          try:
              self.check(b)
          except ValueError:
              self.errors += 1
          self.kinds.append(kind)
          if self.errors > self.limit:
              raise RuntimeError('too many')
  ''', '''
  class S:
      def __init__(self): self.errors = 0; self.limit = 5; self.kinds = []
      def check(self, b):
          if b < 0: raise ValueError(b)
  def run(f):
      s = S(); f(s, [1, -1, 2]); return s.kinds
  ''', where=W_E)


FINDINGS = [(t, a, b, kw) for t, a, b, kw, _d, _w in _ALL]
DEMOS = {t: d for t, _a, _b, _kw, d, _w in _ALL}
WHERE = {t: w for t, _a, _b, _kw, _d, w in _ALL}


def _wrap(src):
    """the function as a module: a method (first parameter self) goes into class K"""
    first = ast.parse(src).body[0]
    if first.args.args and first.args.args[0].arg == 'self':
        return 'class K:\n' + textwrap.indent(src, '    '), 'K.f'
    return src, 'f'


GATE_FINDINGS = [(t, _wrap(a)[0], _wrap(b)[0], _wrap(a)[1]) for t, a, b, _kw in FINDINGS]


def _equiv():
    here = os.path.dirname(os.path.dirname(os.path.abspath(__file__)))
    if here not in sys.path:
        sys.path.insert(0, here)
    from tdstatic import equiv
    equiv.REPO_DEFINED[0] = frozenset()
    return equiv


def same(a, b, **kw):
    equiv = _equiv()
    ca = equiv.canonical(ast.parse(a).body[0], kw.get('helpers_a'), kw.get('consts'), dicts=kw.get('dicts'), sized=kw.get('sized'), props=kw.get('props'))
    cb = equiv.canonical(ast.parse(b).body[0], kw.get('helpers_b'), kw.get('consts'), dicts=kw.get('dicts'), sized=kw.get('sized'), props=kw.get('props'))
    return ca is not None and ca == cb


def _same(a, b, kw):
    return same(a, b, **(kw or {}))


def _outcome(src, demo):
    ns = {}
    exec(src, ns)
    fn = ns[ast.parse(src).body[0].name]
    exec(demo, ns)
    try:
        return repr(ns['run'](fn))
    except Exception as e:            # noqa
        return f'raises {type(e).__name__}: {e}'


def main():
    equiv = _equiv()
    from tdstatic import gate
    bad = gbad = 0
    for i, (title, a, b, kw, demo, where) in enumerate(_ALL, 1):
        s = _same(a, b, kw)
        ra, rb = _outcome(a, demo), _outcome(b, demo)
        okay = s and ra != rb
        bad += not okay
        print(f'{i:2d}. [{"CONFIRMED" if okay else "NOT A FINDING"}] {title}')
        print(f'      same() = {s}')
        print(f'      A -> {ra}')
        print(f'      B -> {rb}')
        print(f'      at: {where}')
    for title, cur, ref, q in GATE_FINDINGS:
        equiv.REPO_DEFINED[0] = frozenset()
        g1 = q in gate.apply(ast.parse(cur), ast.parse(ref), lambda t: None)
        g2 = q in gate.apply(ast.parse(ref), ast.parse(cur), lambda t: None)
        if not (g1 and g2):
            gbad += 1
            print(f'gate.apply keeps apart ({g1}, {g2}): {title}')
    print(f'{len(_ALL) - bad} of {len(_ALL)} pairs confirmed; {len(GATE_FINDINGS) - gbad} of {len(GATE_FINDINGS)} also taken as equivalent by gate.apply (both directions)')


if __name__ == '__main__':
    main()
