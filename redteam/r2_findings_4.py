"""Red-team round 2, agent 4 (focus: helper inlining and the gate).  tdstatic/equiv.py + gate.py as found in /tmp/redteam2/4.

FINDINGS      = [(title, src_a, src_b, kwargs_or_None), ...]   same(src_a, src_b, **kwargs) is True, behaviour differs.
                kwargs are ready for the harness of TASK.md: helpers_a / helpers_b = {name: (FunctionDef, is_method)};
                helpers_a_src / helpers_b_src keep the source text they were built from (used by the demos).
GATE_FINDINGS = [(title, current_module_src, reference_module_src, qualname), ...]   `qualname in gate.apply(cur, ref, ..)`
                although the two versions of that function behave differently (production path, module context included).
DEMOS[title]  = (stub source, driver source): the driver defines run(f_or_class_or_module_namespace) -> observable outcome.

Run   /venv/bin/python /tmp/redteam2/4/findings.py   to re-verify everything (exit status 0 = every finding confirmed)."""
import ast
import os
import sys
import textwrap

sys.path.insert(0, os.path.dirname(os.path.dirname(os.path.abspath(__file__))))

FINDINGS = []
GATE_FINDINGS = []
DEMOS = {}


def helpers_of(src):
    """{name: (FunctionDef, is_method)} from helper source text"""
    if not src:
        return None
    out = {}
    for h in ast.parse(src).body:
        is_m = bool(h.args.args) and h.args.args[0].arg == 'self' or any(isinstance(d, ast.Name) and d.id == 'staticmethod' for d in h.decorator_list)
        out[h.name] = (h, is_m)
    return out


def F(title, a, b, kw=None, stubs='', driver=''):
    if kw:
        kw = dict(kw)
        for side in ('helpers_a', 'helpers_b'):
            if isinstance(kw.get(side), str):
                kw[side + '_src'] = kw[side]
                kw[side] = helpers_of(kw[side])
    FINDINGS.append((title, a, b, kw))
    DEMOS[title] = (stubs, driver)


def G(title, cur, ref, q, stubs='', driver=''):
    GATE_FINDINGS.append((title, cur, ref, q))
    DEMOS[title] = (stubs, driver)


# =========================================================================================================================
# ROOT CAUSE 1 - canonical() l.3570: ALIASES[0] = function_aliases(func) is computed on the function BEFORE the helpers are
# pasted (l.3584-3591).  The parameter bindings `p__hN = <argument>` and the alias-making statements of the helper body
# (`st = self.state`, `for r in self.rows`, a callback parameter bound to a bound method) are therefore unknown to
# interferes() / _with_aliases() / _impure_before() / _aliased_in(): a write through the pasted name is not a write to the
# object the caller reads.  Whenever the binding survives as a local (parameter re-assigned in the helper, argument that cannot
# be substituted, callback called by name) a stale read is moved across the mutation.
# =========================================================================================================================
_W = 'class Base:\n    def __init__(self):\n        self.rows = [1, 2]\n        self.dflt = []'
F('R1a inline_temps: length taken before the helper call is moved behind the append done through the (re-assigned) parameter',
  'def f(self):\n    n = len(self.rows)\n    self._push(self.rows)\n    return n',
  'def f(self):\n    r = self.rows\n    if r is None:\n        r = self.dflt\n    r.append(1)\n    return len(self.rows)',
  {'helpers_a': 'def _push(self, r):\n    if r is None:\n        r = self.dflt\n    r.append(1)'},
  stubs=_W, driver='def run(K):\n    return K().f()')

F('R1b _assume/_aliased_in: a repeated test is taken as still true although the pasted helper wrote the tested attribute through its parameter',
  'def f(self):\n    if self.hdr.n == 0:\n        self._reset(self.hdr)\n        if self.hdr.n == 0:\n            return 1\n        return 2\n    return 0',
  'def f(self):\n    if self.hdr.n == 0:\n        h = self.hdr\n        if h is None:\n            h = self.dflt\n        h.n = 5\n        return 1\n    return 0',
  {'helpers_a': 'def _reset(self, h):\n    if h is None:\n        h = self.dflt\n    h.n = 5'},
  stubs='class H:\n    n = 0\nclass Base:\n    def __init__(self):\n        self.hdr = H()\n        self.dflt = H()',
  driver='def run(K):\n    return K().f()')

F('R1c callback parameter: `fn__h()` writes nothing by name, so the position saved before the call is read after it',
  'def f(st):\n    n = st.pos\n    _apply(st.advance)\n    return n',
  'def f(st):\n    st.advance()\n    return st.pos',
  {'helpers_a': 'def _apply(fn):\n    fn()'},
  stubs='class S:\n    pos = 0\n    def advance(self):\n        self.pos += 4\n        return 1',
  driver='def run(f):\n    return f(f.__globals__["S"]())')

F('R1d realistic: bytes are consumed through the (defaulted) buffer parameter; the count of available bytes was taken first',
  'def f(self, n):\n    avail = len(self.buf)\n    self._consume(self.buf, n)\n    return avail',
  'def f(self, n):\n    buf = self.buf\n    if buf is None:\n        buf = self.spare\n    del buf[:n]\n    return len(self.buf)',
  {'helpers_a': 'def _consume(self, buf, n):\n    if buf is None:\n        buf = self.spare\n    del buf[:n]'},
  stubs='class Base:\n    def __init__(self):\n        self.buf = [1, 2, 3, 4]\n        self.spare = []', driver='def run(K):\n    return K().f(3)')

F('R1e alias made INSIDE the helper body (walking pointer cur = self.head; cur = cur.next): no parameter involved',
  'def f(self):\n    first = self.head.val\n    self._zero()\n    return first',
  'def f(self):\n    cur = self.head\n    while cur is not None:\n        cur.val = 0\n        cur = cur.next\n    return self.head.val',
  {'helpers_a': 'def _zero(self):\n    cur = self.head\n    while cur is not None:\n        cur.val = 0\n        cur = cur.next'},
  stubs='class N:\n    def __init__(self, v, nx=None):\n        self.val, self.next = v, nx\nclass Base:\n    def __init__(self):\n        self.head = N(7, N(8))',
  driver='def run(K):\n    return K().f()')

# =========================================================================================================================
# ROOT CAUSE 2 - hoist_helper_calls (l.693-758): the set `w` of what the hoisted call may change is incomplete, and
# harmless() (l.740-746) does not know aliases.  `x = A + helper(..)` becomes `t = helper(..); x = A + t` although the helper
# changes what A reads:
#   (a) l.725-728: only arguments that ARE a name / attribute / subscript are counted; `a or b`, `a if c else b`, `[a]`, `(a, b)`,
#       `*a` hand the object over just as well;
#   (b) l.726: an argument `st.advance` (bound method) counts as the chain ('st','advance'), not as the object `st`;
#   (c) l.731-736: written_chains(helper body) is taken literally: `st = STATE; st.depth += 1` counts as a write to the helper
#       local `st`, not to STATE (aliases made inside the helper);
#   (d) l.743-745: a caller local that is another name for part of `self` (rec = self.rec) is "harmless" although w holds ('self',);
#   (e) l.741: a bare Name read before the call is always harmless - also a module global that a callee of the helper rebinds
#       (`global TOTAL`); MUTABLE_GLOBALS (ctx) is consulted by interferes() only, not here (see the gate finding G-R2e).
# =========================================================================================================================
_S = 'class S:\n    pos = 0\n    def advance(self):\n        self.pos += 4\n        return 1\nDEFAULT = S()'
F('R2a hoist: the object reaches the helper as `st or DEFAULT`',
  'def f(st, n):\n    return st.pos + _adv(st or DEFAULT, n)',
  'def f(st, n):\n    s = st or DEFAULT\n    s.pos += n\n    return st.pos + n',
  {'helpers_a': 'def _adv(s, n):\n    s.pos += n\n    return n'},
  stubs=_S, driver='def run(f):\n    return f(f.__globals__["S"](), 5)')

F('R2a hoist: the object reaches the helper inside a list display',
  'def f(st, n):\n    return st.pos + _adv([st], n)',
  'def f(st, n):\n    for s in [st]:\n        s.pos += n\n    return st.pos + n',
  {'helpers_a': 'def _adv(ss, n):\n    for s in ss:\n        s.pos += n\n    return n'},
  stubs=_S, driver='def run(f):\n    return f(f.__globals__["S"](), 5)')

F('R2a hoist: static helper, the receiver handed over through a conditional expression',
  'def f(self, n):\n    return self.pos + self._adv(self if n else None, n)',
  'def f(self, n):\n    s = self if n else None\n    s.pos += n\n    return self.pos + n',
  {'helpers_a': '@staticmethod\ndef _adv(s, n):\n    s.pos += n\n    return n'},
  stubs='class Base:\n    pos = 0', driver='def run(K):\n    return K().f(5)')

F('R2b hoist: a bound method passed as callback (the helper advances the stream whose position was read first)',
  'def f(st):\n    return st.pos + _apply(st.advance)',
  'def f(st):\n    r = st.advance()\n    return st.pos + r',
  {'helpers_a': 'def _apply(fn):\n    return fn()'},
  stubs=_S, driver='def run(f):\n    return f(f.__globals__["S"]())')

F('R2c hoist: the helper changes module state through a local alias (st = STATE)',
  'def f(k):\n    return STATE.depth + _push(k)',
  'def f(k):\n    STATE.depth += 1\n    return STATE.depth + k',
  {'helpers_a': 'def _push(k):\n    st = STATE\n    st.depth += 1\n    return k'},
  stubs='class _S:\n    depth = 0\nSTATE = _S()', driver='def run(f):\n    return f(100)')

F('R2d hoist: the caller reads the record through a local alias of self.rec, the method helper changes self.rec',
  'def f(self):\n    rec = self.rec\n    return rec.n + self._bump()',
  'def f(self):\n    rec = self.rec\n    self.rec.n += 1\n    return rec.n + 1',
  {'helpers_a': 'def _bump(self):\n    self.rec.n += 1\n    return 1'},
  stubs='class R:\n    n = 0\nclass Base:\n    def __init__(self):\n        self.rec = R()',
  driver='def run(K):\n    return K().f()')

# =========================================================================================================================
# ROOT CAUSE 3 - free names of a pasted helper are captured by names the caller binds in ways _caller_bound (l.538-542) and the
# renaming table `hl` (l.819-820) do not list: a nested `def` / `class` of the caller (FunctionDef.name is not a Name node), and an
# `import` INSIDE the helper (binds a local of the helper that is pasted unrenamed and so becomes a local of the whole caller).
# =========================================================================================================================
F('R3a free name of the helper (module function `key`) captured by a nested def of the caller',
  'def f(self, b):\n    def key(r):\n        return -r\n    rows = self._rows(b)\n    return sorted(rows, key=key)',
  'def f(self, b):\n    def key(r):\n        return -r\n    rows = [key(x) for x in b]\n    return sorted(rows, key=key)',
  {'helpers_a': 'def _rows(self, b):\n    return [key(x) for x in b]'},
  stubs='def key(x):\n    return x * 10\nclass Base:\n    pass', driver='def run(K):\n    return K().f([1, 2])')

F('R3b `import struct` inside the helper becomes a local import of the caller and hides the module-level name `struct` there',
  'def f(self, b):\n    v = self._h(b)\n    return v, struct.HEADER',
  'def f(self, b):\n    import struct\n    v = struct.unpack(">H", b)\n    return v, struct.HEADER',
  {'helpers_a': 'def _h(self, b):\n    import struct\n    return struct.unpack(">H", b)'},
  stubs='class struct:          # the module\'s own `struct` (e.g. `from . import layout as struct`)\n    HEADER = 4\nclass Base:\n    pass',
  driver='def run(K):\n    return K().f(b"\\x00\\x01")')

# =========================================================================================================================
# ROOT CAUSE 4 - expression_helper (l.610-650) runs assignments_to_ifexp / inline_temps / drop_dead_locals on the HELPER while the
# module-level tables (NOT_ITERATORS, ALIASES, SHADOWED, ...) describe the CALLER: a name of the helper that happens to be spelled
# like a container local of the caller is taken as "not an iterator", list(it) becomes side-effect free and two consumptions of
# one iterator change places.
# =========================================================================================================================
F('R4 expression helper normalised with the caller\'s NOT_ITERATORS: two consumptions of the same iterator are swapped',
  'def f(self, src):\n    it = []\n    it.append(1)\n    return self._h(src)',
  'def f(self, src):\n    it = []\n    it.append(1)\n    return (list(src), list(src))',
  {'helpers_a': 'def _h(self, it):\n    a = list(it)\n    b = list(it)\n    return (b, a)'},
  stubs='class Base:\n    pass', driver='def run(K):\n    return K().f(iter([1, 2]))')

# =========================================================================================================================
# OUTSIDE THE FOCUS AREA, found on the way - sort_independent_runs (l.1707-1740) / _reorderable (l.1684-1700) compare read and
# write chains literally (no ALIASES at all): a store through a local alias and a read through the original chain are
# "independent" and are put in text order.
# =========================================================================================================================
F('X1 sort_independent_runs ignores aliases: `h.n = 5` and `self.last = self.hdr.n` change places (h is self.hdr)',
  'def f(self):\n    h = self.hdr\n    if h is None:\n        h = self.alt\n    h.n = 5\n    self.last = self.hdr.n\n    return self.last',
  'def f(self):\n    h = self.hdr\n    if h is None:\n        h = self.alt\n    self.last = self.hdr.n\n    h.n = 5\n    return self.last',
  None,
  stubs='class H:\n    n = 0\nclass Base:\n    def __init__(self):\n        self.hdr = H()\n        self.alt = H()\n        self.last = None',
  driver='def run(K):\n    return K().f()')


# ========================================================================================================================= gate.py
G('G-R1 (root cause 1 on the production path) alias made by the parameter binding of a pasted method',
  '''
class W:
    def __init__(self):
        self.rows = [1, 2]
        self.dflt = []
    def _push(self, r):
        if r is None:
            r = self.dflt
        r.append(1)
    def f(self):
        n = len(self.rows)
        self._push(self.rows)
        return n
''', '''
class W:
    def __init__(self):
        self.rows = [1, 2]
        self.dflt = []
    def f(self):
        r = self.rows
        if r is None:
            r = self.dflt
        r.append(1)
        return len(self.rows)
''', 'W.f', driver='def run(m):\n    return m["W"]().f()')

G('G-R2e hoist_helper_calls l.741: a module global read before the helper call; a callee of the helper rebinds it (`global TOTAL`)',
  '''
TOTAL = 0
def bump():
    global TOTAL
    TOTAL += 1
def _h(k):
    bump()
    return k
def f(k):
    return TOTAL + _h(k)
''', '''
TOTAL = 0
def bump():
    global TOTAL
    TOTAL += 1
def f(k):
    bump()
    return TOTAL + k
''', 'f', driver='def run(m):\n    return m["f"](10)')

# ROOT CAUSE 5 - _helper_call_name (l.548-563) / gate._helper_table / gate._own: "`name(..)` / `self.name(..)` reaches the def called
# `name`" is decided from the def alone.  The name may be bound again: by a module-level assignment after the def (memoising
# wrapper), by a function that declares it `global`, by an instance attribute (`self._u16 = self._u16_le` - the usual way to
# select a byte order / record variant once), by a class-level assignment in a subclass (`_u16 = R._u16_le`; _OTHER_METHODS and
# gate._own count FunctionDefs only).  The same holds for the second path of the gate (functions present in both versions).
G('G-R5a helper wrapped after its def: `_load = functools.lru_cache(..)(_load)` (decorator syntax is refused, this spelling is not)',
  '''
import functools
LOADS = []
def _load(k):
    LOADS.append(k)
    return k * 2
_load = functools.lru_cache(maxsize=None)(_load)
def f(k):
    return _load(k)
''', '''
LOADS = []
def f(k):
    LOADS.append(k)
    return k * 2
''', 'f', driver='def run(m):\n    m["f"](1); m["f"](1)\n    return m["LOADS"]')

G('G-R5b module-level helper rebound through `global` by a configuration function',
  '''
def _decode(b):
    return b.decode('ascii')
def set_encoding(enc):
    global _decode
    _decode = lambda b: b.decode(enc)
def f(b):
    return _decode(b).strip()
''', '''
def set_encoding(enc):
    pass
def f(b):
    return b.decode('ascii').strip()
''', 'f', driver='def run(m):\n    m["set_encoding"]("utf-16")\n    return m["f"](b"\\xff\\xfea\\x00")')

G('G-R5c method helper replaced per instance in __init__ (byte order chosen once): self._u16() is not R._u16',
  '''
class R:
    def __init__(self, b, le=False):
        self.b = list(b)
        if le:
            self._u16 = self._u16_le
    def _u16(self):
        return self.b.pop(0) * 256 + self.b.pop(0)
    def _u16_le(self):
        return self.b.pop(0) + self.b.pop(0) * 256
    def f(self):
        return self._u16()
''', '''
class R:
    def __init__(self, b, le=False):
        self.b = list(b)
    def f(self):
        return self.b.pop(0) * 256 + self.b.pop(0)
''', 'R.f', driver='def run(m):\n    return m["R"]([1, 2], le=True).f()')

G('G-R5d a subclass overrides the helper by a class-level assignment (`_u16 = R._u16_le`), not by a def',
  '''
class R:
    def __init__(self, b):
        self.b = list(b)
    def _u16(self):
        return self.b.pop(0) * 256 + self.b.pop(0)
    def _u16_le(self):
        return self.b.pop(0) + self.b.pop(0) * 256
    def f(self):
        return self._u16()
class LE(R):
    _u16 = R._u16_le
''', '''
class R:
    def __init__(self, b):
        self.b = list(b)
    def _u16_le(self):
        return self.b.pop(0) + self.b.pop(0) * 256
    def f(self):
        return self.b.pop(0) * 256 + self.b.pop(0)
class LE(R):
    pass
''', 'R.f', driver='def run(m):\n    return m["LE"]([1, 2]).f()')

G('G-R5e second path of the gate (gate._called / _own, method present in both versions, called by the current one only): same per-instance override',
  '''
class R:
    def __init__(self, b, le=False):
        self.b = list(b)
        if le:
            self._u16 = self._u16_le
    def _u16(self):
        return self.b.pop(0) * 256 + self.b.pop(0)
    def _u16_le(self):
        return self.b.pop(0) + self.b.pop(0) * 256
    def g(self):
        return self._u16()
    def f(self):
        return self._u16()
''', '''
class R:
    def __init__(self, b, le=False):
        self.b = list(b)
        if le:
            self._u16 = self._u16_le
    def _u16(self):
        return self.b.pop(0) * 256 + self.b.pop(0)
    def _u16_le(self):
        return self.b.pop(0) + self.b.pop(0) * 256
    def g(self):
        return self._u16()
    def f(self):
        return self.b.pop(0) * 256 + self.b.pop(0)
''', 'R.f', driver='def run(m):\n    return m["R"]([1, 2], le=True).f()')

G('G-R5f helper defined again under an `if` at module level (gate._owner_map sees top-level defs only, so no duplicate is noticed)',
  '''
import sys
def _sep(p):
    return p.split('/')
if sys.platform != 'win32':
    def _sep(p):
        return p.split(':')
def f(p):
    return _sep(p)
''', '''
import sys
def f(p):
    return p.split('/')
''', 'f', driver='def run(m):\n    return m["f"]("a/b:c")')

G('G-R5g helper replaced by an import that follows the def (the `try: from _speedups import ..` idiom)',
  '''
def _crc(b):
    return sum(b) & 0xff
try:
    from zlib import crc32 as _crc
except ImportError:
    pass
def f(b):
    return _crc(b)
''', '''
def f(b):
    return sum(b) & 0xff
''', 'f', driver='def run(m):\n    return m["f"](b"abc")')

G('G-R5h method helper defined again under an `if` of the class body',
  '''
import sys
class K:
    def _sep(self, p):
        return p.split('/')
    if sys.platform != 'win32':
        def _sep(self, p):
            return p.split(':')
    def f(self, p):
        return self._sep(p)
''', '''
class K:
    def f(self, p):
        return p.split('/')
''', 'K.f', driver='def run(m):\n    return m["K"]().f("a/b:c")')

# ROOT CAUSE 6 - parameter binding of methods: inline_helpers l.788-792 / expression_helper l.646-647 drop the FIRST parameter
# whatever it is called and leave its uses in the body alone (they then denote a module-level name of that spelling);
# inline_expression_helpers l.681-688 accepts `Cls.name(a, b)` for a NON-static method and binds a, b to the parameters after
# `self` (Python binds a to self).
G('G-R6a the receiver parameter of the helper is not called `self`: its uses are left as they are and read a module global',
  '''
class T:
    n = 0
this = T()
class K:
    n = 0
    def _bump(this):
        this.n += 1
    def f(self):
        self._bump()
        return self.n
''', '''
class T:
    n = 0
this = T()
class K:
    n = 0
    def f(self):
        this.n += 1
        return self.n
''', 'K.f', driver='def run(m):\n    return m["K"]().f()')

G('G-R6b `K._h(a, b)` on a non-static method: the arguments are bound one parameter too far to the right',
  '''
class K:
    v = 1
    def _h(self, x, y):
        return x + y + self.v
    def f(self, a, b):
        return K._h(a, b)
''', '''
class K:
    v = 1
    def f(self, a, b):
        return a + b + self.v
''', 'K.f', driver='def run(m):\n    return m["K"]().f(1, 2)')

# ROOT CAUSE 7 - gate._sized / equiv.module_bad_attrs (l.3275-3281) and gate.canonical_pair (l.187-196):
#   (a) a class-level default given by a tuple assignment (`items, count = None, 0`: the VALUE of the statement is a tuple display,
#       "a container") or under an `if` / `try` of the class body (only the direct statements of the body are looked at) is missed;
#   (b) the reference function is rewritten with the facts of the REFERENCE module (s2 from ref_tree) and then compared with the
#       current function: `not self.items` (reference, where items is always a list) equals `len(self.items) == 0` (current) although
#       the CURRENT module now also binds None - the function that will really run raises TypeError where the old spelling did not.
G('G-R7a class-level default by tuple assignment: `items, count = None, 0`',
  '''
class R:
    items, count = None, 0
    def load(self):
        self.items = []
    def f(self):
        if len(self.items) == 0:
            return 0
        return 1
''', '''
class R:
    items, count = None, 0
    def load(self):
        self.items = []
    def f(self):
        if not self.items:
            return 0
        return 1
''', 'R.f', driver='def run(m):\n    return m["R"]().f()')

G('G-R7a class-level default under an `if` of the class body',
  '''
import sys
class R:
    if sys.version_info[0] >= 3:
        items = None
    def load(self):
        self.items = []
    def f(self):
        if len(self.items) == 0:
            return 0
        return 1
''', '''
import sys
class R:
    if sys.version_info[0] >= 3:
        items = None
    def load(self):
        self.items = []
    def f(self):
        if not self.items:
            return 0
        return 1
''', 'R.f', driver='def run(m):\n    return m["R"]().f()')

G('G-R7b `sized` of the reference module used for the reference spelling; the current module added `self.items = None` (reset) and tightened the test to len()',
  '''
class R:
    def __init__(self):
        self.items = []
    def reset(self):
        self.items = None
    def f(self):
        if len(self.items) == 0:
            return 0
        return 1
''', '''
class R:
    def __init__(self):
        self.items = []
    def f(self):
        if not self.items:
            return 0
        return 1
''', 'R.f', driver='def run(m):\n    o = m["R"]()\n    o.items = None          # the state reset() of the current version produces\n    return o.f()')

# ROOT CAUSE 8 - gate.apply l.254-269: EVERY function that is new in the current tree and is not mentioned elsewhere in the module is
# taken for "a helper created by the refactoring" and removed from the tree as soon as one function of the module is gated -
# also a brand-new public method / entry point that other modules call.  Nothing in it is ever analysed.  (Not a pair of
# functions: the entry `-R.dump` in the result of gate.apply is the defect; the demo shows the new method is plainly broken.)
G('G-R8 a brand-new public method without a caller inside the module is dropped (`-R.dump`) because an unrelated method was gated',
  '''
class R:
    def __init__(self):
        self.rows = [1, 2]
    def dump(self):
        return self.rows[len(self.rows)]
    def f(self, x):
        if x > 0:
            return 1
        return 2
''', '''
class R:
    def __init__(self):
        self.rows = [1, 2]
    def f(self, x):
        if x > 0:
            return 1
        else:
            return 2
''', '-R.dump', driver='def run(m):\n    return m["R"]().dump()')


# ROOT CAUSE 9 - gate.apply l.241-250: the body of a gated function is REPLACED by the reference body, which is then analysed inside
# the CURRENT module.  The equivalence was established with each side read in its own module (ref_consts, the reference version of
# the functions called, the reference `sized` facts), but the names the reference body mentions may mean something else in the
# current module: a constant whose value was changed, a function present in both versions whose body was changed (second path of
# the gate: the reference version is pasted to establish the equivalence).  What the rules then look at is neither version.
# TRANSPLANT_FINDINGS = [(title, current_module_src, reference_module_src, qualname)]: the demo runs the current module as written
# and the current tree as left behind by gate.apply.
TRANSPLANT_FINDINGS = []


def TR(title, cur, ref, q, driver=''):
    TRANSPLANT_FINDINGS.append((title, cur, ref, q))
    DEMOS[title] = ('', driver)


TR('G-R9a the module constant was changed, the function keeps the old value as a literal: analysed as `x * N` with the NEW N',
   '''
N = 8
def f(x):
    return x * 4
def g(x):
    return x + N
''', '''
N = 4
def f(x):
    return x * N
def g(x):
    return x + N
''', 'f', driver='def run(m):\n    return m["f"](1)')

TR('G-R9b the callee (present in both versions) was changed, the caller keeps an inlined copy of its OLD body: analysed as a call of the NEW callee',
   '''
class K:
    def _norm(self, s):
        return s.strip().lower()
    def g(self, s):
        return self._norm(s)
    def f(self, s):
        return s.strip()
''', '''
class K:
    def _norm(self, s):
        return s.strip()
    def g(self, s):
        return self._norm(s)
    def f(self, s):
        return self._norm(s)
''', 'K.f', driver='def run(m):\n    return m["K"]().f(" AB ")')


# ------------------------------------------------------------------------------------------------------------------------ verification
def same(a, b, **kw):
    """the harness of TASK.md"""
    from tdstatic import equiv
    equiv.REPO_DEFINED[0] = frozenset()
    ca = equiv.canonical(ast.parse(a).body[0], kw.get('helpers_a'), dicts=kw.get('dicts'), sized=kw.get('sized'), props=kw.get('props'))
    cb = equiv.canonical(ast.parse(b).body[0], kw.get('helpers_b'), dicts=kw.get('dicts'), sized=kw.get('sized'), props=kw.get('props'))
    return ca is not None and ca == cb


def _build(src, helper_src, stubs):
    """the function (module level) or a class K(Base) holding it and its helper"""
    ns = {}
    exec(stubs, ns)
    fn = ast.parse(src).body[0]
    is_method = fn.args.args[:1] and fn.args.args[0].arg == 'self'
    if is_method:
        body = (helper_src + '\n' if helper_src else '') + src
        exec('class K(Base):\n' + textwrap.indent(body, '    '), ns)
        return ns['K']
    exec((helper_src + '\n' if helper_src else '') + src, ns)
    return ns[fn.name]


def _outcome(thing, driver):
    ns = {}
    exec(driver, ns)
    try:
        return repr(ns['run'](thing))
    except Exception as e:          # noqa
        return f'raises {type(e).__name__}: {e}'


def verify():
    bad = 0
    for k, (title, a, b, kw) in enumerate(FINDINGS, 1):
        kw = kw or {}
        s = same(a, b, **kw)
        stubs, driver = DEMOS[title]
        ra = _outcome(_build(a, kw.get('helpers_a_src'), stubs), driver)
        rb = _outcome(_build(b, kw.get('helpers_b_src'), stubs), driver)
        okay = s and ra != rb
        bad += not okay
        print(f'[{k}] {title}\n     same() = {s}\n     A -> {ra}\n     B -> {rb}\n     {"CONFIRMED" if okay else "NOT CONFIRMED"}')
    from tdstatic import equiv, gate
    equiv.REPO_DEFINED[0] = frozenset()
    for k, (title, cur, ref, q) in enumerate(GATE_FINDINGS, 1):
        gated = gate.apply(ast.parse(cur), ast.parse(ref), lambda t: None)
        stubs, driver = DEMOS[title]
        mc, mr = {}, {}
        exec(cur, mc)
        exec(ref, mr)
        rc, rr = _outcome(mc, driver), _outcome(mr, driver)
        okay = q in gated and rc != rr
        bad += not okay
        print(f'[G{k}] {title}\n     gate.apply -> {gated}\n     current   -> {rc}\n     reference -> {rr}\n     {"CONFIRMED" if okay else "NOT CONFIRMED"}')
    for k, (title, cur, ref, q) in enumerate(TRANSPLANT_FINDINGS, 1):
        ct = ast.parse(cur)
        gated = gate.apply(ct, ast.parse(ref), lambda t: None)
        ast.fix_missing_locations(ct)
        _, driver = DEMOS[title]
        m0, m1 = {}, {}
        exec(cur, m0)
        exec(compile(ct, '<current tree after gate.apply>', 'exec'), m1)
        r0, r1 = _outcome(m0, driver), _outcome(m1, driver)
        okay = q in gated and r0 != r1
        bad += not okay
        print(f'[T{k}] {title}\n     gate.apply -> {gated}\n     current module as written  -> {r0}\n     current tree as analysed   -> {r1}\n     {"CONFIRMED" if okay else "NOT CONFIRMED"}')
    return bad


if __name__ == '__main__':
    sys.exit(1 if verify() else 0)
