"""Round-2 soundness findings against tdstatic/equiv.py (red-team area 5: local-variable data flow).

FINDINGS      = [(title, src_a, src_b, kwargs_dict_or_None), ...]  -- same(src_a, src_b, **kwargs) is True, behaviour differs.
GATE_FINDINGS = [(title, current_module_src, reference_module_src, qualname)] -- gate.apply takes qualname as equivalent.
GROUPS        = [(group title with the step / line at fault, [titles])]
DEMOS         = {title: source defining the stubs and `trial(f)`}; run this file to re-verify everything:
    /venv/bin/python /tmp/redteam2/5/findings.py
kwargs may hold helpers_a / helpers_b as SOURCE TEXT of one or more helper functions (converted by same()).
"""
import ast, os, sys
sys.path.insert(0, os.path.dirname(os.path.dirname(os.path.abspath(__file__))))

FINDINGS = []
GATE_FINDINGS = []
GROUPS = []
DEMOS = {}
_cur = [None]


def group(title):
    GROUPS.append((title, []))


def add(title, a, b, demo, kw=None, g=None):
    """g: first letter of the group the pair belongs to (default: the group opened last)"""
    FINDINGS.append((title, a, b, kw))
    DEMOS[title] = demo
    grp = GROUPS[-1] if g is None else [x for x in GROUPS if x[0].startswith(g + '.')][0]
    grp[1].append(title)

# ---------------------------------------------------------------------------------------------------------------------------
group('A. read_chains() drops the index of `x[i].attr` / `x[i][j]`: for an Attribute (or Subscript) whose chain() goes through a '
      'subscript it records the container and returns without descending into the slice, so a later `i = ...` does not '
      'interfere and inline_temps moves the read behind the index update (equiv.py 204-237, rec(): `if isinstance(x, (ast.Attribute, ast.Name)) ... return`)')
add('index advanced between the read of rows[i].name and its use (attribute of an item: the index is not a read)',
    'def f(rows, n):\n    i = 0\n    out = []\n    while i < n:\n        v = rows[i].name\n        i = i + 1\n        out.append((i, v))\n    return out',
    'def f(rows, n):\n    i = 0\n    out = []\n    while i < n:\n        i = i + 1\n        out.append((i, rows[i].name))\n    return out',
    'class R:\n    def __init__(self, n): self.name = n\ndef trial(f): return f([R("a"), R("b"), R("c")], 2)\n')
add('slice bounds advanced between the read of line[pos:pos+n].strip() and its use (fixed-width field parser)',
    'def f(line, n):\n    pos = 0\n    out = []\n    while pos < len(line):\n        tok = line[pos:pos + n].strip()\n        pos += n\n        out.append((pos, tok))\n    return out',
    'def f(line, n):\n    pos = 0\n    out = []\n    while pos < len(line):\n        pos += n\n        out.append((pos, line[pos:pos + n].strip()))\n    return out',
    'def trial(f): return f("ab  cd  ef  ", 4)\n')
add('self.pos advanced between the read of self.buf[self.pos:self.pos+4].strip() and its return',
    'def f(self):\n    tok = self.buf[self.pos:self.pos + 4].strip()\n    self.pos += 4\n    return tok',
    'def f(self):\n    self.pos += 4\n    return self.buf[self.pos:self.pos + 4].strip()',
    'class S:\n    def __init__(self): self.buf = b"AAAABBBBCCCC"; self.pos = 0\ndef trial(f): return f(S())\n')
add('m[i][j]: the row index is not a read of the temp',
    'def f(m, n):\n    i = 0\n    j = 0\n    out = []\n    while i < n:\n        v = m[i][j]\n        i = i + 1\n        out.append((i, v))\n    return out',
    'def f(m, n):\n    i = 0\n    j = 0\n    out = []\n    while i < n:\n        i = i + 1\n        out.append((i, m[i][j]))\n    return out',
    'def trial(f): return f([[1], [2], [3]], 2)\n')
add('sink_into_branches: the impure read is moved behind a test tbl[src.pos].flag that reads what it changes (index not in read_chains)',
    'def f(src, tbl):\n    t = src.next()\n    if tbl[src.pos].flag:\n        return (1, t)\n    else:\n        return (0, t)',
    'def f(src, tbl):\n    if tbl[src.pos].flag:\n        return (1, src.next())\n    else:\n        return (0, src.next())',
    'class E:\n    def __init__(self, f): self.flag = f\nclass Src:\n    def __init__(self): self.pos = 0\n    def next(self):\n        self.pos += 1; return "v%d" % self.pos\ndef trial(f): return f(Src(), [E(False), E(True)])\n')

# ---------------------------------------------------------------------------------------------------------------------------
group('B. ALIASES is computed once, from the function as written, with the names as written (canonical(), equiv.py 3570): after split_webs / ssa_split '
      'rename a reused local (`row` -> `row__w2`) or after a helper body is pasted (`row` -> `row__h1`, and the helper was never scanned) the alias pairs no '
      'longer match, so writes through the alias are not seen (interferes -> _with_aliases, equiv.py 328-357)')
add('loop variable reused by two loops: after web renaming it is no longer an alias of self.rows (temp reads first.count, first = self.rows[0])',
    'def f(self):\n    for row in self.hdr:\n        check(row)\n    first = self.rows[0]\n    for row in self.rows:\n        n = first.count\n        row.count += 1\n        use(n)',
    'def f(self):\n    for row in self.hdr:\n        check(row)\n    first = self.rows[0]\n    for row in self.rows:\n        row.count += 1\n        use(first.count)',
    'class Row:\n    def __init__(self): self.count = 0\nclass S:\n    def __init__(self): self.hdr = [1]; self.rows = [Row(), Row()]\nseen = []\ndef check(r): pass\ndef use(n): seen.append(n)\ndef trial(f):\n    del seen[:]; f(S()); return list(seen)\n')
add('loop variable reused by two loops: comparison of the list read before vs after an element is changed through the (renamed) loop variable',
    'def f(self):\n    for row in self.hdr:\n        check(row)\n    for row in self.rows:\n        same = self.rows == self.prev\n        row.count += 1\n        use(same)',
    'def f(self):\n    for row in self.hdr:\n        check(row)\n    for row in self.rows:\n        row.count += 1\n        use(self.rows == self.prev)',
    'class Row:\n    def __init__(self, c=0): self.count = c\n    def __eq__(self, o): return self.count == o.count\nclass S:\n    def __init__(self): self.hdr = [1]; self.rows = [Row()]; self.prev = [Row()]\nseen = []\ndef check(r): pass\ndef use(n): seen.append(n)\ndef trial(f):\n    del seen[:]; f(S()); return list(seen)\n')
add('alias inside a pasted helper is unknown (ALIASES is taken from the caller before the helper is pasted)',
    'def f(self):\n    self._bump()',
    'def f(self):\n    first = self.rows[0]\n    for row in self.rows:\n        row.count += 1\n        use(first.count)',
    'class Row:\n    def __init__(self): self.count = 0\nclass S:\n    def __init__(self): self.rows = [Row(), Row()]\nseen = []\ndef use(n): seen.append(n)\ndef attach(ns): ns["S"]._bump = ns["_bump"]\ndef trial(f):\n    del seen[:]; f(S()); return list(seen)\n',
    {'helpers_a': 'def _bump(self):\n    first = self.rows[0]\n    for row in self.rows:\n        n = first.count\n        row.count += 1\n        use(n)'})

# ---------------------------------------------------------------------------------------------------------------------------
group('C. sort_independent_runs / _reorderable do not consult ALIASES at all (equiv.py 1684-1740): two statements that touch one object under two names are "independent" and are sorted by text')
add('object stored into an attribute, then a field set through the local and read through the attribute: the two statements are sorted',
    'def f(self, rec):\n    self.cur = rec\n    rec.count = 0\n    self.total = self.cur.count',
    'def f(self, rec):\n    self.cur = rec\n    self.total = self.cur.count\n    rec.count = 0',
    'class Rec:\n    def __init__(self): self.count = 7\nclass S: pass\ndef trial(f):\n    s = S(); f(s, Rec()); return s.total\n')

add('two literal stores to one object under two names swapped (sort_independent_runs, and independently _bubble, equiv.py 2965-2981)',
    'def f(self, rec):\n    self.cur = rec\n    rec.n = 1\n    self.cur.n = 2',
    'def f(self, rec):\n    self.cur = rec\n    self.cur.n = 2\n    rec.n = 1',
    'class Rec: pass\nclass S: pass\ndef trial(f):\n    r = Rec(); f(S(), r); return r.n\n')

# ---------------------------------------------------------------------------------------------------------------------------
group('D. assignments_to_ifexp splits `a, b = X, Y` (name targets) into `a = X; b = Y` even when Y can fail (equiv.py 1372-1385: the may_raise test is applied to attribute targets only): '
      'inside a try body the first name is already bound when the second value fails')
add('tuple assignment inside try split in two: partial binding visible after the handler',
    'def f(x, y):\n    a = b = None\n    try:\n        a, b = x[0], y[0]\n    except IndexError:\n        pass\n    return a, b',
    'def f(x, y):\n    a = b = None\n    try:\n        a = x[0]\n        b = y[0]\n    except IndexError:\n        pass\n    return a, b',
    'def trial(f): return f([1], [])\n')

# ---------------------------------------------------------------------------------------------------------------------------
group('E. sink_constant_inits moves `n = <literal>` down across calls although a closure defined earlier reads n (equiv.py 1469-1521: only names in handlers are excluded; '
      '_has_nested_scope_use is not asked)')
add('literal reset moved behind the call of a callback that reads the local',
    'def f(self):\n    n = 5\n    cb = lambda: n\n    n = 0\n    self.run(cb)\n    n = 1\n    self.run(cb)',
    'def f(self):\n    n = 5\n    cb = lambda: n\n    self.run(cb)\n    n = 0\n    n = 1\n    self.run(cb)',
    'class S:\n    def __init__(self): self.got = []\n    def run(self, cb): self.got.append(cb())\ndef trial(f):\n    s = S(); f(s); return s.got\n')

# ---------------------------------------------------------------------------------------------------------------------------
group('F. a call with side effects is moved behind a side-effect-free expression that can FAIL (may_raise is asked about the moved temp, never about what it is moved across): '
      'sink_into_branches (equiv.py 1597-1602, the test), inline_next_use / _impure_before (1135-1157, reads evaluated before the use), inline_temps (2047-2060, _evaluated_before lists impure things only)')
add('sink_into_branches: stream read moved behind a table lookup that can raise (position after the exception differs)',
    'def f(self, tbl, k):\n    t = self.read()\n    if tbl[k]:\n        return (1, t)\n    else:\n        return (0, t)',
    'def f(self, tbl, k):\n    if tbl[k]:\n        return (1, self.read())\n    else:\n        return (0, self.read())',
    'class S:\n    def __init__(self): self.pos = 0\n    def read(self):\n        self.pos += 1; return self.pos\ndef trial(f):\n    s = S()\n    try: f(s, {}, 3)\n    except KeyError: pass\n    return s.pos\n')
add('inline_next_use: stream read moved behind the lookup out[k] that can raise',
    'def f(self, out, k):\n    v = self.read()\n    out[k].append(v)',
    'def f(self, out, k):\n    out[k].append(self.read())',
    'class S:\n    def __init__(self): self.pos = 0\n    def read(self):\n        self.pos += 1; return self.pos\ndef trial(f):\n    s = S()\n    try: f(s, {}, 3)\n    except KeyError: pass\n    return s.pos\n')
add('inline_temps: a lookup that can raise is moved behind another one in the using statement (which exception is raised)',
    'def f(d, k, x, j):\n    t = d[k]\n    return (x[j], t)',
    'def f(d, k, x, j):\n    return (x[j], d[k])',
    'def trial(f): return f({}, 1, [], 0)\n')

add('seq(): `self.m = None` before `if d[k]: self.m = 1` becomes the else-branch default although the test can raise (equiv.py 2942-2955): the attribute is (not) reset when the lookup fails',
    'def f(self, d, k):\n    self.m = None\n    if d[k]:\n        self.m = 1\n    self.n = 2',
    'def f(self, d, k):\n    if d[k]:\n        self.m = 1\n    else:\n        self.m = None\n    self.n = 2',
    'class S:\n    m = "old"\ndef trial(f):\n    s = S()\n    try: f(s, {}, 3)\n    except KeyError: pass\n    return s.m\n')

# ---------------------------------------------------------------------------------------------------------------------------
group('G. _allocates() misses values that are new mutable objects: `a + b` / `a * n` on plain names, `x or []`, `d.get(k, [])` (equiv.py 1994-2010); inline_temps then writes the '
      'value out once per use: one shared list becomes two lists')
add('a + b (lists) shared by two attributes vs two separate lists',
    'def f(self, a, b):\n    row = a + b\n    self.p = row\n    self.q = row',
    'def f(self, a, b):\n    self.p = a + b\n    self.q = a + b',
    'class S: pass\ndef trial(f):\n    s = S(); f(s, [1], [2]); s.p.append(9); return s.q\n')
add('d.get(k, []) default list shared by two attributes vs two separate lists',
    'def f(self, d, k):\n    rows = d.get(k, [])\n    self.a = rows\n    self.b = rows',
    'def f(self, d, k):\n    self.a = d.get(k, [])\n    self.b = d.get(k, [])',
    'class S: pass\ndef trial(f):\n    s = S(); f(s, {}, 1); s.a.append(9); return s.b\n')

# ---------------------------------------------------------------------------------------------------------------------------
group('H. split_webs: a walrus inside a comprehension binds the function\'s local but uses_in() registers the definition only `if not bound` (equiv.py 2205-2212): '
      'the other definitions of the name are renamed apart and a later read is resolved to the stale one (then folded to its literal)')
add('walrus in a list comprehension is not a definition: `return last` becomes `return 0`',
    'def f(xs):\n    last = None\n    use(last)\n    last = 0\n    ok = [(last := x) for x in xs]\n    return last',
    'def f(xs):\n    last = None\n    use(last)\n    last = 0\n    ok = [(last := x) for x in xs]\n    return 0',
    'def use(x): pass\ndef trial(f): return f([3, 4])\n')

# ---------------------------------------------------------------------------------------------------------------------------
group('I. written_chains(): the receiver / argument of an impure call is looked at only when it is a name, attribute chain, item, display or conditional expression '
      '(equiv.py 280-314); a receiver `getattr(self, name)` or `(self.rows or self.spare)`, an argument `buf or self.buf` write nothing')
add('getattr(self, name).append(r) does not interfere with len(self.rows)',
    'def f(self, name, r):\n    n = len(self.rows)\n    getattr(self, name).append(r)\n    return n',
    'def f(self, name, r):\n    getattr(self, name).append(r)\n    return len(self.rows)',
    'class S:\n    def __init__(self): self.rows = []\ndef trial(f): return f(S(), "rows", 1)\n')
add('(self.rows or self.spare).append(r) does not interfere with len(self.rows)',
    'def f(self, r):\n    n = len(self.rows)\n    (self.rows or self.spare).append(r)\n    return n',
    'def f(self, r):\n    (self.rows or self.spare).append(r)\n    return len(self.rows)',
    'class S:\n    def __init__(self): self.rows = [0]; self.spare = []\ndef trial(f): return f(S(), 1)\n')
add('whole-object argument `buf or self.buf` is not written',
    'def f(self, buf):\n    n = len(self.buf)\n    self.src.readinto(buf or self.buf)\n    return n',
    'def f(self, buf):\n    self.src.readinto(buf or self.buf)\n    return len(self.buf)',
    'class Src:\n    def readinto(self, b): b.extend(b"abcd")\nclass S:\n    def __init__(self): self.buf = bytearray(); self.src = Src()\ndef trial(f): return f(S(), None)\n')

# ---------------------------------------------------------------------------------------------------------------------------
group('J. a call of a closure defined in the same function writes nothing: written_chains() sees `advance()` / `items.each(bump)` as a call without a receiver or '
      'with the argument `bump` only (equiv.py 280-314), although the body of the closure (a few lines above) changes self.pos / self.rows / a local list')
add('local helper closure advances self.pos between the read and the use',
    'def f(self):\n    def advance():\n        self.pos += 1\n    t = self.pos\n    advance()\n    return t',
    'def f(self):\n    def advance():\n        self.pos += 1\n    advance()\n    return self.pos',
    'class S:\n    pos = 0\ndef trial(f): return f(S())\n')
add('callback lambda appends to self.rows while it is handed to a visitor',
    'def f(self, items):\n    bump = lambda r: self.rows.append(r)\n    n = len(self.rows)\n    items.each(bump)\n    return n',
    'def f(self, items):\n    bump = lambda r: self.rows.append(r)\n    items.each(bump)\n    return len(self.rows)',
    'class Items:\n    def each(self, cb):\n        for x in (1, 2): cb(x)\nclass S:\n    def __init__(self): self.rows = []\ndef trial(f): return f(S(), Items())\n')
add('closure appends to a local list; its length is read before vs after the loop that calls the closure',
    'def f(xs):\n    out = []\n    def emit(x):\n        out.append(x)\n    n = len(out)\n    for x in xs:\n        emit(x)\n    return n',
    'def f(xs):\n    out = []\n    def emit(x):\n        out.append(x)\n    for x in xs:\n        emit(x)\n    return len(out)',
    'def trial(f): return f([1, 2, 3])\n')

# ---------------------------------------------------------------------------------------------------------------------------
group('K. inline_temps moves a plain attribute read into a try body whose handler catches AttributeError (attribute reads are taken as unable to fail, may_raise(), equiv.py 101-117)')
add('optional attribute read before the try vs inside it (except AttributeError)',
    'def f(self):\n    t = self.opt\n    try:\n        return g(t)\n    except AttributeError:\n        return None',
    'def f(self):\n    try:\n        return g(self.opt)\n    except AttributeError:\n        return None',
    'class S: pass\ndef g(x): return x\ndef trial(f): return f(S())\n')

# ---------------------------------------------------------------------------------------------------------------------------
group('L. consumes_name() knows iterators held in bare names only (equiv.py 143-159): `list(self.it)` on an attribute that holds an iterator / generator is a '
      'side-effect-free value, so drop_dead_locals deletes the statement that exhausts it (equiv.py 1849-1853)')
add('unused `skipped = list(self.it)` dropped: the iterator kept in an attribute is no longer exhausted',
    'def f(self):\n    skipped = list(self.it)\n    return self.n',
    'def f(self):\n    return self.n',
    'class S:\n    n = 0\n    def __init__(self): self.it = iter([1, 2, 3])\ndef trial(f):\n    s = S(); f(s); return next(s.it, "exhausted")\n')
add('inline_next_use: the closure call that advances self.pos is moved behind the read of self.pos in the using statement',
    'def f(self):\n    def advance():\n        self.pos += 1\n        return self.pos\n    v = advance()\n    return (self.pos, v)',
    'def f(self):\n    def advance():\n        self.pos += 1\n        return self.pos\n    return (self.pos, advance())',
    'class S:\n    pos = 0\ndef trial(f): return f(S())\n', g='J')

# ---------------------------------------------------------------------------------------------------------------------------
group('M. _alias_sources() (equiv.py 3462-3487) does not see that a loop variable is an element of the container when the iterable is `d.values()` / `d.items()`, '
      'a concatenation `a + b` or a list comprehension over the container: changes made through the loop variable do not interfere with reads through the container')
add('for r in self.tbl.values(): r.count += 1 does not interfere with self.tbl.get(k).count',
    'def f(self, k):\n    t = self.tbl.get(k).count\n    for r in self.tbl.values():\n        r.count += 1\n    return t',
    'def f(self, k):\n    for r in self.tbl.values():\n        r.count += 1\n    return self.tbl.get(k).count',
    'class R:\n    count = 0\nclass S:\n    def __init__(self): self.tbl = {1: R()}\ndef trial(f): return f(S(), 1)\n')
add('for key, rows in self.tbl.items(): rows.append(key) does not interfere with len(self.tbl.get(k, ()))',
    'def f(self, k):\n    n = len(self.tbl.get(k, ()))\n    for key, rows in self.tbl.items():\n        rows.append(key)\n    return n',
    'def f(self, k):\n    for key, rows in self.tbl.items():\n        rows.append(key)\n    return len(self.tbl.get(k, ()))',
    'class S:\n    def __init__(self): self.tbl = {1: []}\ndef trial(f): return f(S(), 1)\n')
add('for r in self.rows + self.extra: r.count += 1 does not interfere with a comparison of self.rows',
    'def f(self):\n    same = self.rows == self.prev\n    for r in self.rows + self.extra:\n        r.count += 1\n    return same',
    'def f(self):\n    for r in self.rows + self.extra:\n        r.count += 1\n    return self.rows == self.prev',
    'class Row:\n    def __init__(self, c=0): self.count = c\n    def __eq__(self, o): return self.count == o.count\nclass S:\n    def __init__(self): self.rows = [Row()]; self.prev = [Row()]; self.extra = []\ndef trial(f): return f(S())\n')

# ---------------------------------------------------------------------------------------------------------------------------
group('N. inline_temps, temps whose value can fail (equiv.py 2047-2060): plain `name = <side-effect-free>` statements are allowed between the definition and the use, '
      'but inside a try body such a statement is a progress flag the handler path observes: the failing lookup is moved behind `ok = True`')
add('flag set after a successful lookup: the lookup is moved behind the flag inside the try body',
    'def f(d, k):\n    ok = False\n    try:\n        v = d[k]\n        ok = True\n        use(v)\n    except KeyError:\n        pass\n    return ok',
    'def f(d, k):\n    ok = False\n    try:\n        ok = True\n        use(d[k])\n    except KeyError:\n        pass\n    return ok',
    'def use(v): pass\ndef trial(f): return f({}, 1)\n')
add('counter set after a successful int(): the conversion is moved behind it inside the try body',
    'def f(self, s):\n    n = 0\n    try:\n        v = int(s)\n        n = 1\n        self.vals.append(v)\n    except ValueError:\n        self.bad += 1\n    return n',
    'def f(self, s):\n    n = 0\n    try:\n        n = 1\n        self.vals.append(int(s))\n    except ValueError:\n        self.bad += 1\n    return n',
    'class S:\n    def __init__(self): self.vals = []; self.bad = 0\ndef trial(f): return f(S(), "x")\n')

# ---------------------------------------------------------------------------------------------------------------------------
group('O. written_chains(): `with X:` writes only the `as` targets (equiv.py 270-275); entering / leaving an existing object (a file, a lock kept in an attribute) '
      'changes that object, but a temp that reads it is moved across the whole block')
add('self.fh.closed read before vs after `with self.fh:`',
    'def f(self):\n    was = self.fh.closed\n    with self.fh:\n        self.n = 1\n    return was',
    'def f(self):\n    with self.fh:\n        self.n = 1\n    return self.fh.closed',
    'import io\nclass S:\n    def __init__(self): self.fh = io.BytesIO(b"x")\ndef trial(f): return f(S())\n')

# ---------------------------------------------------------------------------------------------------------------------------
group('P. written_chains() marks `await` / `yield` as "anything may change" (equiv.py 323-324) but `async with` / `async for` suspend the coroutine without such a node: '
      'a temp is moved across the suspension point')
add('self.n read before vs after `async with self.lock:` (another task runs while the lock is awaited)',
    'async def f(self):\n    t = self.n\n    async with self.lock:\n        pass\n    return t',
    'async def f(self):\n    async with self.lock:\n        pass\n    return self.n',
    'import asyncio\nclass Lock:\n    async def __aenter__(self): await asyncio.sleep(0)\n    async def __aexit__(self, *a): pass\nclass S:\n    def __init__(self): self.n = 0; self.lock = Lock()\nasync def other(s): s.n = 5\ndef trial(f):\n    async def main():\n        s = S()\n        t1 = asyncio.ensure_future(f(s)); t2 = asyncio.ensure_future(other(s))\n        r = await t1; await t2; return r\n    return asyncio.run(main())\n')
add('self.n read before vs after `async for x in stream:`',
    'async def f(self, stream):\n    t = self.n\n    async for x in stream:\n        use(x)\n    return t',
    'async def f(self, stream):\n    async for x in stream:\n        use(x)\n    return self.n',
    'import asyncio\nclass Stream:\n    def __init__(self): self.k = 0\n    def __aiter__(self): return self\n    async def __anext__(self):\n        await asyncio.sleep(0); self.k += 1\n        if self.k > 2: raise StopAsyncIteration\n        return self.k\nclass S:\n    n = 0\ndef use(x): pass\nasync def other(s): s.n = 5\ndef trial(f):\n    async def main():\n        s = S()\n        t1 = asyncio.ensure_future(f(s, Stream())); t2 = asyncio.ensure_future(other(s))\n        r = await t1; await t2; return r\n    return asyncio.run(main())\n')

# ---------------------------------------------------------------------------------------------------------------------------
group('Q. _assume_local() (equiv.py 2787-2803, called from _mk_cond_leaf 2775-2779): under `if q:` / `if not q:` the text `(Not q)` is folded to a literal whenever q is not '
      'ASSIGNED in the branch; a local list / queue that the branch fills or drains has changed its truth value by then')
add('queue drained inside `if pending:`: `self.idle = not pending` folded to False',
    'def f(self):\n    pending = self.take()\n    if pending:\n        while pending:\n            self.emit(pending.pop())\n        self.idle = not pending',
    'def f(self):\n    pending = self.take()\n    if pending:\n        while pending:\n            self.emit(pending.pop())\n        self.idle = False',
    'class S:\n    idle = None\n    def take(self): return [1, 2]\n    def emit(self, x): pass\ndef trial(f):\n    s = S(); f(s); return s.idle\n')
add('list filled inside `if not q:`: `self.was_empty = not q` folded to True',
    'def f(self, x):\n    q = self.take()\n    if not q:\n        q.append(x)\n        self.was_empty = not q\n    return q',
    'def f(self, x):\n    q = self.take()\n    if not q:\n        q.append(x)\n        self.was_empty = True\n    return q',
    'class S:\n    was_empty = None\n    def take(self): return []\ndef trial(f):\n    s = S(); f(s, 1); return s.was_empty\n')
add('_assume / _aliased_in (equiv.py 2806-2837) after web renaming: the repeated test self.rows[0].n == 1 is resolved across `row.n = 2` (row renamed row__w2, no longer a known alias)',
    'def f(self):\n    for row in self.hdr:\n        check(row)\n    for row in self.rows:\n        if self.rows[0].n == 1:\n            row.n = 2\n            if self.rows[0].n == 1:\n                g()',
    'def f(self):\n    for row in self.hdr:\n        check(row)\n    for row in self.rows:\n        if self.rows[0].n == 1:\n            row.n = 2\n            g()',
    'class Row:\n    n = 1\nclass S:\n    def __init__(self): self.hdr = [0]; self.rows = [Row()]\ncalls = []\ndef check(r): pass\ndef g(): calls.append("g")\ndef trial(f):\n    del calls[:]; f(S()); return list(calls)\n', g='B')
add('`key in it` on an iterator held in a bare name is a side-effect-free value: written out once per use, the second test goes on consuming',
    'def f(it, key, out):\n    found = key in it\n    out.append(found)\n    out.append(found)',
    'def f(it, key, out):\n    out.append(key in it)\n    out.append(key in it)',
    'def trial(f):\n    out = []; f(iter([1, 2, 3]), 2, out); return out\n', g='L')

# ---------------------------------------------------------------------------------------------------------------------------
group('R. _mk_if() drops a side-effect-free test whose two branches are identical (equiv.py 2865-2866) even when the test can RAISE; with drop_dead_locals removing the '
      'unused locals set in the branches (before assignments_to_ifexp could turn them into a kept conditional expression) a validating lookup / conversion disappears')
add('unused local removed together with the `if tbl[k]:` that set it: the KeyError for an unknown k is gone',
    'def f(self, tbl, k):\n    if tbl[k]:\n        mode = 1\n    else:\n        mode = 2\n    return self.n',
    'def f(self, tbl, k):\n    return self.n',
    'class S:\n    n = 0\ndef trial(f): return f(S(), {}, 3)\n')
add('`if int(s) > 0: pass` dropped: the ValueError for a malformed field is gone',
    'def f(self, s):\n    if int(s) > 0:\n        pass\n    return self.n',
    'def f(self, s):\n    return self.n',
    'class S:\n    n = 0\ndef trial(f): return f(S(), "x")\n')
add('store through the result of a side-effect-free call: `rec = self.tbl.get(k)` is inlined, then `self.tbl.get(k).n += 1` writes nothing (target chain is None, equiv.py 257-264)',
    'def f(self, k):\n    rec = self.tbl.get(k)\n    t = rec.n\n    rec.n += 1\n    return t',
    'def f(self, k):\n    rec = self.tbl.get(k)\n    rec.n += 1\n    return rec.n',
    'class R:\n    n = 0\nclass S:\n    def __init__(self): self.tbl = {1: R()}\ndef trial(f): return f(S(), 1)\n', g='I')
add('type(self).counter += 1 does not interfere with the read self.counter (next-id idiom)',
    'def f(self):\n    n = self.counter\n    type(self).counter += 1\n    return n',
    'def f(self):\n    type(self).counter += 1\n    return self.counter',
    'class S:\n    counter = 0\ndef trial(f): return f(S())\n', g='I')
add('self.__class__.counter += 1 does not interfere with the read self.counter',
    'def f(self):\n    n = self.counter\n    self.__class__.counter += 1\n    return n',
    'def f(self):\n    self.__class__.counter += 1\n    return self.counter',
    'class S:\n    counter = 0\ndef trial(f): return f(S())\n', g='I')

# ---------------------------------------------------------------------------------------------------------------------------
group('S. _with_aliases() closes the alias relation in at most three rounds (equiv.py 328-343): with four nested loops (blocks -> rows -> cells -> bits) a write through the '
      'innermost loop variable never reaches self.blocks')
add('four nested loops: bit.on = True does not interfere with a comparison of self.blocks',
    'def f(self):\n    for blk in self.blocks:\n        for row in blk.rows:\n            for cell in row.cells:\n                for bit in cell.bits:\n                    t = self.blocks == self.snapshot\n                    bit.on = True\n                    use(t)',
    'def f(self):\n    for blk in self.blocks:\n        for row in blk.rows:\n            for cell in row.cells:\n                for bit in cell.bits:\n                    bit.on = True\n                    use(self.blocks == self.snapshot)',
    'class N:\n    def __init__(self, **kw): self.__dict__.update(kw)\n    def __eq__(self, o): return self.__dict__ == o.__dict__\ndef mk(): return [N(rows=[N(cells=[N(bits=[N(on=False)])])])]\nclass S:\n    def __init__(self): self.blocks = mk(); self.snapshot = mk()\nseen = []\ndef use(t): seen.append(t)\ndef trial(f):\n    del seen[:]; f(S()); return list(seen)\n')

# ---------------------------------------------------------------------------------------------------------------------------
group('T. inline_next_use into a `with` header (equiv.py 1279-1303 with _stmt_exprs 1129-1131 / _impure_before): the context expressions are taken as evaluated one after the other, '
      'but `__enter__` of an earlier item runs before the next context expression is evaluated: the call is moved behind the acquisition of the lock')
add('`t = src.open(); with self.lock, t:` vs `with self.lock, src.open():` (open before vs after the lock is taken)',
    'def f(self, src):\n    t = src.open()\n    with self.lock, t:\n        self.go()',
    'def f(self, src):\n    with self.lock, src.open():\n        self.go()',
    'log = []\nclass Lock:\n    def __enter__(self): log.append("lock"); return self\n    def __exit__(self, *a): pass\nclass H:\n    def __enter__(self): return self\n    def __exit__(self, *a): pass\nclass Src:\n    def open(self): log.append("open"); return H()\nclass S:\n    def __init__(self): self.lock = Lock()\n    def go(self): pass\ndef trial(f):\n    del log[:]; f(S(), Src()); return list(log)\n')

# ---------------------------------------------------------------------------------------------------------------------------
# the same holes through the production path gate.apply(current, reference): (title, current module, reference module, qualified name); each module defines trial(_)
_STREAM = '''class Reader:
    def __init__(self):
        self.buf = b"AAAABBBBCCCC"
        self.pos = 0
        self.rows = []
        self.vals = []
        self.bad = 0
%s
def trial(_):
%s
'''
def _gate(title, cur_methods, ref_methods, trial_body, q):
    GATE_FINDINGS.append((title, _STREAM % (cur_methods, trial_body), _STREAM % (ref_methods, trial_body), q))

_gate('read_chains drops slice bounds: field read after self.pos was advanced',
      '    def field(self):\n        self.pos += 4\n        return self.buf[self.pos:self.pos + 4].strip()\n',
      '    def field(self):\n        tok = self.buf[self.pos:self.pos + 4].strip()\n        self.pos += 4\n        return tok\n',
      '    return Reader().field()\n', 'Reader.field')
_gate('conversion moved behind the progress counter inside the try body',
      '    def add(self, s):\n        n = 0\n        try:\n            n = 1\n            self.vals.append(int(s))\n        except ValueError:\n            self.bad += 1\n        return n\n',
      '    def add(self, s):\n        n = 0\n        try:\n            v = int(s)\n            n = 1\n            self.vals.append(v)\n        except ValueError:\n            self.bad += 1\n        return n\n',
      '    return Reader().add("x")\n', 'Reader.add')
_gate('local closure advances self.pos between the read and the use',
      '    def mark(self):\n        def advance():\n            self.pos += 1\n        advance()\n        return self.pos\n',
      '    def mark(self):\n        def advance():\n            self.pos += 1\n        t = self.pos\n        advance()\n        return t\n',
      '    return Reader().mark()\n', 'Reader.mark')
_gate('tuple assignment inside try split in two',
      '    def pair(self, x, y):\n        a = b = None\n        try:\n            a = x[0]\n            b = y[0]\n        except IndexError:\n            pass\n        return a, b\n',
      '    def pair(self, x, y):\n        a = b = None\n        try:\n            a, b = x[0], y[0]\n        except IndexError:\n            pass\n        return a, b\n',
      '    return Reader().pair([1], [])\n', 'Reader.pair')
_gate('alias inside a helper method created by the refactoring (pasted with renamed locals, never scanned for aliases)',
      '    def bump(self, out):\n        self._bump(out)\n    def _bump(self, out):\n        first = self.rows[0]\n        for row in self.rows:\n            n = len(first)\n            row.append(0)\n            out.append(n)\n',
      '    def bump(self, out):\n        first = self.rows[0]\n        for row in self.rows:\n            row.append(0)\n            out.append(len(first))\n',
      '    r = Reader(); r.rows = [[], []]; out = []; r.bump(out); return out\n', 'Reader.bump')



def _helpers(hs):
    if hs is None or isinstance(hs, dict):
        return hs
    out = {}
    for h in ast.parse(hs).body:
        out[h.name] = (h, bool(h.args.args) and h.args.args[0].arg == 'self' or any(isinstance(d, ast.Name) and d.id == 'staticmethod' for d in h.decorator_list))
    return out


def same(a, b, **kw):
    from tdstatic import equiv
    saved = equiv.REPO_DEFINED[0]
    equiv.REPO_DEFINED[0] = frozenset()
    try:
        ca = equiv.canonical(ast.parse(a).body[0], _helpers(kw.get('helpers_a')), dicts=kw.get('dicts'), sized=kw.get('sized'), props=kw.get('props'))
        cb = equiv.canonical(ast.parse(b).body[0], _helpers(kw.get('helpers_b')), dicts=kw.get('dicts'), sized=kw.get('sized'), props=kw.get('props'))
    finally:
        equiv.REPO_DEFINED[0] = saved
    return ca is not None and ca == cb


def _same(a, b, kw):
    return same(a, b, **(kw or {}))


def _outcome(trial, f):
    try:
        return ('returned', trial(f))
    except Exception as e:
        return ('raised', type(e).__name__, str(e))


def _run(demo, src, extra):
    ns = {}
    exec(demo, ns)
    if extra:
        exec(extra, ns)         # helper functions (module level; methods are attached by the demo's `attach`)
        if 'attach' in ns:
            ns['attach'](ns)
    exec(src, ns)
    return _outcome(ns['trial'], ns['f'])


def verify(verbose=True):
    bad = 0
    for k, (title, a, b, kw) in enumerate(FINDINGS, 1):
        kw = kw or {}
        s = same(a, b, **kw)
        oa = _run(DEMOS[title], a, kw.get('helpers_a'))
        ob = _run(DEMOS[title], b, kw.get('helpers_b'))
        ok = s and oa != ob
        bad += not ok
        if verbose:
            print(f'[{k:2d}] {"CONFIRMED" if ok else "NOT CONFIRMED"}  same()={s}  {title}')
            print(f'       A: {oa}')
            print(f'       B: {ob}')
    from tdstatic import equiv, gate
    for title, cur, ref, q in GATE_FINDINGS:
        saved = equiv.REPO_DEFINED[0]
        equiv.REPO_DEFINED[0] = frozenset()
        try:
            taken = q in gate.apply(ast.parse(cur), ast.parse(ref), lambda t: None)
        finally:
            equiv.REPO_DEFINED[0] = saved
        na, nb = {}, {}
        exec(cur, na)
        exec(ref, nb)
        oa, ob = _outcome(na['trial'], None), _outcome(nb['trial'], None)
        ok = taken and oa != ob
        bad += not ok
        if verbose:
            print(f'[gate] {"CONFIRMED" if ok else "NOT CONFIRMED"}  taken={taken}  {title}')
            print(f'       current:   {oa}')
            print(f'       reference: {ob}')
    print(f'{len(FINDINGS) + len(GATE_FINDINGS) - bad} of {len(FINDINGS) + len(GATE_FINDINGS)} findings confirmed')
    return bad


if __name__ == '__main__':
    sys.exit(1 if verify() else 0)
