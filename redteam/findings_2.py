"""Red-team findings against tdstatic/equiv.py (focus: exceptions and context managers).

FINDINGS = [(title, src_a, src_b, kwargs_dict_or_None), ...]
   kwargs may hold 'helpers_a' / 'helpers_b' as SOURCE TEXT of one helper (converted to {name: (FunctionDef, is_method)} by
   `_helpers`, the way equiv_selftest does) and 'dicts'.
DEMOS[title] = (stub source, call source): the stub source is exec'd into a fresh namespace together with version A or B of
   the function; the call source defines `run(f)` which returns what is observable.

Run:  /venv/bin/python /tmp/redteam/2/findings.py      (prints same() and the two differing outcomes for every finding)
"""
import ast
import sys

sys.path.insert(0, __import__('os').path.dirname(__import__('os').path.dirname(__import__('os').path.abspath(__file__))))
from tdstatic import equiv  # noqa: E402

equiv.REPO_DEFINED[0] = frozenset()

FINDINGS = []
DEMOS = {}


def F(title, a, b, kw, stubs, call):
    FINDINGS.append((title, a, b, kw))
    DEMOS[title] = (stubs, call)


COMMON = '''
class E(Exception):
    pass
class Rec:
    def __init__(self, **kw):
        self.__dict__.update(kw)
class Log:
    """collaborator stub: records every call made on it (name, args) in order"""
    def __init__(self, **ret):
        self.calls = []
        self._ret = ret
    def __getattr__(self, name):
        if name.startswith('__'):
            raise AttributeError(name)
        def m(*a):
            self.calls.append((name,) + a)
            r = self._ret.get(name)
            if isinstance(r, BaseException):
                raise r
            return r
        return m
'''

# ---------------------------------------------------------------------------------------------------------------- 1
F('W1 split_webs: assignment made before a raise inside a nested if of the try body is invisible to the handler (dropped as dead)',
  '''def f(self, r):
    code = 0
    try:
        if r.bad:
            code = 2
            raise E('bad')
        self.process(r)
    except E:
        self.report(code)''',
  '''def f(self, r):
    code = 0
    try:
        if r.bad:
            raise E('bad')
        self.process(r)
    except E:
        self.report(code)''', None,
  COMMON, '''
def run(f):
    s = Log()
    f(s, Rec(bad=True))
    return s.calls
''')

F('W2 split_webs: progress marker set inside a with block of the try body is invisible to the handler',
  '''def f(p):
    stage = 'open'
    try:
        with opener(p) as h:
            stage = 'read'
            parse(h)
            stage = 'done'
    except E:
        log(stage)
    return stage''',
  '''def f(p):
    stage = 'open'
    try:
        with opener(p) as h:
            parse(h)
            stage = 'done'
    except E:
        log(stage)
    return stage''', None,
  COMMON + '''
import contextlib
LOGGED = []
@contextlib.contextmanager
def opener(p):
    yield p
def parse(h):
    raise E('broken record')
def log(x):
    LOGGED.append(x)
''', '''
def run(f):
    return f('file'), LOGGED
''')

F('W3 split_webs: "current record" remembered inside a loop of the try body is invisible to the handler',
  '''def f(rs):
    cur = None
    try:
        for r in rs:
            cur = r
            process(r)
            cur = None
    except E:
        report(cur)''',
  '''def f(rs):
    cur = None
    try:
        for r in rs:
            process(r)
            cur = None
    except E:
        report(cur)''', None,
  COMMON + '''
REPORTED = []
def process(r):
    if r == 'r2':
        raise E(r)
def report(x):
    REPORTED.append(x)
''', '''
def run(f):
    f(['r1', 'r2', 'r3'])
    return REPORTED
''')

F('W4 split_webs: state set in a handler before a call that raises is invisible to the finally clause',
  '''def f():
    st = 0
    try:
        a()
    except E:
        st = 1
        b()
        st = 2
    finally:
        log(st)''',
  '''def f():
    st = 0
    try:
        a()
    except E:
        b()
        st = 2
    finally:
        log(st)''', None,
  COMMON + '''
LOGGED = []
def a():
    raise E('a')
def b():
    raise ValueError('b')
def log(x):
    LOGGED.append(x)
''', '''
def run(f):
    try:
        f()
    except ValueError:
        pass
    return LOGGED
''')

F('W5 split_webs: assignment before a return inside a nested if of the try body is invisible to the finally clause',
  '''def f(self, c):
    x = 0
    try:
        if c:
            x = 1
            return self.g()
        self.h()
    finally:
        self.log(x)''',
  '''def f(self, c):
    x = 0
    try:
        if c:
            return self.g()
        self.h()
    finally:
        self.log(x)''', None,
  COMMON, '''
def run(f):
    s = Log()
    f(s, True)
    return s.calls
''')

F('W6 split_webs: assignment in a finally clause reached only through continue is dropped (continue env bypasses finally)',
  '''def f(xs):
    n = 0
    for x in xs:
        try:
            if x.ok:
                continue
            return -1
        finally:
            n = n + 1
    return n''',
  '''def f(xs):
    n = 0
    for x in xs:
        try:
            if x.ok:
                continue
            return -1
        finally:
            pass
    return n''', None,
  COMMON, '''
def run(f):
    return f([Rec(ok=True), Rec(ok=True), Rec(ok=True)])
''')

# ---------------------------------------------------------------------------------------------------------------- 2
F('L1 literal locals of a try body vanish when the final `return x` is moved to the else-part: any two literals are "equal"',
  '''def f(self, c):
    try:
        x = 0
        self.a()
        if c:
            x = 1
        self.risky()
        return x
    except E:
        return -1''',
  '''def f(self, c):
    try:
        x = 10
        self.a()
        if c:
            x = 20
        self.risky()
        return x
    except E:
        return -1''', None,
  COMMON, '''
def run(f):
    return f(Log(), True), f(Log(), False)
''')

F('L2 literal assigned in the else-part of a try/finally vanishes (else-part canonicalised with an empty continuation)',
  '''def f(self):
    ok = 0
    try:
        self.a()
    except E:
        pass
    else:
        ok = 1
    finally:
        self.c()
    return ok''',
  '''def f(self):
    ok = 0
    try:
        self.a()
    except E:
        pass
    else:
        pass
    finally:
        self.c()
    return ok''', None,
  COMMON, '''
def run(f):
    return f(Log())
''')

# ---------------------------------------------------------------------------------------------------------------- 3
F('R1 return_of_assignment: `t = E; return t` -> `return E` although the finally clause reads t',
  '''def f(self):
    t = 0
    try:
        t = self.g()
        return t
    finally:
        self.log(t)''',
  '''def f(self):
    t = 0
    try:
        return self.g()
    finally:
        self.log(t)''', None,
  COMMON, '''
def run(f):
    s = Log(g=7)
    f(s)
    return s.calls
''')

F('C1 copy_propagate: `x = p` renamed to p although the handler of the enclosing try still reads the original p',
  '''def f(self, p):
    try:
        x = p
        if self.c:
            x = self.fix(x)
        self.use(x)
    except E:
        self.log(p)''',
  '''def f(self, p):
    try:
        if self.c:
            p = self.fix(p)
        self.use(p)
    except E:
        self.log(p)''', None,
  COMMON + '''
class S(Log):
    c = True
''', '''
def run(f):
    s = S(fix='FIXED', use=E('boom'))
    f(s, 'orig')
    return s.calls[-1]
''')

F('C2 copy_propagate: the same with a finally clause reading p',
  '''def f(self, p):
    try:
        x = p
        if self.c:
            x = self.fix(x)
        self.use(x)
    finally:
        self.log(p)''',
  '''def f(self, p):
    try:
        if self.c:
            p = self.fix(p)
        self.use(p)
    finally:
        self.log(p)''', None,
  COMMON + '''
class S(Log):
    c = True
''', '''
def run(f):
    s = S(fix='FIXED')
    f(s, 'orig')
    return s.calls[-1]
''')

# ---------------------------------------------------------------------------------------------------------------- 4
F('X1 with: `return self.attr` after the block is pushed inside the block (evaluated before __exit__ instead of after)',
  '''def f(self, p):
    with open(p) as h:
        self.data = h.read()
    return h.closed''',
  '''def f(self, p):
    with open(p) as h:
        self.data = h.read()
        return h.closed''', None,
  COMMON, '''
def run(f):
    return f(Rec(), __file__)
''')

F('X2 with: position-restoring context manager, `return self.pos` after vs inside the block',
  '''def f(self):
    with self.saved_position():
        self.seek(100)
        self.scan()
    return self.pos''',
  '''def f(self):
    with self.saved_position():
        self.seek(100)
        self.scan()
        return self.pos''', None,
  COMMON + '''
import contextlib
class Rd:
    def __init__(self):
        self.pos = 7
    @contextlib.contextmanager
    def saved_position(self):
        old = self.pos
        try:
            yield
        finally:
            self.pos = old
    def seek(self, n):
        self.pos = n
    def scan(self):
        self.pos += 5
''', '''
def run(f):
    return f(Rd())
''')

# ---------------------------------------------------------------------------------------------------------------- 5
F('A1 assert: the message is not part of the canonical text',
  '''def f(n):
    assert n > 0, 'bad n'
    return n''',
  '''def f(n):
    assert n > 0, 'n must be positive'
    return n''', None,
  COMMON, '''
def run(f):
    try:
        return f(0)
    except AssertionError as e:
        return 'AssertionError: ' + str(e)
''')

F('A2 assert: a message expression with side effects appears from nowhere',
  '''def f(self, n):
    assert n > 0
    return n''',
  '''def f(self, n):
    assert n > 0, self.fail()
    return n''', None,
  COMMON, '''
def run(f):
    s = Log()
    try:
        f(s, 0)
    except AssertionError:
        pass
    return s.calls
''')

# ---------------------------------------------------------------------------------------------------------------- 6
F('K1 try_keyerror_idioms: `try: v = d[a][b] / except KeyError: v = None` -> `d[a].get(b)` (the KeyError of d[a] is no longer caught)',
  '''def f(d, a, b):
    try:
        v = d[a][b]
    except KeyError:
        v = None
    return v''',
  '''def f(d, a, b):
    v = d[a].get(b)
    return v''', None,
  COMMON, '''
def run(f):
    try:
        return f({'x': {'y': 1}}, 'q', 'y')
    except KeyError as e:
        return 'KeyError %s' % e
''')

F('K2 try_keyerror_idioms: the key expression itself raises KeyError (`d[m[k]]` -> `d.get(m[k])`)',
  '''def f(d, m, k):
    try:
        v = d[m[k]]
    except KeyError:
        v = None
    return v''',
  '''def f(d, m, k):
    return d.get(m[k])''', None,
  COMMON, '''
def run(f):
    try:
        return f({1: 'one'}, {}, 'k')
    except KeyError as e:
        return 'KeyError %s' % e
''')

# ---------------------------------------------------------------------------------------------------------------- 7
F('P1 inline_temps: a lookup that can raise is moved INTO a try body whose handler then swallows its KeyError',
  '''def f(self, d, k):
    v = d[k]
    try:
        return self.conv(v)
    except KeyError:
        return None''',
  '''def f(self, d, k):
    try:
        return self.conv(d[k])
    except KeyError:
        return None''', None,
  COMMON, '''
def run(f):
    try:
        return f(Log(conv=1), {}, 'k')
    except KeyError as e:
        return 'KeyError %s' % e
''')

F('P2 inline_temps: int() moved into the try (ValueError of the conversion swallowed by the handler meant for parse())',
  '''def f(self, s):
    n = int(s)
    try:
        return self.parse(n)
    except ValueError:
        return None''',
  '''def f(self, s):
    try:
        return self.parse(int(s))
    except ValueError:
        return None''', None,
  COMMON, '''
def run(f):
    try:
        return f(Log(parse=1), 'xx')
    except ValueError as e:
        return 'ValueError'
''')

F('P3 drop_dead_locals: a never-read local whose value is a lookup guarded by the try is deleted together with the lookup',
  '''def seek_frame(self, k):
    try:
        off = self.index[k]
        self.fh.seek(self.base)
    except KeyError:
        raise E(k)''',
  '''def seek_frame(self, k):
    try:
        self.fh.seek(self.base)
    except KeyError:
        raise E(k)''', None,
  COMMON, '''
def run(f):
    s = Rec(index={}, base=0, fh=Log())
    try:
        f(s, 'frame9')
    except E as e:
        return 'E(%s)' % e
    return s.fh.calls
''')

F('P4 inline_temps: validation (int()) moved behind a state update: on bad input the counter is already incremented',
  '''def f(self, s):
    n = int(s)
    self.count += 1
    self.vals.append(n)''',
  '''def f(self, s):
    self.count += 1
    self.vals.append(int(s))''', None,
  COMMON, '''
def run(f):
    s = Rec(count=0, vals=[])
    try:
        f(s, 'xx')
    except ValueError:
        pass
    return s.count
''')

F('P5 assignments_to_ifexp: default-then-override makes the default lookup conditional (its KeyError disappears)',
  '''def f(d, k, c):
    v = d[k]
    if c:
        v = 0
    return v''',
  '''def f(d, k, c):
    return 0 if c else d[k]''', None,
  COMMON, '''
def run(f):
    try:
        return f({}, 'k', True)
    except KeyError as e:
        return 'KeyError %s' % e
''')

F('P6 attribute default then override: reset happens / does not happen when the override raises',
  '''def load(self, p):
    self.hdr = None
    if p:
        self.hdr = parse(p)''',
  '''def load(self, p):
    if p:
        self.hdr = parse(p)
    else:
        self.hdr = None''', None,
  COMMON + '''
def parse(p):
    raise E('bad header')
''', '''
def run(f):
    s = Rec(hdr='STALE HEADER')
    try:
        f(s, 'x')
    except E:
        pass
    return s.hdr
''')

F('P7 sort_independent_runs: reset and raising conversion change places',
  '''def f(self, s):
    self.pos = 0
    self.n = int(s)''',
  '''def f(self, s):
    self.n = int(s)
    self.pos = 0''', None,
  COMMON, '''
def run(f):
    s = Rec(pos=55, n=1)
    try:
        f(s, 'xx')
    except ValueError:
        pass
    return s.pos
''')

F('P8 tuple display split: `self.a, self.b = 65, int(v)` stores nothing when int(v) raises, the split form stores self.a',
  '''def f(self, v):
    self.a, self.b = 65, int(v)''',
  '''def f(self, v):
    self.a = 65
    self.b = int(v)''', None,
  COMMON, '''
def run(f):
    s = Rec(a=0, b=0)
    try:
        f(s, 'xx')
    except ValueError:
        pass
    return s.a
''')

# ---------------------------------------------------------------------------------------------------------------- 8 (outside the focus area, found on the way)
F('O1 inline_next_use: a call with side effects assigned once before `while t:` is written into the loop test (re-evaluated every iteration)',
  '''def f(self):
    more = self.has_more()
    while more:
        if self.step():
            break''',
  '''def f(self):
    while self.has_more():
        if self.step():
            break''', None,
  COMMON + '''
class S:
    def __init__(self):
        self.calls = []
        self.k = 0
    def has_more(self):
        self.calls.append('has_more')
        return True
    def step(self):
        self.calls.append('step')
        self.k += 1
        return self.k >= 3
''', '''
def run(f):
    s = S()
    f(s)
    return s.calls
''')

F('O2 any(generator) is identified with any([list]): short-circuit lost (iterator consumed to the end)',
  '''def f(fh):
    return any(l.startswith('#') for l in fh)''',
  '''def f(fh):
    return any([l.startswith('#') for l in fh])''', None,
  COMMON, '''
def run(f):
    fh = iter(['#a', 'b', 'c'])
    r = f(fh)
    return r, list(fh)
''')

F('O3 helper pasted although it reads a module global that the caller shadows with a local of the same name',
  '''def f(self, rec):
    fmt = rec.kind
    return self._pk(rec), fmt''',
  '''def f(self, rec):
    fmt = rec.kind
    return fmt.pack(rec.v), fmt''',
  {'helpers_a': 'def _pk(self, r):\n    return fmt.pack(r.v)'},
  COMMON + '''
class Fmt:
    def __init__(self, name):
        self.name = name
    def pack(self, v):
        return '%s:%s' % (self.name, v)
fmt = Fmt('GLOBAL')
class S:
    def _pk(self, r):
        return fmt.pack(r.v)
''', '''
def run(f):
    return f(S(), Rec(kind=Fmt('LOCAL'), v=1))[0]
''')

F('O4 helper with a mutable default argument pasted with a fresh default per call',
  '''def f(self, v):
    return self._acc(v)''',
  '''def f(self, v):
    acc = []
    acc.append(v)
    return acc''',
  {'helpers_a': 'def _acc(self, v, acc=[]):\n    acc.append(v)\n    return acc'},
  COMMON + '''
class S:
    def _acc(self, v, acc=[]):
        acc.append(v)
        return acc
''', '''
def run(f):
    s = S()
    f(s, 1)
    return list(f(s, 2))
''')

F('O5 _subst_const: a literal local is written over reads that follow a re-binding by a tuple target inside a with block',
  '''def f(self):
    n = 0
    with self.lock:
        if self.ready():
            n, m = self.rd()
        self.use(n)
        self.note(n)''',
  '''def f(self):
    n = 0
    with self.lock:
        if self.ready():
            n, m = self.rd()
        self.use(0)
        self.note(n)''', None,
  COMMON + '''
import threading
class S(Log):
    lock = threading.Lock()
''', '''
def run(f):
    s = S(ready=True, rd=(5, 6))
    f(s)
    return s.calls
''')



# ---------------------------------------------------------------------------------------------------------------- 9 (second round)
F('W7 split_webs: retry counter updated in a finally clause that is reached only through continue / return is dropped',
  '''def f(self):
    tries = 0
    while True:
        try:
            if self.attempt():
                return tries
            continue
        finally:
            tries = tries + 1''',
  '''def f(self):
    tries = 0
    while True:
        try:
            if self.attempt():
                return tries
            continue
        finally:
            pass''', None,
  COMMON + '''
class S:
    def __init__(self):
        self.k = 0
    def attempt(self):
        self.k += 1
        return self.k >= 3
''', '''
def run(f):
    return f(S())
''')

F('W8 split_webs: file position remembered inside a while loop of the try body is invisible to the handler',
  '''def f(self):
    pos = -1
    try:
        while self.more():
            pos = self.tell()
            self.read_record()
            pos = -1
    except E:
        self.report(pos)''',
  '''def f(self):
    pos = -1
    try:
        while self.more():
            self.tell()
            self.read_record()
            pos = -1
    except E:
        self.report(pos)''', None,
  COMMON, '''
def run(f):
    s = Log(more=True, tell=4096, read_record=E('truncated'))
    f(s)
    return s.calls[-1]
''')

F('W9 split_webs: assignment in a finally clause on the break path is dropped',
  '''def f(self, rs):
    last = None
    for r in rs:
        try:
            if r.stop:
                break
            self.use(r)
            continue
        finally:
            last = r
    return last''',
  '''def f(self, rs):
    last = None
    for r in rs:
        try:
            if r.stop:
                break
            self.use(r)
            continue
        finally:
            pass
    return last''', None,
  COMMON, '''
def run(f):
    r = f(Log(), [Rec(stop=False, n=1), Rec(stop=True, n=2)])
    return None if r is None else r.n
''')

F('E1 loops_to_comprehensions inside a try body: the handler / the code after it no longer sees the partial list',
  '''def f(self, rs):
    out = None
    try:
        out = []
        for r in rs:
            out.append(self.parse(r))
    except E:
        self.log(out)
    return out''',
  '''def f(self, rs):
    out = None
    try:
        out = [self.parse(r) for r in rs]
    except E:
        self.log(out)
    return out''', None,
  COMMON + '''
class S:
    def __init__(self):
        self.logged = []
    def parse(self, r):
        if r == 'bad':
            raise E(r)
        return r.upper()
    def log(self, x):
        self.logged.append(x)
''', '''
def run(f):
    return f(S(), ['a', 'b', 'bad', 'c'])
''')

F('E2 loops_to_sum inside a try body: the partial sum is lost',
  '''def f(self, rs):
    total = -1
    try:
        total = 0
        for r in rs:
            total += self.size(r)
    except E:
        pass
    return total''',
  '''def f(self, rs):
    total = -1
    try:
        total = sum([self.size(r) for r in rs])
    except E:
        pass
    return total''', None,
  COMMON + '''
class S:
    def size(self, r):
        if r < 0:
            raise E(r)
        return r
''', '''
def run(f):
    return f(S(), [10, 20, -1, 5])
''')

F('K3 try_keyerror_idioms: setdefault form creates the empty entry before the value expression raises',
  '''def f(D, k, m, j):
    try:
        D[k].append(m[j])
    except KeyError:
        D[k] = [m[j]]''',
  '''def f(D, k, m, j):
    D.setdefault(k, []).append(m[j])''', None,
  COMMON, '''
def run(f):
    D = {}
    try:
        f(D, 'k', {}, 'j')
    except KeyError:
        pass
    return D
''')

F('T1 _tailify: helper ending in try pasted in yield position puts the yield inside the try (an exception thrown into the generator is caught)',
  '''def f(self, ks):
    for k in ks:
        yield self._rd(k)''',
  '''def f(self, ks):
    for k in ks:
        try:
            yield self.d[k]
        except KeyError:
            yield None''',
  {'helpers_a': 'def _rd(self, k):\n    try:\n        return self.d[k]\n    except KeyError:\n        return None'},
  COMMON + '''
class S:
    d = {'a': 1, 'b': 2}
    def _rd(self, k):
        try:
            return self.d[k]
        except KeyError:
            return None
''', '''
def run(f):
    g = f(S(), ['a', 'b'])
    first = next(g)
    try:
        return first, g.throw(KeyError('from consumer'))
    except KeyError as e:
        return first, 'KeyError propagated'
''')

F('P9 inline_helpers (expression-statement mode): the helper\'s side-effect-free return value is discarded although evaluating it is the validation',
  '''def seek_frame(self, k):
    self._require(k)
    self.fh.seek(self.base)''',
  '''def seek_frame(self, k):
    if k < 0:
        raise E(k)
    self.fh.seek(self.base)''',
  {'helpers_a': 'def _require(self, k):\n    if k < 0:\n        raise E(k)\n    return self.index[k]'},
  COMMON + '''
class S:
    def __init__(self):
        self.index = {}
        self.base = 0
        self.fh = Log()
    def _require(self, k):
        if k < 0:
            raise E(k)
        return self.index[k]
''', '''
def run(f):
    s = S()
    try:
        f(s, 9)
    except KeyError as e:
        return 'KeyError %s' % e
    return s.fh.calls
''')


# ---------------------------------------------------------------------------------------------------------------- runner
def _helpers(src):
    if not src:
        return None
    h = ast.parse(src).body[0]
    return {h.name: (h, bool(h.args.args) and h.args.args[0].arg == 'self' or any(isinstance(d, ast.Name) and d.id == 'staticmethod' for d in h.decorator_list))}


def same(a, b, **kw):
    ca = equiv.canonical(ast.parse(a).body[0], _helpers(kw.get('helpers_a')), dicts=kw.get('dicts'), sized=kw.get('sized'), props=kw.get('props'))
    cb = equiv.canonical(ast.parse(b).body[0], _helpers(kw.get('helpers_b')), dicts=kw.get('dicts'), sized=kw.get('sized'), props=kw.get('props'))
    return ca is not None and ca == cb


def outcome(src, stubs, call):
    ns = {}
    exec(stubs, ns)
    exec(src, ns)
    exec(call, ns)
    name = ast.parse(src).body[0].name
    try:
        return repr(ns['run'](ns[name]))
    except BaseException as e:      # noqa
        return f'raised {type(e).__name__}: {e}'


def main():
    bad = 0
    for title, a, b, kw in FINDINGS:
        s = same(a, b, **(kw or {}))
        stubs, call = DEMOS[title]
        oa, ob = outcome(a, stubs, call), outcome(b, stubs, call)
        ok = s and oa != ob
        bad += not ok
        print(('CONFIRMED ' if ok else 'NOT-A-FINDING ') + title)
        print(f'    same() = {s}')
        print(f'    A -> {oa}')
        print(f'    B -> {ob}')
    print(f'{len(FINDINGS)} findings, {bad} not confirmed')


if __name__ == '__main__':
    main()
