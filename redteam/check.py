#!/venv/bin/python
"""Regression corpus of the red-team round against the equivalence canonicaliser (DESIGN 8.9): every pair in findings_<n>.py
behaves differently on a concrete call (each file carries its own demos) and was once given the same canonical text.
usage: redteam/check.py [-v]      prints the pairs that are STILL taken as equivalent; exit 1 if there are any
(the thorough tier calls still_open())."""
import importlib.util, io, os, sys, contextlib
here = os.path.dirname(os.path.abspath(__file__))
sys.path.insert(0, os.path.dirname(here))


def _load(n):
    fname = f'findings_{n}.py' if isinstance(n, int) else f'r2_findings_{n[3:]}.py'
    spec = importlib.util.spec_from_file_location(f'redteam_findings_{n}', os.path.join(here, fname))
    m = importlib.util.module_from_spec(spec)
    with contextlib.redirect_stdout(io.StringIO()):
        spec.loader.exec_module(m)
    return m


# Pairs that stay equal on purpose, each with the reason (DESIGN.md 8.9 states the assumptions).  Keyed by (file, start of title).
WAIVED = {
    (3, 'list(x.keys()) vs list(x)'): 'premise of the harness (REPO_DEFINED empty = no function of the code base is called keys); on /repo `keys` is defined and the rule is off',
    (3, 'reassociated repetition'): 'assumption: the operands of a flattened product are numbers',
    (3, 'reassociated float product'): 'assumption: float products may differ in the last place (stated in DESIGN 8.9)',
    (3, '`get` is on the name-based whitelist'): 'assumption: a whitelisted method name that no function of the code base bears is the builtin container / str / re / struct method',
    (6, 'B5 '): 'same assumption (method names not defined by the code base)',
    (3, 'class-level default `rows = None`'): 'the `sized` table is handed in by the harness; gate._sized (production) refuses it - see the closed `gate:` entries Z1-Z3',
    (6, 'Z1 '): 'as above (hand-made `sized`); closed through gate.apply',
    (6, 'Z2 '): 'as above',
    (6, 'Z3 '): 'as above',
    (6, 'P1 '): 'needs the module context (all property names) that gate.apply passes; closed through gate.apply',
    (6, 'P2 '): 'hand-made `props`; module_properties (production) now counts nested classes; closed through gate.apply',
    (6, 'H1 '): 'needs the module context (methods of other classes) that gate.apply passes; closed through gate.apply',
    (5, 'module global rebound by a callee'): 'needs the module context (names declared `global` somewhere in the module); covered by the gate-level pair in equiv_selftest',
    (22, 'D1c '): 'the only difference is a local left unbound by `except .. as` (NameError for an unbound local is not counted)',
    (22, 'gate: D1c '): 'as above',
    (23, 'H4 '): 'assumption: `in` is applied to containers (a membership test does not consume its right operand)',
    (23, 'H5 '): 'as above',
    (25, '`key in it` on an iterator'): 'as above',
    (24, 'R2b '): 'assumption: an object changes only through statements that name it; a bound method handed over as a callback names the method, not the object',
    (26, 'H1 '): 'assumption: an attribute read fails only through a name the function compares with None / tests for truth, or when the function catches AttributeError',
    (26, 'Z1 '): 'hand-made `sized` without the `seqs` table; gate._sized passes both and lists are excluded',
    (26, 'gate: GS1 '): 'classes re-created by a decorator (@dataclass(slots=True)): not modelled; none in the code base',
    (21, 'M2 '): 'assumption on attribute reads (see H1): r.hdr.kind fails only if the function reckons with r / r.hdr being None',
    (21, 'M3 '): 'as above',
    (41, 'H1 '): 'type errors are not counted as failures (arithmetic on the None that a procedure returns)',
    (41, 'H2 '): 'as above',
    (43, 'gate: S4 '): 'contrived: a class statement re-using the helper name after its def',
    (43, 'gate: S5 '): 'contrived: `except .. as <helper name>` at module level',
    (6, 'C5 '): 'assumption: a module-level constant bound once is not rebound from outside its module (the DEBUG-flag limitation, DESIGN 8.7)',
}


def still_open():
    """[(file, title)] of pairs whose canonical texts are still equal"""
    import ast
    from tdstatic import equiv, gate
    saved = equiv.REPO_DEFINED[0]
    out = []
    total = 0
    try:
        for n in range(1, 7):
            m = _load(n)
            equiv.REPO_DEFINED[0] = frozenset()
            for title, a, b, kw in m.FINDINGS:
                total += 1
                kw = kw or {}
                if n in (3, 5):
                    s = m._same(a, b, kw)
                elif n == 6:
                    s = m.same(a, b, kw)
                else:
                    s = m.same(a, b, **kw)
                if s:
                    out.append((n, title))
            for title, cur, ref, q in getattr(m, 'GATE_FINDINGS', []):
                total += 1
                if q in gate.apply(ast.parse(cur), ast.parse(ref), lambda t: None):
                    out.append((n, 'gate: ' + title))
            for title, (ma, mb) in getattr(m, 'MODULES', {}).items():
                total += 1
                if gate.apply(ast.parse(ma), ast.parse(mb), lambda t: None):
                    out.append((n, 'gate: ' + title))
        # round 2 (files r2_findings_<n>.py; each has same(a, b, **kw) - file 6 same(a, b, kw) - and GATE_FINDINGS)
        for n in (1, 2, 3, 4, 5, 6):
            if not os.path.exists(os.path.join(here, f'r2_findings_{n}.py')):
                continue
            m = _load(f'../redteam/r2_findings_{n}'.split('/')[-1].replace('r2_findings_', 'r2_'))
            equiv.REPO_DEFINED[0] = frozenset()
            for title, a, b, kw in m.FINDINGS:
                total += 1
                kw = kw or {}
                try:
                    s = m.same(a, b, kw) if n == 6 else m.same(a, b, **kw)
                except equiv.NotCanonicalisable:
                    s = False
                if s:
                    out.append((20 + n, title))
            for entry in getattr(m, 'GATE_FINDINGS', []):
                title, cur, ref, q = entry[:4]
                total += 1
                equiv.REPO_DEFINED[0] = frozenset()
                if q in gate.apply(ast.parse(cur), ast.parse(ref), lambda t: None):
                    out.append((20 + n, 'gate: ' + title))
        # round 3 (refinements made to win back tolerance): r3_findings_<n>.py, same(a, b, **kw) and GATE_FINDINGS
        for n in (1, 2, 3):
            fn = os.path.join(here, f'r3_findings_{n}.py')
            if not os.path.exists(fn):
                continue
            spec = importlib.util.spec_from_file_location(f'redteam_r3_{n}', fn)
            m = importlib.util.module_from_spec(spec)
            with contextlib.redirect_stdout(io.StringIO()):
                spec.loader.exec_module(m)
            equiv.REPO_DEFINED[0] = frozenset()
            for title, a, b, kw in m.FINDINGS:
                total += 1
                try:
                    s = m.same(a, b, **(kw or {}))
                except equiv.NotCanonicalisable:
                    s = False
                if s:
                    out.append((30 + n, title))
            for entry in getattr(m, 'GATE_FINDINGS', []):
                title, cur, ref, q = entry[:4]
                total += 1
                equiv.REPO_DEFINED[0] = frozenset()
                if q in gate.apply(ast.parse(cur), ast.parse(ref), lambda t: None):
                    out.append((30 + n, 'gate: ' + title))
        # round 4 (general sweep, step interactions, the gate end to end): r4_findings_<n>.py
        from tdstatic import loader
        saved_env = (loader.REPO, getattr(gate, '_REF', None), dict(gate._PARSED))
        try:
            for n in (1, 2, 3):
                fn = os.path.join(here, f'r4_findings_{n}.py')
                if not os.path.exists(fn):
                    continue
                spec = importlib.util.spec_from_file_location(f'redteam_r4_{n}', fn)
                m = importlib.util.module_from_spec(spec)
                with contextlib.redirect_stdout(io.StringIO()):
                    spec.loader.exec_module(m)
                equiv.REPO_DEFINED[0] = frozenset()
                for title, a, b, kw in m.FINDINGS:
                    total += 1
                    try:
                        s = m.same(a, b, **(kw or {}))
                    except equiv.NotCanonicalisable:
                        s = False
                    if s:
                        out.append((40 + n, title))
                for entry in getattr(m, 'GATE_FINDINGS', []):
                    title, cur, ref, q = entry[:4]
                    total += 1
                    equiv.REPO_DEFINED[0] = frozenset()
                    if n == 3:
                        g = m.gated(title, cur, ref)[0]
                    else:
                        g = gate.apply(ast.parse(cur), ast.parse(ref), lambda t: None)
                    if q in g:
                        out.append((40 + n, 'gate: ' + title))
            # round 5 (verification of the round-4 rewrite and refinements): r5_findings_<n>.py
            for n in (1, 2):
                fn = os.path.join(here, f'r5_findings_{n}.py')
                if not os.path.exists(fn):
                    continue
                spec = importlib.util.spec_from_file_location(f'redteam_r5_{n}', fn)
                m = importlib.util.module_from_spec(spec)
                with contextlib.redirect_stdout(io.StringIO()):
                    spec.loader.exec_module(m)
                equiv.REPO_DEFINED[0] = frozenset()
                for title, a, b, kw in m.FINDINGS:
                    total += 1
                    try:
                        s = m.same(a, b, **(kw or {}))
                    except equiv.NotCanonicalisable:
                        s = False
                    if s:
                        out.append((50 + n, title))
                for entry in getattr(m, 'GATE_FINDINGS', []):
                    title, cur, ref, q = entry[:4]
                    total += 1
                    equiv.REPO_DEFINED[0] = frozenset()
                    g = m.gated(title, cur, ref)[0] if n == 1 else m.gated(cur, ref)
                    if q in g:
                        out.append((50 + n, 'gate: ' + title))
        finally:
            loader.REPO = saved_env[0]
            if saved_env[1] is not None or hasattr(gate, '_REF'):
                gate._REF = saved_env[1]
            gate._PARSED.clear()
            gate._PARSED.update(saved_env[2])
            gate._REF_DEFS[0] = None
    finally:
        equiv.REPO_DEFINED[0] = saved
    return out, total


def unexpected():
    o, total = still_open()
    bad = [(n, t) for n, t in o if not any(n == k[0] and t.startswith(k[1]) for k in WAIVED)]
    return bad, len(o) - len(bad), total


if __name__ == '__main__':
    bad, waived, total = unexpected()
    for n, t in bad:
        print(f'OPEN [{n}] {t}')
    print(f'{total} pairs, {len(bad)} taken as equivalent unexpectedly, {waived} waived (assumptions / hand-made context)')
    sys.exit(1 if bad else 0)
