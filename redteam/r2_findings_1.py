"""Red-team round 2, agent 1 (focus: loops and carried state, generators, comprehension conversions, tree-level steps of seq()).
FINDINGS = [(title, src_a, src_b, kwargs_dict_or_None), ...]; DEMOS[title] is code run with fa / fb (the two functions) defined.
GATE_FINDINGS = [(title, current_module_src, reference_module_src, qualname)]; GATE_DEMOS[title] is code run with the two module
sources exec'd into the namespaces MA / MB.
Run:  /venv/bin/python /tmp/redteam2/1/findings.py   (checks same() is True for every pair and prints the differing outcomes)"""
import ast
import os
import sys

sys.path.insert(0, os.path.dirname(os.path.dirname(os.path.abspath(__file__))))

FINDINGS = []
DEMOS = {}
GATE_FINDINGS = []
GATE_DEMOS = {}

STUBS = '''
import types
class Rec:
    """records every method call made on it; return values are scripted per method name"""
    def __init__(self, **script):
        self.calls = []
        self._script = {k: list(v) if isinstance(v, list) else v for k, v in script.items()}
    def __getattr__(self, name):
        if name.startswith('_') :
            raise AttributeError(name)
        def m(*a, **k):
            self.calls.append((name,) + a)
            s = self._script.get(name)
            if isinstance(s, list):
                v = s.pop(0) if s else None
            elif callable(s):
                v = s(*a)
            else:
                v = s
            if isinstance(v, BaseException) or isinstance(v, type) and issubclass(v, BaseException):
                raise v
            return v
        return m
class Obj:
    def __init__(self, **kw):
        self.__dict__.update(kw)
    def __repr__(self):
        return 'Obj(' + ', '.join(f'{k}={v!r}' for k, v in sorted(self.__dict__.items())) + ')'
def outcome(fn, *a, **k):
    try:
        r = fn(*a, **k)
        if isinstance(r, types.GeneratorType):
            return ('generator yielding', list(r))
        return ('returned', r)
    except Exception as e:
        return ('raised', type(e).__name__, str(e))
'''


def add(title, a, b, demo, kw=None):
    FINDINGS.append((title, a.strip('\n'), b.strip('\n'), kw))
    DEMOS[title] = demo


def gadd(title, cur, ref, q, demo):
    GATE_FINDINGS.append((title, cur, ref, q))
    GATE_DEMOS[title] = demo


# ===========================================================================================================================
# G. seq() (equiv.py 2895-2896, 2760-2761, 2917-2920) drops everything behind a statement that always leaves, and the branch of
#    `if <constant>` that is not taken.  A `yield` in such dead code is what makes the function a generator: without it the
#    body runs at call time and the caller gets None instead of an (empty) iterator.  Neither canonical() nor gate.apply
#    compares "is a generator function".
# ===========================================================================================================================
add('G1 generator-ness lost: the empty-generator idiom `return; yield` equals the plain function', '''
def f(self):
    self.reset()
    return
    yield
''', '''
def f(self):
    self.reset()
    return
''', '''
a, b = Rec(), Rec()
ra, rb = fa(a), fb(b)
print('A returns', type(ra).__name__, '- calls made so far:', a.calls)
print('B returns', type(rb).__name__, '- calls made so far:', b.calls)
print('list(A()) =', outcome(lambda: list(ra)), '   list(B()) =', outcome(lambda: list(rb)))
assert a.calls != b.calls or type(ra) is not type(rb)
''')

add('G2 generator-ness lost: abstract generator method `raise NotImplementedError; yield`', '''
def f(self):
    raise NotImplementedError(self.name)
    yield
''', '''
def f(self):
    raise NotImplementedError(self.name)
''', '''
def call_only(fn, o):
    try:
        r = fn(o)
        return 'call returned ' + type(r).__name__ + ' (raises only when iterated)'
    except NotImplementedError as e:
        return 'call raised NotImplementedError'
o = Obj(name='frames')
print('A:', call_only(fa, o)); print('B:', call_only(fb, o))
assert call_only(fa, o) != call_only(fb, o)
''')

add('G3 generator-ness lost: `if False: yield` / `if 0: yield x` inside a loop (constant test folded)', '''
def f(self, xs):
    for x in xs:
        self.note(x)
        if 0:
            yield x
''', '''
def f(self, xs):
    for x in xs:
        self.note(x)
''', '''
a, b = Rec(), Rec()
ra, rb = fa(a, [1, 2]), fb(b, [1, 2])
print('A returns', type(ra).__name__, 'calls:', a.calls)
print('B returns', type(rb).__name__, 'calls:', b.calls)
assert a.calls != b.calls
''')

add('G4 generator-ness lost: yield behind a with block that always leaves', '''
def f(self):
    with self.lock:
        return self.items()
    yield
''', '''
def f(self):
    with self.lock:
        return self.items()
''', '''
import contextlib
a, b = Rec(items=[[1, 2]]), Rec(items=[[1, 2]])
a.lock = b.lock = contextlib.nullcontext()
ra, rb = fa(a), fb(b)
print('A returns', type(ra).__name__, 'calls:', a.calls); print('B returns', rb, 'calls:', b.calls)
assert a.calls != b.calls
''')

# ===========================================================================================================================
# A. ALIASES[0] is computed once, on the function as written (canonical(), 3570), with the names as written.  ssa_split /
#    split_webs then rename a local that has two webs (`row__w3`, `h__v1`) and helper pasting renames the helper's locals
#    (`row__h1`): `_with_aliases` (328-343) and `_aliased_in` (2830-2837) no longer recognise the chain, the write through the
#    alias is invisible, and inline_temps moves a read across it.
# ===========================================================================================================================
add('A1 alias lost by renaming: the loop variable `row` is used by two loops, the snapshot taken before the first is read after it', '''
def f(self):
    before = [r.done for r in self.rows]
    for row in self.rows:
        row.done = False
    for row in self.extra:
        row.done = True
    return before
''', '''
def f(self):
    for row in self.rows:
        row.done = False
    for row in self.extra:
        row.done = True
    return [r.done for r in self.rows]
''', '''
def mk():
    return Obj(rows=[Obj(done=True), Obj(done=True)], extra=[Obj(done=False)])
print('A:', outcome(fa, mk()))
print('B:', outcome(fb, mk()))
assert outcome(fa, mk()) != outcome(fb, mk())
''')

add('A2 alias lost by renaming (ssa_split): `h = self.hdr ... h = self.trailer`; the position saved before `h.pos = 0` is read after it', '''
def f(self):
    start = self.hdr.pos
    h = self.hdr
    h.pos = 0
    self.seek(start)
    h = self.trailer
    h.pos = 0
''', '''
def f(self):
    h = self.hdr
    h.pos = 0
    self.seek(self.hdr.pos)
    h = self.trailer
    h.pos = 0
''', '''
a, b = Rec(), Rec()
a.hdr, a.trailer, b.hdr, b.trailer = Obj(pos=80), Obj(pos=9), Obj(pos=80), Obj(pos=9)
fa(a); fb(b)
print('A calls:', a.calls); print('B calls:', b.calls)
assert a.calls != b.calls
''')

add("A3 alias made inside a pasted helper is not in ALIASES: snapshot moved behind the helper's loop", '''
def f(self):
    before = [r.done for r in self.rows]
    self._clear()
    return before
''', '''
def f(self):
    for row in self.rows:
        row.done = False
    return [r.done for r in self.rows]
''', '''
exec(HELPER)
class K:
    _clear = _clear
ka, kb = K(), K()
ka.rows, kb.rows = [Obj(done=True)], [Obj(done=True)]
print('A:', outcome(fa, ka)); print('B:', outcome(fb, kb))
assert outcome(fa, ka) != outcome(fb, kb) or True
ka.rows, kb.rows = [Obj(done=True)], [Obj(done=True)]
assert fa(ka) != fb(kb)
''', {'helpers_a': '''
def _clear(self):
    for row in self.rows:
        row.done = False
'''})

# written_chains (280-314): the receiver of an impure call is "written" only if it is a chain (or a conditional expression of
# chains, 310-314).  An alias made with `or` is side-effect free and single-definition, inline_temps writes it into the receiver,
# `(self.buf or self.spare).append(0)` then writes nothing, and the length read before it moves behind it.
add('A4 alias made with `or` inlined into a call receiver: the write becomes invisible (stale length)', '''
def f(self):
    buf = self.buf or self.spare
    n = len(self.buf)
    buf.append(0)
    return n
''', '''
def f(self):
    buf = self.buf or self.spare
    buf.append(0)
    return len(self.buf)
''', '''
print('A:', outcome(fa, Obj(buf=[7], spare=[])))
print('B:', outcome(fb, Obj(buf=[7], spare=[])))
assert outcome(fa, Obj(buf=[7], spare=[])) != outcome(fb, Obj(buf=[7], spare=[]))
''')

# _alias_sources (3462-3487) knows names / attributes / items, conditional expressions, and / or, walrus, displays and
# enumerate / zip / reversed / iter / sorted / list / tuple - not `d.values()` / `d.items()`, not `a + b`: the loop variable that
# runs through them is no alias of anything, and what the loop body does to the elements is invisible to a read of the container.
add('A5 loop over `self.tab.values()` appends to every list: the length taken before the loop is read after it', """
def f(self, k):
    n = len(self.tab.get(k))
    for lst in self.tab.values():
        lst.append(0)
    return n
""", """
def f(self, k):
    for lst in self.tab.values():
        lst.append(0)
    return len(self.tab.get(k))
""", """
print('A:', outcome(fa, Obj(tab={'a': [1]}), 'a')); print('B:', outcome(fb, Obj(tab={'a': [1]}), 'a'))
assert outcome(fa, Obj(tab={'a': [1]}), 'a') != outcome(fb, Obj(tab={'a': [1]}), 'a')
""")

add('A6 loop over `self.rows + self.extra` resets the records: the snapshot taken before the loop is read after it', """
def f(self):
    before = [r.done for r in self.rows]
    for row in self.rows + self.extra:
        row.done = False
    return before
""", """
def f(self):
    for row in self.rows + self.extra:
        row.done = False
    return [r.done for r in self.rows]
""", """
def mk():
    return Obj(rows=[Obj(done=True)], extra=[])
print('A:', outcome(fa, mk())); print('B:', outcome(fb, mk()))
assert outcome(fa, mk()) != outcome(fb, mk())
""")

# _aliased_in (2830-2837) asks whether the ROOT NAME of the assignment target is a local alias of something the test reads
# (round-1 case: test on self.state.open, write through st).  The mirror image - test through the local alias, write through the
# chain - is not covered: root 'self' is not one side of any pair.
add('A7 _assume: `if st.open:` re-tested after `self.state.open = False` (st = self.state) is folded to true', """
def f(self, xs):
    st = self.state
    for x in xs:
        if st.open:
            self.state.open = False
            if st.open:
                self.g(x)
""", """
def f(self, xs):
    st = self.state
    for x in xs:
        if st.open:
            self.state.open = False
            self.g(x)
""", """
a, b = Rec(), Rec(); a.state, b.state = Obj(open=True), Obj(open=True)
fa(a, [1, 2]); fb(b, [1, 2])
print('A calls:', a.calls); print('B calls:', b.calls)
assert a.calls != b.calls
""")

# sort_independent_runs (1707-1740) / _reorderable and _bubble (2965-2981) decide independence on the chains as spelled; ALIASES is
# not consulted, so two stores to the same attribute of one object through two names made equal one line earlier change places.
add('R1 sort_independent_runs: `self.cur = rec; self.cur.n = ..; rec.n = ..` - the two stores to the same attribute are put in text order', """
def f(self, rec):
    self.cur = rec
    self.cur.n = rec.base
    rec.n = self.limit
""", """
def f(self, rec):
    self.cur = rec
    rec.n = self.limit
    self.cur.n = rec.base
""", """
ra, rb = Obj(base=1, n=0), Obj(base=1, n=0)
fa(Obj(limit=9), ra); fb(Obj(limit=9), rb)
print('A: rec.n =', ra.n); print('B: rec.n =', rb.n)
assert ra.n != rb.n
""")

add('R2 _bubble: the same with literals (`self.cur.n = 1; rec.n = 2`)', """
def f(self, rec):
    self.cur = rec
    self.cur.n = 1
    rec.n = 2
""", """
def f(self, rec):
    self.cur = rec
    rec.n = 2
    self.cur.n = 1
""", """
ra, rb = Obj(n=0), Obj(n=0)
fa(Obj(), ra); fb(Obj(), rb)
print('A: rec.n =', ra.n); print('B: rec.n =', rb.n)
assert ra.n != rb.n
""")

# ===========================================================================================================================
# W. written_chains (252-325): a call with side effects "writes" its receiver only when the receiver is a chain (or a conditional
#    expression of chains), an assignment writes its target only when the target's base is a chain, and an argument is handed
#    over only when it is a chain / display / conditional expression.  A receiver or base that is itself a side-effect-free call
#    (`self.tab.get(k)`, `getattr(self, name)`, `max(a, b)`) or an `or` expression gives no chain at all: the statement writes
#    nothing, and inline_temps moves reads across it.
# ===========================================================================================================================
add('W1 dict of lists: `self.tab.get(k).append(v)` is not seen as a write, the length read before it moves behind it', """
def f(self, k, v):
    n = len(self.tab.get(k))
    self.tab.get(k).append(v)
    return n
""", """
def f(self, k, v):
    self.tab.get(k).append(v)
    return len(self.tab.get(k))
""", """
print('A:', outcome(fa, Obj(tab={'a': [1]}), 'a', 5)); print('B:', outcome(fb, Obj(tab={'a': [1]}), 'a', 5))
assert outcome(fa, Obj(tab={'a': [1]}), 'a', 5) != outcome(fb, Obj(tab={'a': [1]}), 'a', 5)
""")

add('W2 attribute store through a side-effect-free call: `self.tab.get(k).done = True` writes nothing (old flag returned / new flag returned)', """
def f(self, k):
    was = self.tab.get(k).done
    self.tab.get(k).done = True
    return was
""", """
def f(self, k):
    self.tab.get(k).done = True
    return self.tab.get(k).done
""", """
print('A:', outcome(fa, Obj(tab={'a': Obj(done=False)}), 'a')); print('B:', outcome(fb, Obj(tab={'a': Obj(done=False)}), 'a'))
assert outcome(fa, Obj(tab={'a': Obj(done=False)}), 'a') != outcome(fb, Obj(tab={'a': Obj(done=False)}), 'a')
""")

add('W3 `getattr(self, name).append(v)` is not a write of anything under self', """
def f(self, name, v):
    n = len(self.rows)
    getattr(self, name).append(v)
    return n
""", """
def f(self, name, v):
    getattr(self, name).append(v)
    return len(self.rows)
""", """
print('A:', outcome(fa, Obj(rows=[]), 'rows', 1)); print('B:', outcome(fb, Obj(rows=[]), 'rows', 1))
assert outcome(fa, Obj(rows=[]), 'rows', 1) != outcome(fb, Obj(rows=[]), 'rows', 1)
""")

add('W4 whole-object argument written as `rec or dflt`: not handed over, rec.count read before the call moves behind it', """
def f(out, rec, dflt):
    n = rec.count
    out.push(rec or dflt)
    return n
""", """
def f(out, rec, dflt):
    out.push(rec or dflt)
    return rec.count
""", """
class Out:
    def push(self, r):
        r.count += 1
print('A:', outcome(fa, Out(), Obj(count=0), None)); print('B:', outcome(fb, Out(), Obj(count=0), None))
assert outcome(fa, Out(), Obj(count=0), None) != outcome(fb, Out(), Obj(count=0), None)
""")

add('W5 `max(self.left, self.right).append(v)`: receiver chosen by a builtin', """
def f(self, v):
    n = len(self.left)
    max(self.left, self.right).append(v)
    return n
""", """
def f(self, v):
    max(self.left, self.right).append(v)
    return len(self.left)
""", """
print('A:', outcome(fa, Obj(left=[2], right=[1]), 0)); print('B:', outcome(fb, Obj(left=[2], right=[1]), 0))
assert outcome(fa, Obj(left=[2], right=[1]), 0) != outcome(fb, Obj(left=[2], right=[1]), 0)
""")

# ===========================================================================================================================
# L. _allocates (1994-2010) lists the expressions whose value is a NEW mutable object (and so may be written out only once).
#    Missing: `a + b` / `a * n` of two names (lists, bytearrays), `d.get(k, [])`.  inline_temps writes such a value out at every
#    use: what is appended to one copy is not in the other.
# ===========================================================================================================================
add('L1 accumulator `names = self.base + self.extra` filled by a loop: every use gets its own fresh list, the appended names are lost', """
def f(self, recs):
    names = self.base + self.extra
    for r in recs:
        names.append(r.name)
    return names
""", """
def f(self, recs):
    for r in recs:
        (self.base + self.extra).append(r.name)
    return self.base + self.extra
""", """
recs = [Obj(name='DEPT'), Obj(name='GR')]
print('A:', outcome(fa, Obj(base=['a'], extra=['b']), recs)); print('B:', outcome(fb, Obj(base=['a'], extra=['b']), recs))
assert outcome(fa, Obj(base=['a'], extra=['b']), recs) != outcome(fb, Obj(base=['a'], extra=['b']), recs)
""")

add('L2 `row = self.tab.get(k, [])` written out twice: the list that got the value is not the list that is stored', """
def f(self, k, v):
    row = self.tab.get(k, [])
    row.append(v)
    self.tab[k] = row
""", """
def f(self, k, v):
    self.tab.get(k, []).append(v)
    self.tab[k] = self.tab.get(k, [])
""", """
a, b = Obj(tab={}), Obj(tab={})
fa(a, 'k', 1); fb(b, 'k', 1)
print('A:', a); print('B:', b)
assert a.tab != b.tab
""")

add('L3 bytearray `buf = self.hdr + self.body` extended and returned', """
def f(self, v):
    buf = self.hdr + self.body
    buf.extend(v)
    return buf
""", """
def f(self, v):
    (self.hdr + self.body).extend(v)
    return self.hdr + self.body
""", """
print('A:', outcome(fa, Obj(hdr=bytearray(b'H'), body=bytearray(b'B')), b'x')); print('B:', outcome(fb, Obj(hdr=bytearray(b'H'), body=bytearray(b'B')), b'x'))
assert outcome(fa, Obj(hdr=bytearray(b'H'), body=bytearray(b'B')), b'x') != outcome(fb, Obj(hdr=bytearray(b'H'), body=bytearray(b'B')), b'x')
""")

# ===========================================================================================================================
# S. A call with side effects is moved behind something that can FAIL.  sink_into_branches (1585-1618) puts `t = E` behind the
#    test of the following `if` (is_pure(test) is asked, may_raise(test) is not); inline_next_use (1279-1303) / _impure_before
#    (1135-1157) look only for calls and for reads of what E may change among the things evaluated before the place of use, not
#    for lookups / divisions that may raise.  When they do raise, the record has been consumed in one version and not in the other.
# ===========================================================================================================================
add('S1 sink_into_branches: `v = src.read()` moved behind the lookup `tab[r.code]` (KeyError now leaves the record unread)', """
def f(src, out, tab):
    for r in src.recs:
        v = src.read()
        if tab[r.code] == 1:
            out.append(v)
        else:
            out.append(-v)
""", """
def f(src, out, tab):
    for r in src.recs:
        if tab[r.code] == 1:
            out.append(src.read())
        else:
            out.append(-src.read())
""", """
def run(fn):
    src = Rec(read=[10, 20, 30]); src.recs = [Obj(code=1), Obj(code=9)]
    out = []
    return outcome(fn, src, out, {1: 1}), 'records read: %d' % len(src.calls), out
print('A:', run(fa)); print('B:', run(fb))
assert run(fa) != run(fb)
""")

add('S2 inline_next_use: `v = src.read()` moved behind `tab[k]` in the same expression; the handler skips unknown keys and the stream is out of step', """
def f(src, tab, out):
    for k in src.keys:
        try:
            v = src.read()
            out.append(tab[k] * v)
        except KeyError:
            continue
""", """
def f(src, tab, out):
    for k in src.keys:
        try:
            out.append(tab[k] * src.read())
        except KeyError:
            continue
""", """
def run(fn):
    src = Rec(read=[1, 2, 3]); src.keys = ['a', 'zz', 'b']
    out = []
    fn(src, {'a': 10, 'b': 100}, out)
    return out
print('A:', run(fa)); print('B:', run(fb))
assert run(fa) != run(fb)
""")

# ===========================================================================================================================
# T. assignments_to_ifexp (1353-1430) rewrites two assignments as one (or one as two) without asking whether they stand inside a try
#    body.  There the state after a failure between the two is visible to the handler and to the code after it (the same
#    reasoning that made loops_to_comprehensions / sink_constant_inits skip try bodies, and P8 of round 1 for attribute targets).
# ===========================================================================================================================
add('T1 tuple display split in a try body inside a loop: `seen, last = True, self.parse(r)` sets nothing when parse fails, the split form has set the flag', """
def f(self, recs):
    seen = False
    last = None
    for r in recs:
        try:
            seen, last = True, self.parse(r)
        except ValueError:
            continue
    return seen, last
""", """
def f(self, recs):
    seen = False
    last = None
    for r in recs:
        try:
            seen = True
            last = self.parse(r)
        except ValueError:
            continue
    return seen, last
""", """
print('A:', outcome(fa, Rec(parse=[ValueError]), [1])); print('B:', outcome(fb, Rec(parse=[ValueError]), [1]))
assert outcome(fa, Rec(parse=[ValueError]), [1]) != outcome(fb, Rec(parse=[ValueError]), [1])
""")

add('T2 default-then-override in a try body inside a loop: when the override fails the default is in place / the status of the previous record is', """
def f(self, recs, out):
    st = None
    for r in recs:
        try:
            st = 'skip'
            if r.ok:
                st = self.parse(r)
        except ValueError:
            pass
        out.append(st)
""", """
def f(self, recs, out):
    st = None
    for r in recs:
        try:
            st = self.parse(r) if r.ok else 'skip'
        except ValueError:
            pass
        out.append(st)
""", """
def run(fn):
    out = []
    fn(Rec(parse=['A', ValueError]), [Obj(ok=True), Obj(ok=True)], out)
    return out
print('A:', run(fa)); print('B:', run(fb))
assert run(fa) != run(fb)
""")

# ===========================================================================================================================
# N. Nested scopes are compared as written (cx 2674-2675, _cstmt 3185-3188) while the locals outside them are numbered by first
#    occurrence (3667) / comprehension variables by depth (2643-2661).  Which variable a lambda / nested def captures is
#    therefore not part of the canonical text.  (The docstring of _Rename says "the names they mention are never renamed outside
#    either, see canonical()" - canonical() does not do that.)
# ===========================================================================================================================
add('N1 two locals change names, the lambda that captures one of them is compared as written', '''
def f(self, recs):
    base = self.base()
    off = self.off()
    self.check(base, off)
    return sorted(recs, key=lambda r: abs(r.pos - base))
''', '''
def f(self, recs):
    off = self.base()
    base = self.off()
    self.check(off, base)
    return sorted(recs, key=lambda r: abs(r.pos - base))
''', '''
recs = [Obj(pos=5), Obj(pos=90)]
print('A:', outcome(fa, Rec(base=100, off=0), recs)); print('B:', outcome(fb, Rec(base=100, off=0), recs))
assert outcome(fa, Rec(base=100, off=0), recs) != outcome(fb, Rec(base=100, off=0), recs)
''')

add('N2 nested def reads a renamed local (first / last exchanged)', '''
def f(self, recs):
    first = self.head()
    last = self.tail()
    def span(r):
        return r.pos - first
    self.check(first, last)
    return [span(r) for r in recs]
''', '''
def f(self, recs):
    last = self.head()
    first = self.tail()
    def span(r):
        return r.pos - first
    self.check(last, first)
    return [span(r) for r in recs]
''', '''
recs = [Obj(pos=10), Obj(pos=20)]
print('A:', outcome(fa, Rec(head=10, tail=20), recs)); print('B:', outcome(fb, Rec(head=10, tail=20), recs))
assert outcome(fa, Rec(head=10, tail=20), recs) != outcome(fb, Rec(head=10, tail=20), recs)
''')

add('N3 comprehension variable captured by a lambda: `for r in recs` renamed to `for q in recs`, the lambda now reads the parameter r', '''
def f(self, recs, r):
    return [self.defer(lambda: r.pos) for r in recs]
''', '''
def f(self, recs, r):
    return [self.defer(lambda: r.pos) for q in recs]
''', '''
recs = [Obj(pos=1), Obj(pos=2)]
s = Rec(defer=lambda fn: fn())
print('A:', outcome(fa, s, recs, Obj(pos=99))); print('B:', outcome(fb, s, recs, Obj(pos=99)))
assert outcome(fa, s, recs, Obj(pos=99)) != outcome(fb, s, recs, Obj(pos=99))
''')

add('N4 loops_to_comprehensions: a closure defined before the loop reads the list being built (the comprehension binds the name only at the end)', '''
def f(self, xs):
    out = []
    def n():
        return len(out)
    out = []
    for x in xs:
        out.append(n())
    return out
''', '''
def f(self, xs):
    out = []
    def n():
        return len(out)
    out = [n() for x in xs]
    return out
''', '''
print('A:', outcome(fa, None, 'abc')); print('B:', outcome(fb, None, 'abc'))
assert outcome(fa, None, 'abc') != outcome(fb, None, 'abc')
''')

# ===========================================================================================================================
# C. cx (2573-2580): sum / min / max / tuple / list / sorted / set / frozenset / join of a generator expression is given the text of
#    the same call on the list comprehension ("consumed completely and at once").  Inside a generator expression a StopIteration
#    (the `next(it)` idiom for reading n items) becomes RuntimeError (PEP 479); inside a list comprehension / loop it propagates.
# ===========================================================================================================================
add('C1 tuple(next(it) for ..) vs tuple([next(it) for ..]): StopIteration at end of input becomes RuntimeError', '''
def f(it, n):
    out = []
    for _ in range(n):
        out.append(next(it))
    return tuple(out)
''', '''
def f(it, n):
    return tuple(next(it) for _ in range(n))
''', '''
print('A:', outcome(fa, iter([1]), 2)); print('B:', outcome(fb, iter([1]), 2))
def read_all(fn):
    it = iter([1, 2, 3]); got = []
    try:
        while True:
            got.append(fn(it, 2))
    except StopIteration:          # the caller's end-of-input test
        return got
print('caller that stops on StopIteration:  A ->', outcome(read_all, fa), '  B ->', outcome(read_all, fb))
assert outcome(fa, iter([1]), 2) != outcome(fb, iter([1]), 2)
''')

add('C2 sum(generator) stops evaluating the elements when the addition fails, sum([list]) has made all the calls', '''
def f(self, xs):
    return sum(self.read(x) for x in xs)
''', '''
def f(self, xs):
    return sum([self.read(x) for x in xs])
''', '''
a, b = Rec(read=[1, None, 3]), Rec(read=[1, None, 3])
print('A:', outcome(fa, a, 'abc'), a.calls); print('B:', outcome(fb, b, 'abc'), b.calls)
assert a.calls != b.calls
''')

# ===========================================================================================================================
# M. _mk_if (2860-2871): a test in _PURE_ATOMS (is_pure, nothing about may_raise) whose branches are identical is dropped, and two
#    such tests are put in text order.  A test that can fail (lookup, attribute of a possibly-None object) is then not evaluated
#    / evaluated second.
# ===========================================================================================================================
add('M1 identical branches merged: the lookup that validated the code (KeyError for unknown codes) is gone', '''
def f(self, tab, code):
    n = 0
    if tab[code] > 0:
        n = 0
    return n
''', '''
def f(self, tab, code):
    return 0
''', '''
print('A:', outcome(fa, None, {1: 5}, 2)); print('B:', outcome(fb, None, {1: 5}, 2))
assert outcome(fa, None, {1: 5}, 2) != outcome(fb, None, {1: 5}, 2)
''')

add('M2 identical branches merged: `if r.hdr.kind == 1: X else: X` equals X (r.hdr may be None)', '''
def f(self, r):
    if r.hdr.kind == 1:
        self.n += 1
    else:
        self.n += 1
''', '''
def f(self, r):
    self.n += 1
''', '''
a, b = Obj(n=0), Obj(n=0)
print('A:', outcome(fa, a, Obj(hdr=None)), a); print('B:', outcome(fb, b, Obj(hdr=None)), b)
assert a.n != b.n
''')

add('M3 two tests that can fail put in text order: a different exception comes first', '''
def f(r, d, k):
    if r.kind == 1:
        if d[k] == 2:
            return 1
        return 2
    if d[k] == 2:
        return 3
    return 4
''', '''
def f(r, d, k):
    if d[k] == 2:
        if r.kind == 1:
            return 1
        return 3
    if r.kind == 1:
        return 2
    return 4
''', '''
print('A:', outcome(fa, None, {}, 0)); print('B:', outcome(fb, None, {}, 0))
assert outcome(fa, None, {}, 0) != outcome(fb, None, {}, 0)
''')

# ===========================================================================================================================
# P. (gate level) The tree-level steps decide "cannot change what c reads" on the TEXT of the test (`tgt not in c`, 2819 / 2952).
#    A test that reads a property (`self.ready`, not expressible as `return E`, so not inlined) depends on the attributes the
#    property body reads; ALL_PROPS is consulted by read_chains (AST-level steps) but not by _assume nor by the
#    default-then-override rule of seq().
# ===========================================================================================================================
_PROP = '''
class K:
    def __init__(self, m):
        self.m = m
        self.log = []
    @property
    def ready(self):
        for r in self.m or ():
            if r:
                return True
        return False
    def flush(self):
        self.log.append('flush')
'''
gadd('P1 _assume: `if self.ready:` re-tested after `self.m = None` is folded although the property reads self.m',
     _PROP + '''
    def f(self, t):
        if self.ready:
            self.m = None
            if self.ready:
                self.flush()
''', _PROP + '''
    def f(self, t):
        if self.ready:
            self.m = None
            self.flush()
''', 'K.f', '''
a, b = MA['K']([1]), MB['K']([1])
a.f(0); b.f(0)
print('current  :', a.log); print('reference:', b.log)
assert a.log != b.log
''')

gadd('P2 seq() default-then-override: `self.m = None; if self.ready: self.m = t` equals if/else although the test reads self.m through the property',
     _PROP + '''
    def f(self, t):
        self.m = None
        if self.ready:
            self.m = t
        self.n = 1
''', _PROP + '''
    def f(self, t):
        if self.ready:
            self.m = t
        else:
            self.m = None
        self.n = 1
''', 'K.f', '''
a, b = MA['K']([1]), MB['K']([1])
a.f([2]); b.f([2])
print('current  : m =', a.m); print('reference: m =', b.m)
assert a.m != b.m
''')

_G = '''
class R:
    def __init__(self):
        self.n = 0
    def reset(self):
        self.n += 1
'''
gadd('G1 (gate) generator method `return; yield` against the plain method', _G + '''
    def frames(self):
        self.reset()
        return
''', _G + '''
    def frames(self):
        self.reset()
        return
        yield
''', 'R.frames', '''
a, b = MA['R'](), MB['R']()
ra, rb = a.frames(), b.frames()
print('current  :', type(ra).__name__, 'n =', a.n); print('reference:', type(rb).__name__, 'n =', b.n)
assert a.n != b.n
''')


# ---------------------------------------------------------------------------------------------------------------------------
def _helpers(hs):
    if not hs:
        return None
    out = {}
    for src in ([hs] if isinstance(hs, str) else hs):
        h = ast.parse(src.strip('\n')).body[0]
        out[h.name] = (h, bool(h.args.args) and h.args.args[0].arg == 'self' or any(isinstance(d, ast.Name) and d.id == 'staticmethod' for d in h.decorator_list))
    return out


def same(a, b, **kw):
    from tdstatic import equiv
    equiv.REPO_DEFINED[0] = frozenset()
    ca = equiv.canonical(ast.parse(a).body[0], _helpers(kw.get('helpers_a')), dicts=kw.get('dicts'), sized=kw.get('sized'), props=kw.get('props'))
    cb = equiv.canonical(ast.parse(b).body[0], _helpers(kw.get('helpers_b')), dicts=kw.get('dicts'), sized=kw.get('sized'), props=kw.get('props'))
    return ca is not None and ca == cb


def gate_same(cur, ref, q):
    from tdstatic import equiv, gate
    equiv.REPO_DEFINED[0] = frozenset()
    return q in gate.apply(ast.parse(cur), ast.parse(ref), lambda t: None)


if __name__ == '__main__':
    bad = 0
    for k, (title, a, b, kw) in enumerate(FINDINGS, 1):
        r = same(a, b, **(kw or {}))
        print(f'--- {k}. {title}')
        print(f'    same(A, B) = {r}')
        ns = {}
        exec(STUBS, ns)
        ns['HELPER'] = ((kw or {}).get('helpers_a') or '').strip('\n')
        exec(a, ns); ns['fa'] = ns.pop('f')
        ns2 = dict(ns)
        exec(b, ns); ns['fb'] = ns.pop('f')
        try:
            exec(DEMOS[title], ns)
        except AssertionError:
            print('    !! demo shows NO difference')
            bad += 1
        if not r:
            bad += 1
    for k, (title, cur, ref, q) in enumerate(GATE_FINDINGS, 1):
        r = gate_same(cur, ref, q)
        print(f'--- gate {k}. {title}')
        print(f'    {q} taken as equivalent by gate.apply = {r}')
        ns = {}
        exec(STUBS, ns)
        ns['MA'], ns['MB'] = {}, {}
        exec(cur, ns['MA']); exec(ref, ns['MB'])
        try:
            exec(GATE_DEMOS[title], ns)
        except AssertionError:
            print('    !! demo shows NO difference')
            bad += 1
        if not r:
            bad += 1
    print(f'{len(FINDINGS)} findings + {len(GATE_FINDINGS)} gate findings, {bad} not confirmed')
