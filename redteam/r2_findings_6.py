"""Round-2 red-team findings for tdstatic/equiv.py + gate.py (focus: knowledge injected from the module - properties, module
constants / dicts, sized chains, builtin shadows, known_str, super(), signatures, nested scopes, class-level code).

FINDINGS = [(title, src_a, src_b, kwargs_or_None), ...]       pairs with same(A, B) == True that behave differently
    kwargs (plain Python values, turned into what equiv.canonical wants by build_kwargs):
      consts {'N': 4} / props {'size': ('self', 'len(self._d)')} / sized [('self', 'rows')] / dicts ['D'] / cls_name 'C'
      helpers_a / helpers_b   source text of the helper(s) that exist in that version only
      repo ['unpack']         equiv.REPO_DEFINED[0] for this pair (default: empty set, as in the task harness)
DEMOS[title]        python source run with fa, fb (the two functions), ns_a, ns_b (their globals); prints the differing outcomes
DEMO_GLOBALS[title] source exec'd into the globals of both functions first
GATE_FINDINGS = [(title, current_module_src, reference_module_src, qualname), ...]   gate.apply() answers qualname as equivalent
GATE_DEMOS[title]   (setup_src, call_src): for each of the two modules: ns = {}; exec(setup_src); exec(module); exec(call_src) -
                    call_src prints the outcome (exceptions are printed by the driver)

Run:  /venv/bin/python /tmp/redteam2/6/findings.py
"""
import ast
import os
import sys

sys.path.insert(0, os.path.dirname(os.path.dirname(os.path.abspath(__file__))))
from tdstatic import equiv, gate                                   # noqa: E402

equiv.REPO_DEFINED[0] = frozenset()


def _helpers(src):
    if not src:
        return None
    out = {}
    for h in ast.parse(src).body:
        out[h.name] = (h, bool(h.args.args) and h.args.args[0].arg == 'self' or any(isinstance(d, ast.Name) and d.id == 'staticmethod' for d in h.decorator_list))
    return out


def build_kwargs(kw):
    kw = dict(kw or {})
    out = {}
    if 'consts' in kw:
        out['consts'] = {k: ast.Constant(value=v) for k, v in kw['consts'].items()}
    if 'props' in kw:
        out['props'] = {k: (s, ast.parse(e, mode='eval').body) for k, (s, e) in kw['props'].items()}
    if 'sized' in kw:
        out['sized'] = [tuple(c) for c in kw['sized']]
    for k in ('dicts', 'cls_name'):
        if k in kw:
            out[k] = kw[k]
    return out, _helpers(kw.get('helpers_a')), _helpers(kw.get('helpers_b'))


def same(a, b, kw=None, **kwargs):
    kw = dict(kw or {})
    kw.update(kwargs)
    extra, ha, hb = build_kwargs(kw)
    saved = equiv.REPO_DEFINED[0]
    equiv.REPO_DEFINED[0] = frozenset(kw.get('repo', ()))
    try:
        ca = equiv.canonical(ast.parse(a).body[0], ha, **extra)
        cb = equiv.canonical(ast.parse(b).body[0], hb, **extra)
    finally:
        equiv.REPO_DEFINED[0] = saved
    return ca is not None and ca == cb


def gated(cur, ref, repo=()):
    saved = equiv.REPO_DEFINED[0]
    equiv.REPO_DEFINED[0] = frozenset(repo)
    try:
        return gate.apply(ast.parse(cur), ast.parse(ref), lambda t: None)
    finally:
        equiv.REPO_DEFINED[0] = saved


FINDINGS = []
DEMOS = {}
DEMO_GLOBALS = {}
GATE_FINDINGS = []
GATE_DEMOS = {}
GATE_REPO = {}


def add(title, a, b, kw=None, demo=None, glob=None):
    FINDINGS.append((title, a, b, kw))
    if demo:
        DEMOS[title] = demo
    if glob:
        DEMO_GLOBALS[title] = glob


def gadd(title, cur, ref, q, setup='', call='', repo=()):
    GATE_FINDINGS.append((title, cur, ref, q))
    GATE_DEMOS[title] = (setup, call)
    if repo:
        GATE_REPO[title] = tuple(repo)


_TRY = "for fn, nm in ((fa, 'A'), (fb, 'B')):\n    try:\n        print(nm + ':', %s)\n    except Exception as e:\n        print(nm + ': raises', type(e).__name__ + ':', e)"

# #####################################################################################################################
# 1. nested scopes are compared as written, the enclosing function's locals are numbered: which outer variable a closure
#    captures is invisible
# #####################################################################################################################
add('N1 closure captures another variable: two locals swap their names, the nested def (compared as written) still says `lo`',
    "def bounds(self, x, y):\n    lo = self.fetch(x)\n    hi = self.fetch(y)\n    self.log(lo, hi)\n    def inside(v):\n        return lo <= v\n    return inside",
    "def bounds(self, x, y):\n    hi = self.fetch(x)\n    lo = self.fetch(y)\n    self.log(hi, lo)\n    def inside(v):\n        return lo <= v\n    return inside",
    None,
    demo="class S:\n    def fetch(self, k): return k\n    def log(self, *a): pass\nprint('A: inside(5) =', fa(S(), 3, 9)(5), ' B: inside(5) =', fb(S(), 3, 9)(5))")

add('N2 local renamed, the lambda still uses the old spelling and now reads the module-level name (a renaming done by halves)',
    "def scaler(self, x):\n    k = self.fetch(x)\n    self.log(k, k)\n    return lambda v: v * k",
    "def scaler(self, x):\n    j = self.fetch(x)\n    self.log(j, j)\n    return lambda v: v * k",
    None,
    demo="class S:\n    def fetch(self, k): return k\n    def log(self, *a): pass\nprint('A:', fa(S(), 3)(10), ' B:', fb(S(), 3)(10))",
    glob="k = 1000          # a module-level name with the old spelling")

add('N3 the reverse: a new local takes the spelling of a module-level name that a nested function reads (default argument of a lambda, too)',
    "def handlers(self, rec):\n    n = self.fetch(rec)\n    self.log(n, n)\n    return [lambda: limit, lambda v=limit: v]",
    "def handlers(self, rec):\n    limit = self.fetch(rec)\n    self.log(limit, limit)\n    return [lambda: limit, lambda v=limit: v]",
    None,
    demo="class S:\n    def fetch(self, k): return k\n    def log(self, *a): pass\nprint('A:', [g() for g in fa(S(), 7)], ' B:', [g() for g in fb(S(), 7)])",
    glob="limit = 4096")

add('N4 lambda inside a comprehension: the comprehension variable is numbered, the lambda body keeps its spelling - `for r in recs` vs `for rec in recs` with the lambda reading r (now the parameter r)',
    "def getters(r, recs):\n    return [lambda: r.name for r in recs]",
    "def getters(r, recs):\n    return [lambda: r.name for rec in recs]",
    None,
    demo="class R:\n    def __init__(self, n): self.name = n\nprint('A:', [g() for g in fa(R('param'), [R('a'), R('b')])], ' B:', [g() for g in fb(R('param'), [R('a'), R('b')])])")

add('N5 a nested function that appends to a captured list is handed out as a callback: `ok = not errors` computed BEFORE the loop equals `return not errors` after it (written_chains knows nothing of what a closure captures)',
    "def scan(self, recs):\n    errors = []\n    def note(msg):\n        errors.append(msg)\n    ok = not errors\n    for r in recs:\n        self.check(r, note)\n    return ok",
    "def scan(self, recs):\n    errors = []\n    def note(msg):\n        errors.append(msg)\n    for r in recs:\n        self.check(r, note)\n    return not errors",
    None,
    demo="class S:\n    def check(self, r, note):\n        if r < 0:\n            note('negative')\nprint('A:', fa(S(), [1, -1]), ' B:', fb(S(), [1, -1]))")

add('N6 the closure called directly: add(r) names neither `seen` nor self, so len(seen) / self.n may be read before or after',
    "def scan(self, recs):\n    seen = []\n    def add(r):\n        seen.append(r)\n        self.n += 1\n    n = len(seen) + self.n\n    for r in recs:\n        add(r)\n    return n",
    "def scan(self, recs):\n    seen = []\n    def add(r):\n        seen.append(r)\n        self.n += 1\n    for r in recs:\n        add(r)\n    return len(seen) + self.n",
    None,
    demo="class S:\n    n = 0\nprint('A:', fa(S(), [1, 2]), ' B:', fb(S(), [1, 2]))")

# #####################################################################################################################
# 2b. locals() / vars() / eval see the locals that drop_dead_locals removes and the numbering renames
# #####################################################################################################################
add("V1 `'%(name)s ..' % locals()`: the locals it reads have no Name loads, drop_dead_locals deletes them (the `unused variable` clean-up that breaks the message)",
    "def describe(self, rec):\n    name = rec.name\n    size = len(rec.data)\n    return '%(name)s: %(size)d bytes' % locals()",
    "def describe(self, rec):\n    return '%(name)s: %(size)d bytes' % locals()",
    None,
    demo="class R:\n    name = 'HDR'\n    data = b'abcd'\n" + _TRY % "fn(None, R())")

add("V2 locals() and a renamed local: `name` -> `nm`, the format string still says %(name)s",
    "def describe(self, rec):\n    name = self.fetch(rec)\n    self.log(name, name)\n    return '%(name)s' % locals()",
    "def describe(self, rec):\n    nm = self.fetch(rec)\n    self.log(nm, nm)\n    return '%(name)s' % locals()",
    None,
    demo="class S:\n    def fetch(self, r): return 'HDR'\n    def log(self, *a): pass\n" + _TRY % "fn(S(), 1)")

add('V3 eval(expr) reads a local that has no other use',
    "def calc(self, expr):\n    x = self.x\n    return eval(expr)",
    "def calc(self, expr):\n    return eval(expr)",
    None,
    demo="class S:\n    x = 20\n" + _TRY % "fn(S(), 'x + 1')",
    glob="x = 1")


# #####################################################################################################################
# 2. a generator expression is not a closure for _NO_CLOSURES: literal locals are substituted into it although it runs later
# #####################################################################################################################
add('L1 literal local read by a lazily evaluated generator expression: the later re-assignment is dropped (seq/_subst_const, _NO_CLOSURES ignores GeneratorExp)',
    "def rows(self, recs):\n    scale = 1\n    out = (r + scale for r in recs)\n    if self.metric:\n        scale = 1000\n    self.n += 1\n    return list(out)",
    "def rows(self, recs):\n    scale = 1\n    out = (r + scale for r in recs)\n    self.n += 1\n    return list(out)",
    None,
    demo="class S:\n    metric = True\n    n = 0\nprint('A:', fa(S(), [1, 2]), ' B:', fb(S(), [1, 2]))")

add('L2 flag switched on after the generator is built (generator handed to a consumer): the literal of the first assignment is written into the generator',
    "def convert(self, recs):\n    strict = False\n    out = (self.conv(r, strict) for r in recs)\n    strict = True\n    return self.pack(out)",
    "def convert(self, recs):\n    out = (self.conv(r, False) for r in recs)\n    return self.pack(out)",
    None,
    demo="class S:\n    def conv(self, r, strict): return (r, strict)\n    def pack(self, it): return list(it)\nprint('A:', fa(S(), [1]), ' B:', fb(S(), [1]))")

# #####################################################################################################################
# 3. tuple display split / format(): evaluation order and exceptions
# #####################################################################################################################
add('T1 tuple display assignment to NAMES split inside a try body: `a, b = 1, int(s)` binds nothing when int(s) raises, the split form has bound a (the handler reads it)',
    "def parse(self, s):\n    count = 0\n    try:\n        count, width = 1, int(s)\n    except ValueError:\n        return count\n    return count + width",
    "def parse(self, s):\n    count = 0\n    try:\n        count = 1\n        width = int(s)\n    except ValueError:\n        return count\n    return count + width",
    None,
    demo="print('A:', fa(None, 'x'), ' B:', fb(None, 'x'))")

add("F1 '{} {}'.format(obj, call()) -> f-string: format() renders obj AFTER the call has changed it, the f-string before",
    "def show(self):\n    return '{} {}'.format(self.stack, self.pop())",
    "def show(self):\n    return f'{self.stack} {self.pop()}'",
    None,
    demo="class S:\n    def __init__(self): self.stack = [1, 2, 3]\n    def pop(self): return self.stack.pop()\nprint('A:', fa(S()), ' B:', fb(S()))")

# #####################################################################################################################
# 4. class attributes read through the instance
# #####################################################################################################################
add('K1 class-level counter: `self.count` (read through the instance) is not taken to be changed by `self.__class__.count += 1` / `type(self).count += 1` / `Rec.count += 1`',
    "def next_id(self):\n    n = self.count\n    self.__class__.count += 1\n    return n",
    "def next_id(self):\n    self.__class__.count += 1\n    return self.count",
    None,
    demo="class Rec:\n    count = 0\nr = Rec(); a = (fa(r), fa(r)); Rec.count = 0; b = (fb(r), fb(r))\nprint('A:', a, ' B:', b)")

add('K2 the same with type(self).count += 1 (a target whose chain starts at a call writes nothing at all for written_chains)',
    "def next_id(self):\n    n = self.count\n    type(self).count += 1\n    return n",
    "def next_id(self):\n    type(self).count += 1\n    return self.count",
    None,
    demo="class Rec:\n    count = 0\nr = Rec(); a = (fa(r), fa(r)); Rec.count = 0; b = (fb(r), fb(r))\nprint('A:', a, ' B:', b)")

# #####################################################################################################################
# 5. builtin names that known_str trusts but BUILTIN_SENSITIVE does not list: ascii / oct / bin
# #####################################################################################################################
add("B1 known_str trusts bin / oct / ascii, which are not in BUILTIN_SENSITIVE: a parameter called `bin` (histogram bin -> (index, rest)) makes '%s' % bin(x) the 1-tuple form",
    "def label(bin, x):\n    return 'bin %s' % bin(x)",
    "def label(bin, x):\n    return 'bin %s' % (bin(x),)",
    None,
    demo=_TRY % "fn(lambda v: (v // 8, v % 8), 13)")

# #####################################################################################################################
# 6. receivers that are `standard library by their spelling`: a parameter called struct / re
# #####################################################################################################################
add('R1 _stdlib_receiver goes by spelling: a parameter named `struct` (a record structure of the code base, unpack() reads the stream) is taken for the struct module, so struct.unpack(fobj) is free of side effects',
    "def read(struct, fobj):\n    pos = fobj.pos\n    v = struct.unpack(fobj)\n    return pos, v",
    "def read(struct, fobj):\n    v = struct.unpack(fobj)\n    pos = fobj.pos\n    return pos, v",
    {'repo': ['unpack']},
    demo="class F:\n    pos = 0\nclass St:\n    def unpack(self, f):\n        f.pos += 4\n        return 'rec'\nprint('A:', fa(St(), F()), ' B:', fb(St(), F()))")

# #####################################################################################################################
# 7. properties: the receiver is dropped when the property body does not read self / reads it on one branch only
# #####################################################################################################################
add('P1 property whose body does not read self: `self.recs[i].kind` becomes the literal, the lookup self.recs[i] (IndexError) is gone',
    "def kind_of(self, i):\n    return self.recs[i].kind",
    "def kind_of(self, i):\n    return 'EFLR'",
    {'props': {'kind': ('self', "'EFLR'")}},
    demo="class R:\n    @property\n    def kind(self): return 'EFLR'\nclass S:\n    recs = [R()]\n" + _TRY % "fn(S(), 3)")

add('H1 expression helper: an attribute-chain argument counts as `cannot fail`, so pick(flag, self.cur.pos, 0) == self.cur.pos if flag else 0 - with self.cur None the first raises always, the second only when flag',
    "def where(self, flag):\n    return pick(flag, self.cur.pos, 0)",
    "def where(self, flag):\n    return self.cur.pos if flag else 0",
    {'helpers_a': "def pick(c, a, b):\n    return a if c else b"},
    demo="class S:\n    cur = None\n" + _TRY % "fn(S(), False)",
    glob="def pick(c, a, b):\n    return a if c else b")

add('H2 a nested def of the caller shadows the new module-level helper of the same name (_caller_bound has no FunctionDef / ClassDef names): the module-level body is pasted over a call of the nested function',
    "def names(xs):\n    def clean(x):\n        return x.lower()\n    return [clean(x) for x in xs]",
    "def names(xs):\n    def clean(x):\n        return x.lower()\n    return [x.strip() for x in xs]",
    {'helpers_a': "def clean(x):\n    return x.strip()"},
    demo="print('A:', fa([' Ab ']), ' B:', fb([' Ab ']))",
    glob="def clean(x):\n    return x.strip()")

# #####################################################################################################################
# 8. rules that go by a method NAME without asking builtin_only(): join / append / add (REPO_DEFINED says the code base defines them)
# #####################################################################################################################
add('J1 X.join(generator) == X.join([list]) for any receiver, also when the code base defines a method join (cx has no builtin_only("join") test, unlike keys): a path object whose join() takes len() of its argument',
    "def full(self, xs):\n    return self.path.join([x.name for x in xs])",
    "def full(self, xs):\n    return self.path.join(x.name for x in xs)",
    {'repo': ['join']},
    demo="class P:\n    def join(self, parts):\n        return '%d:%s' % (len(parts), '/'.join(parts))\nclass X:\n    name = 'a'\nclass S:\n    path = P()\n" + _TRY % "fn(S(), [X(), X()])")

add('J2 _has_nested_scope_use: a generator handed to ANY .join() counts as consumed at once; a join() of the code base that keeps it (lazy pipeline) runs it after self.n was reset',
    "def plan(self, w):\n    n = self.n\n    g = w.join(n + x for x in self.xs)\n    self.n = 0\n    return w.run(g)",
    "def plan(self, w):\n    g = w.join(self.n + x for x in self.xs)\n    self.n = 0\n    return w.run(g)",
    {'repo': ['join']},
    demo="class W:\n    def join(self, it): return it\n    def run(self, it): return list(it)\nclass S:\n    n = 10\n    xs = [1, 2]\nprint('A:', fa(S(), W()), ' B:', fb(S(), W()))")

add('J3 sort_independent_runs reorders X.append(..) / Y.add(..) on attribute chains as list / set methods although the code base defines append and add (two writers on one stream)',
    "def put(self, rec, k):\n    self.writer.append(rec)\n    self.index.add(k)",
    "def put(self, rec, k):\n    self.index.add(k)\n    self.writer.append(rec)",
    {'repo': ['append', 'add']},
    demo="LOG = []\nclass Wr:\n    def append(self, r): LOG.append(('rec', r))\nclass Ix:\n    def add(self, k): LOG.append(('key', k))\nclass S:\n    writer = Wr(); index = Ix()\n"
         "fa(S(), 'r', 'k'); a = list(LOG); del LOG[:]; fb(S(), 'r', 'k'); print('A:', a, ' B:', LOG)")


# #####################################################################################################################
# 9. the alias table (function_aliases) is computed once, on the original function: aliases made by pasted helpers and
#    aliases of locals that ssa_split / split_webs rename afterwards are unknown to interferes()
# #####################################################################################################################
add('A1 alias created by the binding of a pasted helper parameter: _touch(self.cur) pasted as `r__h1 = self.cur; r__h1.count += 1` does not write self.cur for inline_temps (ALIASES predates the pasting)',
    "def add(self):\n    n = self.cur.count\n    _touch(self.cur)\n    return n",
    "def add(self):\n    self.cur.count += 1\n    return self.cur.count",
    {'helpers_a': "def _touch(r):\n    r.count += 1"},
    demo="class R:\n    count = 0\nclass S:\n    def __init__(self): self.cur = R()\nprint('A:', fa(S()), ' B:', fb(S()))",
    glob="def _touch(r):\n    r.count += 1")

add('A2 alias created inside the pasted helper body (`rows = self.rows; rows.append(0)`)',
    "def add(self):\n    n = len(self.rows)\n    self._bump()\n    return n",
    "def add(self):\n    rows = self.rows\n    rows.append(0)\n    return len(self.rows)",
    {'helpers_a': "def _bump(self):\n    rows = self.rows\n    rows.append(0)"},
    demo="class S:\n    def __init__(self): self.rows = []\n    def _bump(self):\n        rows = self.rows\n        rows.append(0)\nprint('A:', fa(S()), ' B:', fb(S()))")

add('A3 alias of a local that ssa_split renames (temporary name used twice): the pair (x, self.rows) is stale once x is x__v1',
    "def f(self):\n    n = len(self.rows)\n    x = self.rows\n    x.append(0)\n    x = self.other\n    x.append(1)\n    return n",
    "def f(self):\n    x = self.rows\n    x.append(0)\n    y = self.other\n    y.append(1)\n    return len(self.rows)",
    None,
    demo="class S:\n    def __init__(self): self.rows = []; self.other = []\nprint('A:', fa(S()), ' B:', fb(S()))")

add('A4 alias of a local that split_webs renames (same name bound in both branches of an if)',
    "def f(self, flag):\n    n = self.cur.count\n    if flag:\n        r = self.cur\n        r.count += 1\n    else:\n        r = self.prev\n        r.count += 2\n    return n",
    "def f(self, flag):\n    if flag:\n        r = self.cur\n        r.count += 1\n    else:\n        q = self.prev\n        q.count += 2\n    return self.cur.count",
    None,
    demo="class R:\n    count = 0\nclass S:\n    def __init__(self): self.cur = R(); self.prev = R()\nprint('A:', fa(S(), True), ' B:', fb(S(), True))")

add('R2 the match-object rule also fires for a receiver whose chain starts with `struct` (only `re` itself is excluded): struct.search(pat) is None == not struct.search(pat) for a parameter called struct',
    "def find(struct, pat):\n    if struct.search(pat) is None:\n        return -1\n    return 1",
    "def find(struct, pat):\n    if not struct.search(pat):\n        return -1\n    return 1",
    None,
    demo="class St:\n    def search(self, pat): return 0          # offset of the hit\nprint('A:', fa(St(), b'x'), ' B:', fb(St(), b'x'))")


add('Q1 elements reached through X.values() are no alias of X: `for r in self.by_id.values(): r.count += 1` does not disturb a read of self.by_id.get(k).count (_alias_sources knows names, items and enumerate / zip / ..., not method calls)',
    "def bump(self, k):\n    n = self.by_id.get(k).count\n    for r in self.by_id.values():\n        r.count += 1\n    return n",
    "def bump(self, k):\n    for r in self.by_id.values():\n        r.count += 1\n    return self.by_id.get(k).count",
    None,
    demo="class R:\n    count = 0\nclass S:\n    def __init__(self): self.by_id = {1: R()}\nprint('A:', fa(S(), 1), ' B:', fb(S(), 1))")

add('Q2 object fetched with X.get(k) and changed through the local (after inlining the target self.by_id.get(k).count has no chain at all: nothing is written)',
    "def bump(self, k):\n    n = self.by_id.get(k).count\n    r = self.by_id.get(k)\n    r.count += 1\n    return n",
    "def bump(self, k):\n    r = self.by_id.get(k)\n    r.count += 1\n    return self.by_id.get(k).count",
    None,
    demo="class R:\n    count = 0\nclass S:\n    def __init__(self): self.by_id = {1: R()}\nprint('A:', fa(S(), 1), ' B:', fb(S(), 1))")

add('S1 (types unknown to the tool) `cols = self.head + self.tail` used twice: one shared list vs two lists (_allocates sees + only next to a display)',
    "def setup(self):\n    cols = self.head + self.tail\n    self.names = cols\n    self.order = cols",
    "def setup(self):\n    self.names = self.head + self.tail\n    self.order = self.head + self.tail",
    None,
    demo="class S:\n    head = ['a']; tail = ['b']\na, b = S(), S()\nfa(a); fb(b)\na.order.append('z'); b.order.append('z')\nprint('A: names =', a.names, ' B: names =', b.names)")

add('J4 (weak) _is_boolean takes X.startswith(..) / isdigit() / ... for truth values by name alone, also when the code base defines startswith (a token class answering the rest of the text or None)',
    "def known(self, s):\n    return self.tok.startswith(s)",
    "def known(self, s):\n    if self.tok.startswith(s):\n        return True\n    return False",
    {'repo': ['startswith']},
    demo="class Tok:\n    def startswith(self, s): return 'rest'\nclass S:\n    tok = Tok()\nprint('A:', fa(S(), 'x'), ' B:', fb(S(), 'x'))")


add('Z1 try / except KeyError -> .get() is offered for every `sized` attribute, lists included: IndexError vs AttributeError',
    "def row(self, k):\n    try:\n        v = self.rows[k]\n    except KeyError:\n        v = None\n    return v",
    "def row(self, k):\n    v = self.rows.get(k)\n    return v",
    {'sized': [('self', 'rows')]},
    demo="class S:\n    rows = [1, 2]\n" + _TRY % "fn(S(), 5)")

add('W1 receiver reached through a side-effect-free call: getattr(self, kind).append(rec) writes nothing (the outer receiver has no chain, the inner call is `pure` and skipped)',
    "def add(self, kind, rec):\n    n = len(self.frames)\n    getattr(self, kind).append(rec)\n    return n",
    "def add(self, kind, rec):\n    getattr(self, kind).append(rec)\n    return len(self.frames)",
    None,
    demo="class S:\n    def __init__(self): self.frames = []\nprint('A:', fa(S(), 'frames', 1), ' B:', fb(S(), 'frames', 1))")


# #####################################################################################################################
# gate-level findings (module context)
# #####################################################################################################################
_NP = "from numpy import *\n"
gadd('GB1 builtin shadowed by `from numpy import *` (module_bound_names sees only the name `*`): early-return loop == `if any(generator)`; numpy.any(generator) is always true',
     _NP + "def has_bad(xs, lim):\n    if any(v > lim for v in xs):\n        return True\n    return False\n",
     _NP + "def has_bad(xs, lim):\n    for v in xs:\n        if v > lim:\n            return True\n    return False\n",
     'has_bad', call="print(has_bad([1, 2], 5))")
gadd('GB2 the same hole, max([...]) == max(generator): numpy.max(generator) answers the generator object',
     _NP + "def peak(w, xs):\n    return max(w * x for x in xs)\n",
     _NP + "def peak(w, xs):\n    return max([w * x for x in xs])\n",
     'peak', call="print(peak(2, [1, 2]))")
gadd('GB3 the same hole, `return all(xs)` == `return True / return False`: numpy.all answers numpy.bool_ (json.dumps refuses it)',
     _NP + "def ok(xs):\n    if all(xs):\n        return True\n    return False\n",
     _NP + "def ok(xs):\n    return all(xs)\n",
     'ok', call="import json\nprint(json.dumps({'ok': ok([1, 1])}))")
_TI = "try:\n    from numpy import any, all\nexcept ImportError:\n    pass\n"
gadd('GB4 builtin rebound by an import inside a module-level try (module_bound_names walks nested statements for Name stores only, aliases are not Names)',
     _TI + "def has_bad(xs, lim):\n    if any(v > lim for v in xs):\n        return True\n    return False\n",
     _TI + "def has_bad(xs, lim):\n    for v in xs:\n        if v > lim:\n            return True\n    return False\n",
     'has_bad', call="print(has_bad([1, 2], 5))")
_DI = "import sys\nif sys.version_info[0] >= 3:\n    def any(it):\n        'compat shim of the code base: answers the first true element'\n        for x in it:\n            if x:\n                return x\n        return None\n"
gadd('GB5 builtin rebound by a def under a module-level `if` (a FunctionDef name is not a Name store either)',
     _DI + "def first_big(xs, lim):\n    if any(v * (v > lim) for v in xs):\n        return True\n    return False\n",
     _DI + "def first_big(xs, lim):\n    return any(v * (v > lim) for v in xs)\n",
     'first_big', call="print(first_big([1, 7], 5))")
_GL = "import numpy\ndef use_numpy():\n    global any\n    any = numpy.any\nuse_numpy()\n"
gadd('GB6 builtin rebound through `global any` in a function of the module',
     _GL + "def has_bad(xs, lim):\n    if any(v > lim for v in xs):\n        return True\n    return False\n",
     _GL + "def has_bad(xs, lim):\n    for v in xs:\n        if v > lim:\n            return True\n    return False\n",
     'has_bad', call="print(has_bad([1, 2], 5))")

# ---------------------------------------------------------------------------------------------- properties with setters
_CUR = """
class Cur:
    def __init__(self):
        self._pos = 0
        self.size = 0
    @property
    def pos(self):
        return self._pos
    @pos.setter
    def pos(self, v):
        if v > self.size:
            raise ValueError('beyond end')
        self._pos = v
    def reset(self, n, p):
%s
    def seek(self, p):
%s
    def rewind(self):
%s
"""
_REF_CUR = _CUR % ("        self.size = n\n        self.pos = p", "        old = self._pos\n        self.pos = p\n        return old",
                   "        if self._pos == 0:\n            return 0\n        self.pos = 0\n        if self._pos == 0:\n            return 1\n        return 2")
_CUR_CUR = _CUR % ("        self.pos = p\n        self.size = n", "        self.pos = p\n        return self._pos",
                   "        if self._pos == 0:\n            return 0\n        self.pos = 0\n        return 2")
gadd('GP1 a store through a property SETTER is a store to that attribute name only: sort_independent_runs swaps `self.size = n; self.pos = p` (the setter validates against self.size)',
     _CUR_CUR, _REF_CUR, 'Cur.reset', call="c = Cur()\nc.reset(10, 5)\nprint('pos', c.pos, 'size', c.size)")
gadd('GP2 the same: `old = self._pos; self.pos = p; return old` == `self.pos = p; return self._pos` (interferes: chain self.pos does not touch self._pos)',
     _CUR_CUR, _REF_CUR, 'Cur.seek', call="c = Cur()\nc.size = 10\nprint(c.seek(5))")
gadd('GP3 the same in _assume: the test self._pos == 0 repeated after `self.pos = 0` is taken as still false',
     _CUR_CUR, _REF_CUR, 'Cur.rewind', call="c = Cur()\nc.size = 10\nc.pos = 4\nprint(c.rewind())")

# ---------------------------------------------------------------------------------------------- module globals rebound by __enter__
_LV = """
_level = 0
class Indent:
    def __enter__(self):
        global _level
        _level += 1
    def __exit__(self, *a):
        global _level
        _level -= 1
class W:
    indent = Indent()
    def dump(self, out):
%s
"""
gadd('GG1 mutable_globals are guarded against calls only: `with self.indent:` (whose __enter__ rebinds the global) is not a call, the saved level is read inside the block instead',
     _LV % "        with self.indent:\n            out.append(_level)",
     _LV % "        lvl = _level\n        with self.indent:\n            out.append(lvl)",
     'W.dump', call="o = []\nW().dump(o)\nprint(o)")
_HG = """
_level = 0
def push():
    global _level
    _level += 1
%s
"""
gadd('GG2 hoist_helper_calls: a bare name read before the helper call is `harmless` although the helper (through push()) rebinds that module global',
     _HG % "def emit(out, a):\n    push()\n    t = a * 2\n    out.append((_level, t))",
     _HG % "def emit(out, a):\n    out.append((_level, enter(a)))\ndef enter(a):\n    push()\n    return a * 2",
     'emit', call="o = []\nemit(o, 1)\nprint(o)")

# ---------------------------------------------------------------------------------------------- super()
_SUP = """
from dataclasses import dataclass
class Base:
    def describe(self):
        return 'rec'
@dataclass(slots=True)
class Rec(Base):
    n: int = 0
    def describe(self):
        return %s.describe() + ' #%%d' %% self.n
"""
gadd('GS1 super(Rec, self) -> super() in a class that a decorator re-creates (@dataclass(slots=True), Python < 3.14): __class__ is the discarded class',
     _SUP % 'super()', _SUP % 'super(Rec, self)', 'Rec.describe', call="print(Rec(3).describe())")

# ---------------------------------------------------------------------------------------------- helpers rebound at module level
gadd('GH1 new helper pasted although the module rebinds its name after the def (`_norm = traced(_norm)`): the caller runs the wrapper',
     "def traced(f):\n    def w(x):\n        LOG.append(x)\n        return f(x).upper()\n    return w\nLOG = []\ndef _norm(x):\n    return x.strip()\n_norm = traced(_norm)\ndef f(s):\n    return _norm(s) + '!'\n",
     "def traced(f):\n    def w(x):\n        LOG.append(x)\n        return f(x).upper()\n    return w\nLOG = []\ndef f(s):\n    return s.strip() + '!'\n",
     'f', call="print(f(' ab '), LOG)")

# ---------------------------------------------------------------------------------------------- property names
_TP = """
class Buf:
    def __init__(self, d):
        self._d = d
    @property
    def size(self):
        return len(self._d)
class Hdr:
    size, kind = 4, 'H'
    _d = b'..'
def room(x, cap):
    return cap - %s
"""
gadd('GN1 module_properties counts class-level `name = ..` only: `size, kind = 4, "H"` (tuple target) in another class is not seen, x.size is rewritten with Buf.size',
     _TP % 'len(x._d)', _TP % 'x.size', 'room', call="print(room(Hdr(), 10))")
_TP2 = _TP.replace("    size, kind = 4, 'H'", "    if True:\n        size = 4")
gadd('GN2 ... nor a definition under `if` in a class body (only direct children of the class are counted)',
     _TP2 % 'len(x._d)', _TP2 % 'x.size', 'room', call="print(room(Hdr(), 10))")
_MG = """
class Tab:
    def __init__(self, rows):
        self.__rows = rows
    @property
    def count(self):
        return len(self.__rows)
def total(t):
    return %s + 1
"""
gadd('GN3 property body with a private name pasted outside its class: t.count == len(t.__rows) for a module-level function (no name mangling there, AttributeError)',
     _MG % 'len(t.__rows)', _MG % 't.count', 'total', call="print(total(Tab([1, 2])))")

# ---------------------------------------------------------------------------------------------- module constants
gadd('GC1 module constant bound once, then `from settings import *` (counted as the name `*`): the folded value is not the one in force',
     "PAD = 4\nfrom settings import *\ndef f(n):\n    return n + 4\n",
     "PAD = 4\nfrom settings import *\ndef f(n):\n    return n + PAD\n",
     'f', setup="import sys, types\nm = types.ModuleType('settings'); m.PAD = 8; sys.modules['settings'] = m", call="print(f(1))")

# ---------------------------------------------------------------------------------------------- sized attributes
_UB = """
import basemod
class Table(basemod.Base):
    def __init__(self):
        basemod.Base.__init__(self)
        self.rows = []
    def empty(self):
        if %s:
            return True
        return False
"""
gadd('GZ1 sized chains: a base class that gate._class_scope cannot resolve (import basemod; class Table(basemod.Base)) is silently ignored; Base.close() binds self.rows = None',
     _UB % 'len(self.rows) == 0', _UB % 'not self.rows', 'Table.empty',
     setup="import sys, types\nm = types.ModuleType('basemod')\nexec('class Base:\\n    def __init__(self): self.rows = None\\n    def close(self): self.rows = None', m.__dict__)\nsys.modules['basemod'] = m",
     call="t = Table()\nt.close()\nprint(t.empty())")
_DC = """
from dataclasses import dataclass
@dataclass
class Table:
    name: str
    rows: list
    def clear(self):
        self.rows = []
    def empty(self):
        if %s:
            return True
        return False
"""
gadd('GZ2 sized chains: a dataclass field `rows: list` (bound by the generated __init__ to whatever is passed, e.g. None) - the only visible store is `self.rows = []`',
     _DC % 'len(self.rows) == 0', _DC % 'not self.rows', 'Table.empty', call="print(Table('t', None).empty())")

# ---------------------------------------------------------------------------------------------- more shadows / constants
gadd('GB7 `from numpy import any` IS seen by module_bound_names, but the refusal looks at the function at hand only: the new helper that uses any() is pasted into a caller that does not mention it',
     "from numpy import any\ndef _bad(xs, lim):\n    if any(v > lim for v in xs):\n        return True\n    return False\ndef check(xs, lim):\n    return _bad(xs, lim)\n",
     "from numpy import any\ndef check(xs, lim):\n    for v in xs:\n        if v > lim:\n            return True\n    return False\n",
     'check', call="print(check([1, 2], 5))")
gadd('GC2 module constant bound once, then globals().update(overrides()): folded to the literal of the assignment',
     "LIMIT = 10\ndef _overrides():\n    return {'LIMIT': 3}\nglobals().update(_overrides())\ndef small(n):\n    return n < 10\n",
     "LIMIT = 10\ndef _overrides():\n    return {'LIMIT': 3}\nglobals().update(_overrides())\ndef small(n):\n    return n < LIMIT\n",
     'small', call="print(small(5))")
gadd('GH2 (gate form of H2) nested def of the caller shadows the new module-level helper',
     "def clean(x):\n    return x.strip()\ndef names(xs):\n    def clean(x):\n        return x.lower()\n    return [clean(x) for x in xs]\n",
     "def names(xs):\n    def clean(x):\n        return x.lower()\n    return [x.strip() for x in xs]\n",
     'names', call="print(names([' Ab ']))")

_RD = """
import basemod
class Reader(basemod.Base):
    def read(self, n):
%s
"""
gadd('GP4 (residual of round-1 P1) property inherited from a class the gate cannot see (import basemod; class Reader(basemod.Base)): self.pos is a plain attribute for read_chains, `self._off += n` does not disturb it',
     _RD % "        self._off += n\n        return self._data[self.pos:self.pos + n]",
     _RD % "        start = self.pos\n        self._off += n\n        return self._data[start:start + n]",
     'Reader.read',
     setup="import sys, types\nm = types.ModuleType('basemod')\nexec('class Base:\\n    def __init__(self, d): self._data = d; self._base = 0; self._off = 0\\n    @property\\n    def pos(self): return self._base + self._off', m.__dict__)\nsys.modules['basemod'] = m",
     call="print(Reader(b'abcdef').read(2))")


def main():
    import contextlib
    import io
    import traceback
    import warnings
    warnings.simplefilter('ignore')
    bad = 0
    for title, a, b, kw in FINDINGS:
        print('=' * 110)
        print(title)
        s = same(a, b, kw)
        print('  same(A, B) =', s)
        bad += not s
        ns_a, ns_b = {}, {}
        g = DEMO_GLOBALS.get(title)
        if g:
            exec(g, ns_a)
            exec(g, ns_b)
        exec(a, ns_a)
        exec(b, ns_b)
        name = ast.parse(a).body[0].name
        env = {'fa': ns_a[name], 'fb': ns_b[name], 'ns_a': ns_a, 'ns_b': ns_b}
        buf = io.StringIO()
        try:
            with contextlib.redirect_stdout(buf):
                exec(DEMOS[title], env)
        except Exception:
            print(buf.getvalue())
            traceback.print_exc()
        else:
            for ln in buf.getvalue().splitlines():
                print('  ' + ln)
    for title, cur, ref, q in GATE_FINDINGS:
        print('=' * 110)
        print('gate:', title)
        g = gated(cur, ref, GATE_REPO.get(title, ()))
        print('  gate.apply(cur, ref) ->', g, ' (wrongly gated: %s)' % q if q in g else ' (NOT gated)')
        bad += q not in g
        setup, call = GATE_DEMOS[title]
        for nm, src in (('ref', ref), ('cur', cur)):
            ns = {'__name__': 'demo_mod'}
            buf = io.StringIO()
            try:
                with contextlib.redirect_stdout(buf):
                    exec(setup, ns)
                    exec(src, ns)
                    exec(call, ns)
                print('  ' + nm + ':', buf.getvalue().strip())
            except Exception as e:
                print('  ' + nm + ':', buf.getvalue().strip(), 'raises', type(e).__name__ + ':', e)
    print('=' * 110)
    print(len(FINDINGS), 'function pairs,', len(GATE_FINDINGS), 'gate pairs,', bad, 'no longer taken as equivalent')


if __name__ == '__main__':
    main()
