"""Red-team findings for tdstatic/equiv.py (focus: knowledge injected from the module, signatures, global / nonlocal, nested scopes).

FINDINGS = [(title, src_a, src_b, kwargs_or_None), ...]
    kwargs use plain Python values; build_kwargs() turns them into what equiv.canonical wants:
      consts   {'N': 4}                          -> {'N': ast.Constant(4)}           (what equiv.module_constants gives)
      props    {'size': ('self', 'len(self._d)')} -> {'size': ('self', <ast expr>)}   (what equiv.module_properties gives)
      sized    [('self', 'rows')]                 (what gate.canonical_pair computes with equiv.sized_chains)
      dicts    ['D']                              (what equiv.module_dicts gives)
      cls_name 'C'                                (gate passes the name of the enclosing class)
      helpers_a / helpers_b  source text of the helper(s) that exist in that version only
DEMOS[title]   = python source run with `fa`, `fb` (the two functions) and `ns_a`, `ns_b` (their globals) defined; prints the
                 differing outcomes.  DEMO_GLOBALS[title] = source exec'd into the globals of both functions first.
MODULES[title] = (module_a, module_b): whole-module reproduction through the production entry point gate.apply()
                 (module_a = reference version, module_b = current version); the gate must answer a non-empty `gated` list.

Run:  /venv/bin/python /tmp/redteam/6/findings.py
"""
import ast
import sys

sys.path.insert(0, __import__('os').path.dirname(__import__('os').path.dirname(__import__('os').path.abspath(__file__))))
from tdstatic import equiv, gate                                   # noqa: E402

equiv.REPO_DEFINED[0] = frozenset()


def _helpers(src):
    if not src:
        return None
    out = {}
    for h in ast.parse(src).body:
        out[h.name] = (h, bool(h.args.args) and h.args.args[0].arg == 'self' or any(isinstance(d, ast.Name) and d.id == 'staticmethod' for d in h.decorator_list))
    return out


def build_kwargs(kw):
    kw = dict(kw or {})
    out = {}
    if 'consts' in kw:
        out['consts'] = {k: ast.Constant(value=v) for k, v in kw['consts'].items()}
    if 'props' in kw:
        out['props'] = {k: (s, ast.parse(e, mode='eval').body) for k, (s, e) in kw['props'].items()}
    if 'sized' in kw:
        out['sized'] = [tuple(c) for c in kw['sized']]
    for k in ('dicts', 'cls_name'):
        if k in kw:
            out[k] = kw[k]
    return out, _helpers(kw.get('helpers_a')), _helpers(kw.get('helpers_b'))


def same(a, b, kw=None):
    extra, ha, hb = build_kwargs(kw)
    ca = equiv.canonical(ast.parse(a).body[0], ha, **extra)
    cb = equiv.canonical(ast.parse(b).body[0], hb, **extra)
    return ca is not None and ca == cb


FINDINGS = []
DEMOS = {}
DEMO_GLOBALS = {}
MODULES = {}


def add(title, a, b, kw=None, demo=None, glob=None, modules=None):
    FINDINGS.append((title, a, b, kw))
    if demo:
        DEMOS[title] = demo
    if glob:
        DEMO_GLOBALS[title] = glob
    if modules:
        MODULES[title] = modules


# ------------------------------------------------------------------------------------------------ global / nonlocal
add('G1 global write dropped: re-entrancy flag set before the call that reads it (ssa_split + inline_temps ignore `global`)',
    "def parse(buf):\n    global _busy\n    _busy = True\n    r = _parse(buf)\n    _busy = False\n    return r",
    "def parse(buf):\n    global _busy\n    r = _parse(buf)\n    _busy = False\n    return r",
    None,
    demo="print('A:', fa('x'), ' B:', fb('x'))",
    glob="_busy = False\ndef _parse(buf):\n    return ('busy seen by callee', _busy)")

add('G2 global write dropped: the only statement of a setter',
    "def set_limit(n):\n    global _limit\n    _limit = n",
    "def set_limit(n):\n    global _limit\n    pass",
    None,
    demo="fa(5); fb(5)\nprint('A: _limit =', ns_a['_limit'], ' B: _limit =', ns_b['_limit'])",
    glob="_limit = 0")

add('G3 global set to a literal before a call that reads it',
    "def f(a):\n    global depth\n    depth = 1\n    return g(a)",
    "def f(a):\n    global depth\n    return g(a)",
    None,
    demo="print('A:', fa(0), ' B:', fb(0))",
    glob="depth = 0\ndef g(a):\n    return depth")

add('G4 nonlocal write in a closure dropped / wrong value stored (nested function canonicalised on its own, its store has no read there)',
    "def scan(self, recs):\n    last = None\n    def note(r):\n        nonlocal last\n        last = r\n    for r in recs:\n        self.visit(r, note)\n    return last",
    "def scan(self, recs):\n    last = None\n    def note(r):\n        nonlocal last\n        last = None\n    for r in recs:\n        self.visit(r, note)\n    return last",
    None,
    demo="class S:\n    def visit(self, r, cb):\n        cb(r)\nprint('A:', fa(S(), [1, 2, 3]), ' B:', fb(S(), [1, 2, 3]))")

# ------------------------------------------------------------------------------------------------ nested scopes / lambdas
add('N1 lambda parameter with the spelling of an outer local: body names are renamed, parameters are not (param read vs closure read)',
    "def f(self, rows):\n    r = self.first()\n    rows.sort(key=lambda r: r.pos)\n    return r",
    "def f(self, rows):\n    rec = self.first()\n    rows.sort(key=lambda r: rec.pos)\n    return rec",
    None,
    demo="class R:\n    def __init__(self, p): self.pos = p\n    def __repr__(self): return 'R%d' % self.pos\nclass S:\n    def first(self): return R(0)\n"
         "ra = [R(3), R(1), R(2)]; rb = [R(3), R(1), R(2)]\nfa(S(), ra); fb(S(), rb)\nprint('A: rows =', ra, ' B: rows =', rb)")

add('N2 nested def parameter with the spelling of an outer local (same defect, def instead of lambda)',
    "def f(self):\n    x = self.a()\n    def inner(x):\n        return x\n    return inner(5), x",
    "def f(self):\n    y = self.a()\n    def inner(x):\n        return y\n    return inner(5), y",
    None,
    demo="class S:\n    def a(self): return 'outer'\nprint('A:', fa(S()), ' B:', fb(S()))")

add('N3 decorator of a nested function is not part of the canonical text (memoisation removed)',
    "def f(self, keys):\n    @cache\n    def get(k):\n        return self.load(k)\n    return [get(k) for k in keys]",
    "def f(self, keys):\n    def get(k):\n        return self.load(k)\n    return [get(k) for k in keys]",
    None,
    demo="class S:\n    def __init__(self): self.calls = []\n    def load(self, k):\n        self.calls.append(k)\n        return k * 2\n"
         "a, b = S(), S()\nfa(a, [1, 1, 2]); fb(b, [1, 1, 2])\nprint('A: loads', a.calls, ' B: loads', b.calls)",
    glob="import functools\ncache = functools.lru_cache(None)")

add('N4 nested `async def` and `def` have the same canonical text',
    "def f(self):\n    async def g(x):\n        return x + 1\n    return g(1)",
    "def f(self):\n    def g(x):\n        return x + 1\n    return g(1)",
    None,
    demo="import warnings; warnings.simplefilter('ignore')\nprint('A:', type(fa(None)).__name__, ' B:', fb(None))")

add('N5 `async def f` vs `def f` (gate._owner_map pairs them, canonical() does not record which it is)',
    "def f(self):\n    return self.g()",
    "async def f(self):\n    r = self.g()\n    return r",
    None,
    demo="import warnings; warnings.simplefilter('ignore')\nclass S:\n    def g(self): return 7\nprint('A:', fa(S()), ' B:', type(fb(S())).__name__)",
    modules=("class K:\n    def f(self):\n        return self.g()\n", "class K:\n    async def f(self):\n        r = self.g()\n        return r\n"))

add('N6 `async with` vs `with` (also `async for` vs `for`): _cstmt gives both the same tag',
    "async def f(self):\n    async with self.lock:\n        self.n += 1",
    "async def f(self):\n    with self.lock:\n        self.n += 1",
    None,
    demo="import asyncio\nclass L:\n    def __init__(self): self.log = []\n    def __enter__(self): self.log.append('enter')\n    def __exit__(self, *a): self.log.append('exit')\n"
         "    async def __aenter__(self): self.log.append('aenter')\n    async def __aexit__(self, *a): self.log.append('aexit')\n"
         "class S:\n    def __init__(self): self.lock = L(); self.n = 0\na, b = S(), S()\nasyncio.run(fa(a)); asyncio.run(fb(b))\nprint('A:', a.lock.log, ' B:', b.lock.log)")

add('N7 a global read is numbered like a local when a comprehension / nested function binds the same spelling',
    "def f(recs):\n    names = [name.x for name in recs]\n    return names, name",
    "def f(recs):\n    names = [n.x for n in recs]\n    return names, n",
    None,
    demo="class R: x = 1\nprint('A:', fa([R()]), ' B:', fb([R()]))",
    glob="name = 'global name'\nn = 'global n'")

# ------------------------------------------------------------------------------------------------ super()
add('S1 super(C, self) -> super() inside a generator expression (zero-argument super fails there)',
    "def ok_all(self, xs):\n    return any(super(C, self).ok(x) for x in xs)",
    "def ok_all(self, xs):\n    return any(super().ok(x) for x in xs)",
    {'cls_name': 'C'},
    demo=None)

add('S2 super(C, self) -> super() inside a lambda / nested def',
    "def f(self):\n    return lambda: super(C, self).f()",
    "def f(self):\n    return lambda: super().f()",
    {'cls_name': 'C'},
    demo=None)

add('S3 super(C, self) -> super() when `self` is not the first parameter',
    "def f(this, self):\n    return super(C, self).who()",
    "def f(this, self):\n    return super().who()",
    {'cls_name': 'C'},
    demo=None)

# ------------------------------------------------------------------------------------------------ module constants
add('C1 module constant substituted for a lambda parameter of the same name (`bound` misses ast.arg of nested scopes)',
    "def f(buf):\n    return lambda PAD: buf + PAD",
    "def f(buf):\n    return lambda PAD: buf + b'\\x00'",
    {'consts': {'PAD': b'\x00'}},
    demo="print('A:', fa(b'ab')(b'--'), ' B:', fb(b'ab')(b'--'))",
    glob="PAD = b'\\x00'")

add('C2 module constant substituted for a nested def parameter of the same name',
    "def f(buf):\n    def pad(s, WIDTH):\n        return s.ljust(WIDTH)\n    return pad(buf, 2)",
    "def f(buf):\n    def pad(s, WIDTH):\n        return s.ljust(8)\n    return pad(buf, 2)",
    {'consts': {'WIDTH': 8}},
    demo="print('A:', repr(fa('a')), ' B:', repr(fb('a')))",
    glob="WIDTH = 8")

add('C3 module constant substituted for an `except .. as name` variable (handler names are not Name nodes)',
    "def f(self):\n    try:\n        self.go()\n    except ValueError as err:\n        return err\n    return 0",
    "def f(self):\n    try:\n        self.go()\n    except ValueError as err:\n        return None\n    return 0",
    {'consts': {'err': None}},
    demo="class S:\n    def go(self): raise ValueError('bad record')\nprint('A:', repr(fa(S())), ' B:', repr(fb(S())))",
    glob="err = None")

# C4 (near miss, NOT a finding): with hand-made consts={'N': 4} a function-level `from cfg import N` is folded too, but in production
# equiv.module_constants counts import aliases anywhere in the module, so N is not a constant there and gate.apply refuses the pair.

add('C5 (assumption gap) module flag bound once in its module, switched on from outside (mod.STRICT = True): guarded call folded away',
    "def f(self, x):\n    if STRICT:\n        self.check(x)\n    return x",
    "def f(self, x):\n    return x",
    {'consts': {'STRICT': False}},
    demo="class S:\n    def check(self, x): raise ValueError('strict: bad ' + repr(x))\nns_a['STRICT'] = ns_b['STRICT'] = True      # what `import mod; mod.STRICT = True` does\n"
         "try:\n    print('A:', fa(S(), 1))\nexcept ValueError as e:\n    print('A raises', e)\nprint('B:', fb(S(), 1))",
    glob="STRICT = False")

# ------------------------------------------------------------------------------------------------ module dicts
add('D1 D.get rewritten for a nested def / lambda parameter that shadows the module dict',
    "def f(rows):\n    def look(D, k):\n        return D.get(k, 0)\n    return [look(r, 'a') for r in rows]",
    "def f(rows):\n    def look(D, k):\n        return D[k] if k in D else 0\n    return [look(r, 'a') for r in rows]",
    {'dicts': ['D']},
    demo="class Cfg:\n    def get(self, k, d=None): return 'from get'\nfor fn, nm in ((fa, 'A'), (fb, 'B')):\n    try:\n        print(nm, fn([Cfg()]))\n    except TypeError as e:\n        print(nm, 'raises TypeError', e)",
    glob="D = {'a': 1}")

add('D2 D.get rewritten for an `except .. as D` / function-level `import .. D` binding that shadows the module dict',
    "def f(k):\n    from tables_stub import D\n    return D.get(k)",
    "def f(k):\n    from tables_stub import D\n    return D[k] if k in D else None",
    {'dicts': ['D']},
    demo="import sys, types, collections\nm = types.ModuleType('tables_stub'); m.D = collections.defaultdict(list, a=[1]); sys.modules['tables_stub'] = m\n"
         "class G:\n    def get(self, k, d=None): return 'G.get'\nm.D = G()\nfor fn, nm in ((fa, 'A'), (fb, 'B')):\n    try:\n        print(nm, fn('a'))\n    except TypeError as e:\n        print(nm, 'raises TypeError', e)",
    glob="D = {'a': 1}")

# ------------------------------------------------------------------------------------------------ sized chains
add('Z1 `not self.rows` == `len(self.rows) == 0` although the class-level default is None (sized_chains reads the chain `rows`, not `self.rows`)',
    "def empty(self):\n    if not self.rows:\n        return True\n    return False",
    "def empty(self):\n    if len(self.rows) == 0:\n        return True\n    return False",
    {'sized': [('self', 'rows')]},
    demo="class Tab:\n    rows = None\nfor fn, nm in ((fa, 'A'), (fb, 'B')):\n    try:\n        print(nm, fn(Tab()))\n    except TypeError as e:\n        print(nm, 'raises TypeError', e)",
    modules=("class Tab:\n    rows = None\n    def load(self, src):\n        self.rows = list(src)\n    def empty(self):\n        if not self.rows:\n            return True\n        return False\n",
             "class Tab:\n    rows = None\n    def load(self, src):\n        self.rows = list(src)\n    def empty(self):\n        if len(self.rows) == 0:\n            return True\n        return False\n"))

add('Z2 attribute bound to None by a subclass of the same module (scope = the class and its bases only)',
    "def empty(self):\n    if not self.items:\n        return True\n    return False",
    "def empty(self):\n    if len(self.items) == 0:\n        return True\n    return False",
    {'sized': [('self', 'items')]},
    demo="class Lazy:\n    def __init__(self): self.items = None\nfor fn, nm in ((fa, 'A'), (fb, 'B')):\n    try:\n        print(nm, fn(Lazy()))\n    except TypeError as e:\n        print(nm, 'raises TypeError', e)",
    modules=("class Base:\n    def __init__(self):\n        self.items = []\n    def empty(self):\n        if not self.items:\n            return True\n        return False\nclass Lazy(Base):\n    def __init__(self):\n        self.items = None\n",
             "class Base:\n    def __init__(self):\n        self.items = []\n    def empty(self):\n        if len(self.items) == 0:\n            return True\n        return False\nclass Lazy(Base):\n    def __init__(self):\n        self.items = None\n"))

add('Z3 attribute bound to None from outside the class (module function `buf.data = None`, `other.kids = None`, setattr)',
    "def pending(self):\n    if self.data:\n        return 1\n    return 0",
    "def pending(self):\n    if len(self.data) > 0:\n        return 1\n    return 0",
    {'sized': [('self', 'data')]},
    demo="class Buf:\n    data = None\nfor fn, nm in ((fa, 'A'), (fb, 'B')):\n    try:\n        print(nm, fn(Buf()))\n    except TypeError as e:\n        print(nm, 'raises TypeError', e)",
    modules=("class Buf:\n    def __init__(self):\n        self.data = b''\n    def feed(self, d):\n        self.data = bytes(d)\n    def pending(self):\n        if self.data:\n            return 1\n        return 0\ndef reset(buf):\n    buf.data = None\n",
             "class Buf:\n    def __init__(self):\n        self.data = b''\n    def feed(self, d):\n        self.data = bytes(d)\n    def pending(self):\n        if len(self.data) > 0:\n            return 1\n        return 0\ndef reset(buf):\n    buf.data = None\n"))

# ------------------------------------------------------------------------------------------------ properties
add('P1 stale value of a property that is not inlined (not `return E`, or inherited from another module): `self._off += n` does not interfere with the chain self.pos',
    "def read(self, n):\n    start = self.pos\n    self._off += n\n    return self._data[start:start + n]",
    "def read(self, n):\n    self._off += n\n    return self._data[self.pos:self.pos + n]",
    None,
    demo="class Reader:\n    def __init__(self, d): self._data = d; self._base = 0; self._off = 0\n    @property\n    def pos(self):\n        if self._off < 0:\n            raise ValueError('closed')\n        return self._base + self._off\n"
         "print('A:', fa(Reader(b'abcdef'), 2), ' B:', fb(Reader(b'abcdef'), 2))",
    modules=("class Reader:\n    def __init__(self, data):\n        self._data = data\n        self._base = 0\n        self._off = 0\n    @property\n    def pos(self):\n        if self._off < 0:\n            raise ValueError('closed')\n        return self._base + self._off\n    def read(self, n):\n        start = self.pos\n        self._off += n\n        return self._data[start:start + n]\n",
             "class Reader:\n    def __init__(self, data):\n        self._data = data\n        self._base = 0\n        self._off = 0\n    @property\n    def pos(self):\n        if self._off < 0:\n            raise ValueError('closed')\n        return self._base + self._off\n    def read(self, n):\n        self._off += n\n        return self._data[self.pos:self.pos + n]\n"))

add('P2 property overridden by a subclass that module_properties does not see (class nested in a function / under `if`; only tree.body is scanned)',
    "def room(self, cap):\n    return cap - self.size",
    "def room(self, cap):\n    return cap - len(self._d)",
    {'props': {'size': ('self', 'len(self._d)')}},
    demo="class Buf:\n    def __init__(self, d): self._d = d\n    @property\n    def size(self): return len(self._d)\nclass Packed(Buf):\n    @property\n    def size(self): return 2 * len(self._d)\n"
         "print('A:', fa(Packed(b'abc'), 10), ' B:', fb(Packed(b'abc'), 10))",
    modules=("class Buf:\n    def __init__(self, d):\n        self._d = d\n    @property\n    def size(self):\n        return len(self._d)\n    def room(self, cap):\n        return cap - self.size\ndef make():\n    class Packed(Buf):\n        @property\n        def size(self):\n            return 2 * len(self._d)\n    return Packed\n",
             "class Buf:\n    def __init__(self, d):\n        self._d = d\n    @property\n    def size(self):\n        return len(self._d)\n    def room(self, cap):\n        return cap - len(self._d)\ndef make():\n    class Packed(Buf):\n        @property\n        def size(self):\n            return 2 * len(self._d)\n    return Packed\n"))

add('P3 free name of the property body captured by a parameter / local of the function it is pasted into',
    "def fit(self, scale):\n    return self.width // scale",
    "def fit(self, scale):\n    return self._w * scale // scale",
    {'props': {'width': ('self', 'self._w * scale')}},
    demo="scale = 3\nclass Img:\n    def __init__(self, w): self._w = w\n    @property\n    def width(self): return self._w * scale\nprint('A:', fa(Img(10), 4), ' B:', fb(Img(10), 4))\n",
    glob="scale = 3",
    modules=("scale = load()\nclass Img:\n    def __init__(self, w):\n        self._w = w\n    @property\n    def width(self):\n        return self._w * scale\n    def fit(self, scale):\n        return self.width // scale\n",
             "scale = load()\nclass Img:\n    def __init__(self, w):\n        self._w = w\n    @property\n    def width(self):\n        return self._w * scale\n    def fit(self, scale):\n        return self._w * scale // scale\n"))

# ------------------------------------------------------------------------------------------------ RE rule / builtin_only / known_str / shadowed builtins
add('R1 the regular-expression rule fires on any receiver whose name starts with re / _re in any case (reader, records, registry, result, _rec ...)',
    "def find(reader, pat):\n    if reader.search(pat) is None:\n        return -1\n    return 1",
    "def find(reader, pat):\n    if not reader.search(pat):\n        return -1\n    return 1",
    None,
    demo="class Reader:\n    def search(self, pat): return 0          # offset of the hit: 0 = at the start\nprint('A:', fa(Reader(), b'x'), ' B:', fb(Reader(), b'x'))")

add('B1 `out.extend(it)` is taken not to change its argument: false for iterators / generators',
    "def f(out, it):\n    first = list(it)\n    out.extend(it)\n    return first",
    "def f(out, it):\n    out.extend(it)\n    return list(it)",
    None,
    demo="oa, ob = [], []\nprint('A:', fa(oa, iter([1, 2, 3])), oa, ' B:', fb(ob, iter([1, 2, 3])), ob)")

add('B2 x.decode(..) is taken to be a str: codecs.lookup(..).decode / codecs.Codec.decode answer a (text, length) tuple',
    "def f(c, raw):\n    return 'got %s' % c.decode(raw)",
    "def f(c, raw):\n    return f'got {c.decode(raw)}'",
    None,
    demo="import codecs\nc = codecs.lookup('utf-8')\nfor fn, nm in ((fa, 'A'), (fb, 'B')):\n    try:\n        print(nm, fn(c, b'abc'))\n    except TypeError as e:\n        print(nm, 'raises TypeError', e)")

add('B3 whitelisted builtin name shadowed by a parameter (format / type / bool / len ...): the call is taken as free of side effects',
    "def dump(out, rec, format):\n    s = format(rec)\n    out.write(s)\n    out.write(s)",
    "def dump(out, rec, format):\n    out.write(format(rec))\n    out.write(format(rec))",
    None,
    demo="class Out:\n    def __init__(self): self.w = []\n    def write(self, s): self.w.append(s)\nclass Fmt:\n    def __init__(self): self.n = 0\n    def __call__(self, rec):\n        self.n += 1\n        return '%d:%s' % (self.n, rec)\n"
         "a, b = Out(), Out()\nfa(a, 'r', Fmt()); fb(b, 'r', Fmt())\nprint('A:', a.w, ' B:', b.w)")

add('B4 `bool` shadowed by a parameter: `return bool(x)` becomes return True / return False',
    "def f(x, bool):\n    return bool(x)",
    "def f(x, bool):\n    if x:\n        return True\n    return False",
    None,
    demo="print('A:', fa(3, str), ' B:', fb(3, str))")

add('B5 (debatable: whitelist is by method NAME) stateful objects with a whitelisted method name: lexer.match / queue.get / stream.unpack evaluated twice and moved',
    "def f(self):\n    tok = self.lexer.match(NUM)\n    self.depth += 1\n    return tok, tok",
    "def f(self):\n    self.depth += 1\n    return self.lexer.match(NUM), self.lexer.match(NUM)",
    None,
    demo="class Lx:\n    def __init__(self): self.toks = [1, 2, 3]\n    def match(self, kind): return self.toks.pop(0)\nclass P:\n    def __init__(self): self.lexer = Lx(); self.depth = 0\nprint('A:', fa(P()), ' B:', fb(P()))",
    glob="NUM = 'NUM'")

# ------------------------------------------------------------------------------------------------ outside the focus area, found on the way
add('X1 assert message is not part of the canonical text (_cstmt drops st.msg)',
    "def f(x):\n    assert x > 0, 'x must be positive'\n    return x",
    "def f(x):\n    assert x > 0, 'bad header'\n    return x",
    None,
    demo="for fn, nm in ((fa, 'A'), (fb, 'B')):\n    try:\n        fn(-1)\n    except AssertionError as e:\n        print(nm, 'AssertionError:', e)")

add('X2 assert message with a side effect dropped',
    "def f(self, x):\n    assert x > 0, self.fail(x)\n    return x",
    "def f(self, x):\n    assert x > 0\n    return x",
    None,
    demo="class S:\n    def __init__(self): self.log = []\n    def fail(self, x):\n        self.log.append(x)\n        return 'bad'\nfor fn, nm in ((fa, 'A'), (fb, 'B')):\n    s = S()\n    try:\n        fn(s, -1)\n    except AssertionError as e:\n        print(nm, 'AssertionError:', repr(str(e)), 'log', s.log)")

add("X3 '{0}-{0}'.format(E) -> f'{E}-{E}': E with side effects evaluated twice",
    "def f(self):\n    return '{0}-{0}'.format(self.next())",
    "def f(self):\n    return f'{self.next()}-{self.next()}'",
    None,
    demo="class S:\n    def __init__(self): self.n = 0\n    def next(self):\n        self.n += 1\n        return self.n\nprint('A:', fa(S()), ' B:', fb(S()))")

add("X4 '{1}-{0}'.format(a(), b()) -> f'{b()}-{a()}': order of effects changed",
    "def f(self):\n    return '{1}-{0}'.format(self.a(), self.b())",
    "def f(self):\n    return f'{self.b()}-{self.a()}'",
    None,
    demo="class S:\n    def __init__(self): self.log = []\n    def a(self):\n        self.log.append('a'); return 'A'\n    def b(self):\n        self.log.append('b'); return 'B'\n"
         "a, b = S(), S()\nprint('A:', fa(a), a.log, ' B:', fb(b), b.log)")

add("X5 '{0}'.format(a, E): unused argument with side effects dropped",
    "def f(self, a):\n    return '{0}'.format(a, self.b())",
    "def f(self, a):\n    return f'{a}'",
    None,
    demo="class S:\n    def __init__(self): self.log = []\n    def b(self): self.log.append('b')\na, b = S(), S()\nfa(a, 1); fb(b, 1)\nprint('A: log', a.log, ' B: log', b.log)")

add('X6 unused local whose value can raise is deleted (lookup used as validation)',
    "def check(self, name):\n    entry = self._index[name]\n    return True",
    "def check(self, name):\n    return True",
    None,
    demo="class S:\n    _index = {}\nfor fn, nm in ((fa, 'A'), (fb, 'B')):\n    try:\n        print(nm, fn(S(), 'x'))\n    except KeyError as e:\n        print(nm, 'raises KeyError', e)")

add('X7 raising expression moved behind a state update (state differs when it raises)',
    "def num(self, tok):\n    n = int(tok)\n    self.pos += 1\n    return n",
    "def num(self, tok):\n    self.pos += 1\n    return int(tok)",
    None,
    demo="class S:\n    pos = 0\nfor fn, nm in ((fa, 'A'), (fb, 'B')):\n    s = S()\n    try:\n        fn(s, 'x')\n    except ValueError:\n        print(nm, 'ValueError, pos =', s.pos)")

add('X8 raising expression moved into a try body whose handler catches it',
    "def f(self, k):\n    v = self.tab[k]\n    try:\n        return self.conv(v)\n    except KeyError:\n        return None",
    "def f(self, k):\n    try:\n        return self.conv(self.tab[k])\n    except KeyError:\n        return None",
    None,
    demo="class S:\n    tab = {}\n    def conv(self, v): return v\nfor fn, nm in ((fa, 'A'), (fb, 'B')):\n    try:\n        print(nm, fn(S(), 'k'))\n    except KeyError as e:\n        print(nm, 'raises KeyError', e)")

add('X9 literal substituted past a walrus re-binding of the local (_subst_const does not know NamedExpr)',
    "def f(src, out):\n    chunk = b''\n    while (chunk := src.read()):\n        out.append(chunk)\n    return chunk",
    "def f(src, out):\n    chunk = b''\n    while (chunk := src.read()):\n        out.append(chunk)\n    return b''",
    None,
    demo="class Src:\n    def __init__(self): self.d = [b'ab', b'cd', None]\n    def read(self): return self.d.pop(0)\nprint('A:', fa(Src(), []), ' B:', fb(Src(), []))")

add('X10 literal substituted past a function-level `import .. as name` re-binding',
    "def f():\n    np = None\n    import math as np\n    return np",
    "def f():\n    np = None\n    import math as np\n    return None",
    None,
    demo="print('A:', fa(), ' B:', fb())")

add('H1 helper pasted into its caller although a subclass of the same module overrides it (gate: new / gone helper resolution ignores overrides)',
    "def run(self, x):\n    return self._step(x)",
    "def run(self, x):\n    y = x + 1\n    return y",
    {'helpers_a': "def _step(self, x):\n    return x + 1"},
    demo="class Sub:\n    def _step(self, x): return x + 100\nprint('A:', fa(Sub(), 1), ' B:', fb(Sub(), 1))",
    modules=("class Base:\n    def run(self, x):\n        return self._step(x)\n    def _step(self, x):\n        return x + 1\nclass Sub(Base):\n    def _step(self, x):\n        return x + 100\n",
             "class Base:\n    def run(self, x):\n        y = x + 1\n        return y\nclass Sub(Base):\n    def _step(self, x):\n        return x + 100\n"))


# super() demos need the functions to be compiled inside a class body (for the __class__ cell)
SUPER_DEMOS = {
    'S1': ("class Base:\n    def ok(self, x): return x > 0\nclass C(Base):\n{body}\nprint(C().ok_all([1, 2]))", 'ok_all'),
    'S2': ("class Base:\n    def f(self): return 'Base.f'\nclass C(Base):\n{body}\nprint(C().f()())", 'f'),
    'S3': ("class Base:\n    def who(self): return 'Base.who on ' + type(self).__name__\nclass C(Base):\n{body}\nclass Other(C):\n    pass\nprint(C.f(Other(), C()))", 'f'),
}


def _indent(src):
    return '\n'.join('    ' + ln for ln in src.splitlines())


def main():
    import traceback
    for title, a, b, kw in FINDINGS:
        print('=' * 110)
        print(title)
        print('  same(A, B) =', same(a, b, kw))
        if title in MODULES:
            ma, mb = MODULES[title]
            print('  gate.apply(cur=module_b, ref=module_a) gated:', gate.apply(ast.parse(mb), ast.parse(ma), lambda t: None))
        key = title.split()[0]
        if key in SUPER_DEMOS:
            tmpl, _ = SUPER_DEMOS[key]
            for nm, src in (('A', a), ('B', b)):
                try:
                    print('  ' + nm + ': ', end='')
                    exec(tmpl.format(body=_indent(src)), {})
                except Exception as e:
                    print('raises', type(e).__name__ + ':', e)
            continue
        ns_a, ns_b = {}, {}
        g = DEMO_GLOBALS.get(title)
        if g:
            exec(g, ns_a)
            exec(g, ns_b)
        exec(a, ns_a)
        exec(b, ns_b)
        name = ast.parse(a).body[0].name
        env = {'fa': ns_a[name], 'fb': ns_b[name], 'ns_a': ns_a, 'ns_b': ns_b}
        try:
            import io, contextlib
            buf = io.StringIO()
            with contextlib.redirect_stdout(buf):
                exec(DEMOS[title], env)
            for ln in buf.getvalue().splitlines():
                print('  ' + ln)
        except Exception:
            print(buf.getvalue())
            traceback.print_exc()


if __name__ == '__main__':
    main()
