"""Round 5 / agent 2: pairs taken as equivalent NOW by tdstatic.equiv / gate that behave differently.
run:  /venv/bin/python /tmp/redteam5/2/findings.py      (prints same()/gated() and the demo result of every pair)"""
import ast, sys, textwrap
sys.path.insert(0, __import__('os').path.dirname(__import__('os').path.dirname(__import__('os').path.abspath(__file__))))
from tdstatic import equiv, gate
equiv.REPO_DEFINED[0] = frozenset()


def same(a, b, **kw):
    ca = equiv.canonical(ast.parse(a).body[0], kw.get('helpers_a'), dicts=kw.get('dicts'), sized=kw.get('sized'), props=kw.get('props'))
    cb = equiv.canonical(ast.parse(b).body[0], kw.get('helpers_b'), dicts=kw.get('dicts'), sized=kw.get('sized'), props=kw.get('props'))
    return ca is not None and ca == cb


def gated(cur, ref):
    return gate.apply(ast.parse(cur), ast.parse(ref), lambda t: None)


_E = []     # (title, a, b, kw, setup, trial, step)


def F(title, a, b, setup, trial, step, kw=None):
    _E.append((title, a, b, kw, setup, trial, step))


NP = '''
import numpy
class S:
    def __init__(self): self.data = numpy.array([1, 2, 3])
'''
# ---------------------------------------------------------------- 1. augmented assignment with a numeric right side = "only a rebinding"
F('N1 `a += 1` on a local alias of self.data (numpy array: in place) is taken as a mere rebinding; the read of self.data moves behind it',
  'def f(self, k):\n    a = self.data\n    t = self.data == k\n    a += 1\n    return t, a\n',
  'def f(self, k):\n    a = self.data\n    a += 1\n    return self.data == k, a\n',
  NP + 'def trial():\n    t, a = f(S(), 2)\n    return t.tolist(), a.tolist()\n', 'trial()',
  'equiv.written_chains l.365 (`_numeric(n.value)` counts as proof that the TARGET is a number) + _with_aliases l.478 (plain names: aliases not followed)')
F('N2 the same on a parameter: `a = buf; t = a == k; buf += 1`',
  'def f(buf, k):\n    a = buf\n    t = a == k\n    buf += 1\n    return t, buf\n',
  'def f(buf, k):\n    a = buf\n    buf += 1\n    return a == k, buf\n',
  'import numpy\ndef trial():\n    t, a = f(numpy.array([1, 2, 3]), 2)\n    return t.tolist(), a.tolist()\n', 'trial()',
  'equiv.written_chains l.365')
# ---------------------------------------------------------------- 2. attribute-default rule of seq(): the override can fail
F('C1 `self.size = 0; if self.flag: self.size = rec.size` == if/else although rec is compared with None in the function (rec.size may fail): the default is (not) in place when AttributeError leaves',
  'def f(self, rec):\n    self.size = 0\n    if self.flag:\n        self.size = rec.size\n    if rec is None:\n        return 0\n    return 1\n',
  'def f(self, rec):\n    if self.flag:\n        self.size = rec.size\n    else:\n        self.size = 0\n    if rec is None:\n        return 0\n    return 1\n',
  'class S:\n    def __init__(self): self.size = 99; self.flag = True\ndef trial():\n    s = S()\n    try: f(s, None)\n    except AttributeError: pass\n    return s.size\n', 'trial()',
  'equiv.seq l.3396-3412, overwrites() l.3405: the override value is checked with _effect_free_text / "[" / Div.. only, not with may_raise (attribute read through a None-tested parameter)')
# ---------------------------------------------------------------- 3. _touches_test: `self` as a whole in the test
LEN = 'class S:\n    def __init__(self): self.count = 0\n    def __len__(self): return self.count\n'
F('C2 `self.count = 5` between two `len(self) == 0` tests: the second test is resolved from the first (__len__ reads self.count)',
  'def f(self):\n    if len(self) == 0:\n        self.count = 5\n        if len(self) == 0:\n            return 1\n        return 2\n    return 3\n',
  'def f(self):\n    if len(self) == 0:\n        self.count = 5\n        return 1\n    return 3\n',
  LEN, 'f(S())',
  'equiv._touches_test l.3255 (`lo = 2` when the root is self: the prefix `self` is never looked for in the test) used by _assume l.3238')
F('C2b the same with `not self` (truth value of self through __len__)',
  'def f(self):\n    if not self:\n        self.count = 1\n        if not self:\n            return 1\n        return 2\n    return 3\n',
  'def f(self):\n    if not self:\n        self.count = 1\n        return 1\n    return 3\n',
  LEN, 'f(S())', 'equiv._touches_test l.3255 / _assume l.3238')
F('C2c the same with `self == other` (__eq__ compares the key that is assigned in between)',
  'def f(self, other):\n    if self == other:\n        self.key = 5\n        if self == other:\n            return 1\n        return 2\n    return 3\n',
  'def f(self, other):\n    if self == other:\n        self.key = 5\n        return 1\n    return 3\n',
  'class S:\n    def __init__(self, k): self.key = k\n    def __eq__(self, o): return self.key == o.key\n', 'f(S(1), S(1))',
  'equiv._touches_test l.3255 / _assume l.3238')
F('K3 attribute default moved behind a test that reads the object as a whole: `self.count = 0; if len(self) == 0: self.count = x` == if/else',
  'def f(self, x):\n    self.count = 0\n    if len(self) == 0:\n        self.count = x\n',
  'def f(self, x):\n    if len(self) == 0:\n        self.count = x\n    else:\n        self.count = 0\n',
  LEN + 'def trial():\n    s = S(); s.count = 3; f(s, 7); return s.count\n', 'trial()',
  'equiv.seq l.3408 (attribute-default rule) relying on _touches_test l.3255')
F('K3b the same with `self in reg` (__eq__ reads self.key)',
  'def f(self, reg, x):\n    self.key = 0\n    if self in reg:\n        self.key = x\n',
  'def f(self, reg, x):\n    if self in reg:\n        self.key = x\n    else:\n        self.key = 0\n',
  'class S:\n    def __init__(self): self.key = 3\n    def __eq__(self, o): return self.key == o.key\n    def __hash__(self): return 1\ndef trial():\n    a, b = S(), S(); f(a, [b], 7); return a.key\n', 'trial()',
  'equiv.seq l.3408 / _touches_test l.3255')
# ---------------------------------------------------------------- 4. may-raise rule of inline_temps: attribute reads before the moved lookup
F('M1 `v = d[k]; return rec.name, v` == `return rec.name, d[k]` although rec is compared with None (rec.name can fail): KeyError vs AttributeError',
  'def f(rec, d, k):\n    if rec is None and k is None:\n        return None\n    v = d[k]\n    return rec.name, v\n',
  'def f(rec, d, k):\n    if rec is None and k is None:\n        return None\n    return rec.name, d[k]\n',
  '', 'f(None, {}, "x")',
  'equiv.inline_temps l.2444: what is evaluated before the first use is checked for Subscript / Call / BinOp that may raise, not for Attribute (cf. _split_ifexp l.1471 which does)')
F('M2 the same with two uses (multi-use rule)',
  'def f(rec, d, k):\n    if not rec:\n        log(k)\n    v = d[k]\n    out = (rec.name, v)\n    return out, v\n',
  'def f(rec, d, k):\n    if not rec:\n        log(k)\n    out = (rec.name, d[k])\n    return out, d[k]\n',
  'def log(k): pass\n', 'f(None, {}, "x")', 'equiv.inline_temps l.2444')
F('M3 inside try / except AttributeError: the KeyError that used to propagate is now preceded by the AttributeError that the handler swallows (returns None)',
  'def f(obj, d, k):\n    try:\n        v = d[k]\n        return obj.name, v\n    except AttributeError:\n        return None\n',
  'def f(obj, d, k):\n    try:\n        return obj.name, d[k]\n    except AttributeError:\n        return None\n',
  '', 'f(None, {}, "x")', 'equiv.inline_temps l.2444 (ATTR_ERRORS_CAUGHT makes obj.name may_raise, the check does not ask)')
# ---------------------------------------------------------------- 5. LAMBDA_WRITES: writes of a nested function through its own names
ROWS = 'class S:\n    def __init__(self): self.rows = [1]\n'
F('L1 nested function appends to self.rows through its own local `r = self.rows`: the write is filtered out as "own name", len(self.rows) moves behind the calls',
  'def f(self, items):\n    def add(v):\n        r = self.rows\n        r.append(v)\n    n = len(self.rows)\n    for it in items:\n        add(it)\n    return n\n',
  'def f(self, items):\n    def add(v):\n        r = self.rows\n        r.append(v)\n    for it in items:\n        add(it)\n    return len(self.rows)\n',
  ROWS, 'f(S(), [1, 2])',
  'equiv.canonical l.4263-4265: chains rooted at a name the nested function binds are dropped, the aliases made inside it (r = self.rows) are not followed')
F('L1b the same with an attribute store (`h = self.hdr; h.count = 0` in the nested function)',
  'def f(self, items):\n    def reset():\n        h = self.hdr\n        h.count = 0\n    n = self.hdr.count\n    reset()\n    return n\n',
  'def f(self, items):\n    def reset():\n        h = self.hdr\n        h.count = 0\n    reset()\n    return self.hdr.count\n',
  'class H: count = 4\nclass S:\n    def __init__(self): self.hdr = H()\n', 'f(S(), [])', 'equiv.canonical l.4263-4265')
F('L3 lambda with a default parameter bound to self.rows (`lambda v, r=self.rows: r.append(v)`)',
  'def f(self, items):\n    add = lambda v, r=self.rows: r.append(v)\n    n = len(self.rows)\n    for it in items:\n        add(it)\n    return n\n',
  'def f(self, items):\n    add = lambda v, r=self.rows: r.append(v)\n    for it in items:\n        add(it)\n    return len(self.rows)\n',
  ROWS, 'f(S(), [1, 2])', 'equiv.canonical l.4257-4259: the write goes to the lambda parameter r; its default (an alias of self.rows) is not looked at')
F('L4 nested def with a default parameter bound to self.rows',
  'def f(self, items):\n    def add(v, r=self.rows):\n        r.append(v)\n    n = len(self.rows)\n    for it in items:\n        add(it)\n    return n\n',
  'def f(self, items):\n    def add(v, r=self.rows):\n        r.append(v)\n    for it in items:\n        add(it)\n    return len(self.rows)\n',
  ROWS, 'f(S(), [1, 2])', 'equiv.canonical l.4263-4265 (parameters are "own", their defaults are aliases)')
F('L5 `own` is collected over ast.walk(n): a local `rows` of a function nested one level deeper hides the write to the captured `rows`',
  'def f(rows):\n    def cb(v):\n        def fmt(x):\n            rows = str(x)\n            return rows\n        rows.append(fmt(v))\n    n = len(rows)\n    cb(1)\n    return n\n',
  'def f(rows):\n    def cb(v):\n        def fmt(x):\n            rows = str(x)\n            return rows\n        rows.append(fmt(v))\n    cb(1)\n    return len(rows)\n',
  '', 'f([])', 'equiv.canonical l.4263 (names stored in deeper scopes counted as the nested function\'s own)')
# ---------------------------------------------------------------- 6. LAZY_BODIES: generator expressions
TAKE = 'class S:\n    def __init__(self): self.count = 0\n    def take(self, r): self.count += 1; return True\n    def expand(self, r): self.count += 1; return [r, r]\n'
F('G1 generator expression whose FILTER has the side effect, run by a for loop: self.count is read before / after the loop',
  'def f(self, recs):\n    gen = (r for r in recs if self.take(r))\n    n = self.count\n    for r in gen:\n        pass\n    return n\n',
  'def f(self, recs):\n    gen = (r for r in recs if self.take(r))\n    for r in gen:\n        pass\n    return self.count\n',
  TAKE, 'f(S(), [1, 2])', 'equiv.canonical l.4272: `_lazy` is set only when the ELEMENT writes; the conditions are added to _lw but do not make the body lazy')
F('G1b the same, run by tuple unpacking',
  'def f(self, recs):\n    gen = (r for r in recs if self.take(r))\n    n = self.count\n    a, b = gen\n    return n, a, b\n',
  'def f(self, recs):\n    gen = (r for r in recs if self.take(r))\n    a, b = gen\n    return self.count, a, b\n',
  TAKE, 'f(S(), [1, 2])', 'equiv.canonical l.4272')
F('G2 the side effect is in the iterable of the SECOND for of the generator expression (evaluated lazily): not in LAMBDA_WRITES at all - even list(gen) is crossed',
  'def f(self, recs):\n    gen = (x for r in recs for x in self.expand(r))\n    n = self.count\n    out = list(gen)\n    return n, out\n',
  'def f(self, recs):\n    gen = (x for r in recs for x in self.expand(r))\n    out = list(gen)\n    return self.count, out\n',
  TAKE, 'f(S(), [1, 2])', 'equiv.canonical l.4270: only elt and ifs are looked at, not generators[1:].iter')
F('G2b the same run by a for loop',
  'def f(self, recs):\n    gen = (x for r in recs for x in self.expand(r))\n    n = self.count\n    for x in gen:\n        pass\n    return n\n',
  'def f(self, recs):\n    gen = (x for r in recs for x in self.expand(r))\n    for x in gen:\n        pass\n    return self.count\n',
  TAKE, 'f(S(), [1, 2])', 'equiv.canonical l.4270')
# ---------------------------------------------------------------- 7. _identity_free_uses: fresh elements handed on by calls / `+`
GR = 'class S: pass\ndef trial():\n    s = S(); f(s, 2, 2); s.front[0][0] = 7\n    return s.back\n'
F('I1 front and back buffer share their rows (`list(grid)` twice) == each built from its own comprehension',
  'def f(self, w, h):\n    grid = [[0] * w for _ in range(h)]\n    self.front = list(grid)\n    self.back = list(grid)\n',
  'def f(self, w, h):\n    self.front = list([[0] * w for _ in range(h)])\n    self.back = list([[0] * w for _ in range(h)])\n',
  GR, 'trial()', 'equiv._identity_free_uses l.2362-2366: the Call case lacks the `not deep` condition (list / tuple / sorted / max .. hand the fresh rows on)')
F('I1b the same with tuple()',
  'def f(self, w, h):\n    grid = [[0] * w for _ in range(h)]\n    self.front = tuple(grid)\n    self.back = tuple(grid)\n',
  'def f(self, w, h):\n    self.front = tuple([[0] * w for _ in range(h)])\n    self.back = tuple([[0] * w for _ in range(h)])\n',
  GR, 'trial()', 'equiv._identity_free_uses l.2362-2366')
F('I2 the same with `grid + [None]` (BinOp case has no `not deep` either)',
  'def f(self, w, h):\n    grid = [[0] * w for _ in range(h)]\n    self.front = grid + [None]\n    self.back = grid + [None]\n',
  'def f(self, w, h):\n    self.front = [[0] * w for _ in range(h)] + [None]\n    self.back = [[0] * w for _ in range(h)] + [None]\n',
  GR, 'trial()', 'equiv._identity_free_uses l.2354')
F('I3 max(rows) hands out one of the fresh rows',
  'def f(self, n):\n    rows = [[i] for i in range(n)]\n    self.a = max(rows)\n    self.b = max(rows)\n',
  'def f(self, n):\n    self.a = max([[i] for i in range(n)])\n    self.b = max([[i] for i in range(n)])\n',
  'class S: pass\ndef trial():\n    s = S(); f(s, 2); s.a.append(1)\n    return s.b\n', 'trial()', 'equiv._identity_free_uses l.2362-2366')
F('I3b sorted(rows) twice',
  'def f(self, n):\n    rows = [[i] for i in range(n)]\n    self.a = sorted(rows)\n    self.b = sorted(rows)\n',
  'def f(self, n):\n    self.a = sorted([[i] for i in range(n)])\n    self.b = sorted([[i] for i in range(n)])\n',
  'class S: pass\ndef trial():\n    s = S(); f(s, 2); s.a[0].append(9); return s.b\n', 'trial()', 'equiv._identity_free_uses l.2362-2366')
# ---------------------------------------------------------------- 8. closed nested function: annotations are evaluated when the def runs
F('A1 annotation added to a closed nested function names something that does not exist at run time (imported under TYPE_CHECKING only): NameError when the enclosing function runs',
  'def parse(data):\n    def key(r):\n        return r[0]\n    return sorted(data, key=key)\n',
  'def parse(data):\n    def key(r: Record) -> int:\n        return r[0]\n    return sorted(data, key=key)\n',
  '', 'parse([(2,), (1,)])',
  'equiv._cstmt l.3650-3657: a closed nested def is represented by canonical(st), whose _signature (l.3668) strips the annotations - but they are evaluated each time the def statement runs')

FINDINGS = [(t, a, b, kw) for t, a, b, kw, _s, _t, _st in _E]
DEMOS = {t: (s, tr) for t, _a, _b, _kw, s, tr, _st in _E}
STEPS = {t: st for t, _a, _b, _kw, _s, _t, st in _E}


def _cls(src, extra=''):
    return 'class R:\n' + textwrap.indent(src.strip('\n'), '    ') + '\n' + extra


_X = '''    def __len__(self):
        return self.count
    def take(self, r):
        self.count += 1
        return True
    def expand(self, r):
        self.count += 1
        return [r, r]
'''
# the same pairs as methods of a class through the production entry point (current = B, reference = A): the function is gated, its body is
# replaced by the reference body, so the analyser never sees the changed behaviour (the class even DEFINES __len__ next to C2 / K3)
GATE_FINDINGS = []
for _t in ('N1', 'C1', 'C2 ', 'K3 ', 'M1', 'M3', 'L1 ', 'L3', 'G1 ', 'G2 ', 'I1 ', 'A1'):
    for t, a, b, kw, _s, _tr, _st in _E:
        if t.startswith(_t):
            if not a.startswith('def f(self') and not a.startswith('def parse(self'):
                a = a.replace('def f(', 'def f(self, ', 1).replace('def parse(', 'def parse(self, ', 1)
                b = b.replace('def f(', 'def f(self, ', 1).replace('def parse(', 'def parse(self, ', 1)
            q = 'R.' + ast.parse(a).body[0].name
            GATE_FINDINGS.append(('gate ' + t, _cls(b, _X), _cls(a, _X), q))


def _run(src, setup, trial):
    ns = {}
    exec(setup, ns)
    exec(src, ns)
    try:
        return eval(trial, ns)
    except Exception as e:
        return ('EXC', type(e).__name__, str(e))


if __name__ == '__main__':
    bad = 0
    for t, a, b, kw, setup, trial, step in _E:
        s = same(a, b, **(kw or {}))
        ra, rb = _run(a, setup, trial), _run(b, setup, trial)
        okay = s and repr(ra) != repr(rb)
        bad += not okay
        print(('CONFIRMED ' if okay else 'NOT CONFIRMED ') + t)
        print(f'    same = {s}   A -> {ra!r}   B -> {rb!r}')
        print(f'    step: {step}')
    for t, cur, ref, q in GATE_FINDINGS:
        g = gated(cur, ref)
        bad += q not in g
        print(('GATED ' if q in g else 'not gated ') + t.split(':')[0][:70], '->', g)
    print(len(_E), 'pairs,', len(GATE_FINDINGS), 'gate pairs,', bad, 'not confirmed')
