"""Red-team round 3, agent 1 (focus: the refined interference rules - scalar_locals, rebinding vs write in written_chains, slot
rule / name-for-name rule of inline_temps, identity-free uses, multi-use rule for values that can fail, METHOD_WRITES).
FINDINGS = [(title, src_a, src_b, kwargs_dict_or_None), ...]; DEMOS[title] is code run with fa / fb (the two functions) defined.
GATE_FINDINGS = [(title, current_module_src, reference_module_src, qualname)]; GATE_DEMOS[title] is code run with the two module
sources exec'd into the namespaces MA / MB.
Run:  /venv/bin/python /tmp/redteam3/1/findings.py   (checks same() is True for every pair and prints the differing outcomes)"""
import ast
import os
import sys

sys.path.insert(0, os.path.dirname(os.path.dirname(os.path.abspath(__file__))))

FINDINGS = []
DEMOS = {}
GATE_FINDINGS = []
GATE_DEMOS = {}

STUBS = '''
import types, copy
class Rec:
    """records every method call made on it; return values are scripted per method name"""
    def __init__(self, **script):
        self.calls = []
        self._script = {k: list(v) if isinstance(v, list) else v for k, v in script.items()}
    def __getattr__(self, name):
        if name.startswith('_') :
            raise AttributeError(name)
        def m(*a, **k):
            self.calls.append((name,) + a)
            s = self._script.get(name)
            if isinstance(s, list):
                v = s.pop(0) if s else None
            elif callable(s):
                v = s(*a)
            else:
                v = s
            if isinstance(v, BaseException) or isinstance(v, type) and issubclass(v, BaseException):
                raise v
            return v
        return m
class Obj:
    def __init__(self, **kw):
        self.__dict__.update(kw)
    def __repr__(self):
        return 'Obj(' + ', '.join(f'{k}={v!r}' for k, v in sorted(self.__dict__.items())) + ')'
def outcome(fn, *a, **k):
    try:
        r = fn(*a, **k)
        if isinstance(r, types.GeneratorType):
            return ('generator yielding', list(r))
        return ('returned', r)
    except Exception as e:
        return ('raised', type(e).__name__, str(e))
def both(mk, *args):
    """run fa / fb each on a fresh copy of the stubs; print and return the two outcomes (with the final state of the first stub)"""
    oa = mk(); ra = outcome(fa, oa, *copy.deepcopy(args))
    ob = mk(); rb = outcome(fb, ob, *copy.deepcopy(args))
    print('    A:', ra, '  state:', oa)
    print('    B:', rb, '  state:', ob)
    return (ra, repr(oa)), (rb, repr(ob))
'''


def add(title, a, b, demo, kw=None):
    FINDINGS.append((title, a.strip('\n'), b.strip('\n'), kw))
    DEMOS[title] = demo


def gadd(title, cur, ref, q, demo):
    GATE_FINDINGS.append((title, cur, ref, q))
    GATE_DEMOS[title] = demo


# ===========================================================================================================================
# A. written_chains (equiv.py 352-356): an augmented assignment to a bare local whose operand is not a display / constructor
#    is "taken as arithmetic": the name goes to `rebound`, ends up in _REBOUND_ONLY and _with_aliases(w, plain) skips it.  But
#    `buf += chunk` on a list / bytearray / deque / array, `s -= done` / `s |= more` on a set are IN-PLACE: the object that the
#    local is another name for (self.buf) changes.  A read of self.buf may then be moved across the statement.
#    (x.id not in NOT_ITERATORS only protects locals bound to displays; `buf = self.buf`, parameters and loop variables are not.)
# ===========================================================================================================================
add('A1 `buf = self.buf; buf += chunk` extends self.buf in place: len(self.buf) moved across it', '''
def f(self, chunk):
    buf = self.buf
    n = len(self.buf)
    buf += chunk
    return n
''', '''
def f(self, chunk):
    buf = self.buf
    buf += chunk
    n = len(self.buf)
    return n
''', '''
x, y = both(lambda: Obj(buf=[1, 2]), [3, 4])
assert x != y
''')

add('A2 `s = self.pending; s -= done` (in-place set difference) is no write to self.pending', '''
def f(self, done):
    s = self.pending
    n = len(self.pending)
    s -= done
    return n, s
''', '''
def f(self, done):
    s = self.pending
    s -= done
    n = len(self.pending)
    return n, s
''', '''
x, y = both(lambda: Obj(pending={1, 2, 3}), {1, 2})
assert x != y
''')

add('A3 loop variable augmented in place: `for buf in self.bufs: buf += chunk` - str(self.bufs) logged before / after', '''
def f(self, rec, chunk):
    for buf in self.bufs:
        n = str(self.bufs)
        buf += chunk
        rec.note(n)
''', '''
def f(self, rec, chunk):
    for buf in self.bufs:
        buf += chunk
        n = str(self.bufs)
        rec.note(n)
''', '''
ra, rb = Rec(), Rec()
fa(Obj(bufs=[[1], [2]]), ra, [9]); fb(Obj(bufs=[[1], [2]]), rb, [9])
print('    A calls:', ra.calls); print('    B calls:', rb.calls)
assert ra.calls != rb.calls
''')

add('A4 `rows += (x,)` (tuple display is not "a display / constructor" for _allocates) extends the shared list', '''
def f(self, x):
    rows = self.rows
    n = len(self.rows)
    rows += (x,)
    return n
''', '''
def f(self, x):
    rows = self.rows
    rows += (x,)
    n = len(self.rows)
    return n
''', '''
x, y = both(lambda: Obj(rows=[1]), 7)
assert x != y
''')

add('A5 `seen = self.seen; seen |= more` (in-place union)', '''
def f(self, more):
    seen = self.seen
    n = len(self.seen)
    seen |= more
    return n
''', '''
def f(self, more):
    seen = self.seen
    seen |= more
    n = len(self.seen)
    return n
''', '''
x, y = both(lambda: Obj(seen={1}), {2, 3})
assert x != y
''')

add('A6 accumulating loop: `out = self.out; while src.more(): out += src.read()` - len(self.out) taken before / after the loop', '''
def f(self, src):
    out = self.out
    n = len(self.out)
    while src.more():
        out += src.read()
    return n
''', '''
def f(self, src):
    out = self.out
    while src.more():
        out += src.read()
    n = len(self.out)
    return n
''', '''
x, y = both(lambda: Obj(out=[0]), Rec(more=[True, True, False], read=[[1], [2]]))
assert x != y
''')

add('A7 parameter stored in self, then augmented: `self.buf = buf; ..; buf += chunk`', '''
def f(self, buf, chunk):
    self.buf = buf
    n = len(self.buf)
    buf += chunk
    return n
''', '''
def f(self, buf, chunk):
    self.buf = buf
    buf += chunk
    n = len(self.buf)
    return n
''', '''
x, y = both(lambda: Obj(), [1], [2, 3])
assert x != y
''')

# ===========================================================================================================================
# B. drop_dead_locals (equiv.py 2073): "never read" = no Name node in Load context.  The target of an augmented assignment is a
#    Store node, so a local that is only ever augmented counts as dead: its plain assignment `buf = self.buf` is removed while
#    `buf += chunk` stays in the tree.  What the local was bound to (the shared list, a copy of it, another attribute) is lost.
# ===========================================================================================================================
add('B1 shared vs copied list: `buf = self.buf` / `buf = self.buf[:]` both dropped as dead stores before `buf += chunk`', '''
def f(self, chunk):
    buf = self.buf
    buf += chunk
    return len(self.buf)
''', '''
def f(self, chunk):
    buf = self.buf[:]
    buf += chunk
    return len(self.buf)
''', '''
x, y = both(lambda: Obj(buf=[1, 2]), [3])
assert x != y
''')

add('B2 which buffer is extended: `buf = self.buf` vs `buf = self.spare` dropped before `buf += chunk`', '''
def f(self, chunk):
    buf = self.buf
    buf += chunk
    return len(self.buf)
''', '''
def f(self, chunk):
    buf = self.spare
    buf += chunk
    return len(self.buf)
''', '''
x, y = both(lambda: Obj(buf=[1, 2], spare=[]), [3])
assert x != y
''')

# ===========================================================================================================================
# C. scalar_locals (equiv.py 4048-4050): every bare-name operand of `-` (and of `*` / `%` / `+` next to a number) is "used as a
#    number" and never takes part in an alias pair.  `-` is also set / Counter / numpy difference, `row * 2` is list repetition:
#    the loop variable / local is an alias of what it was read from all the same, and a write through it (s.add, row.append) is
#    no longer seen as a write to self.sets / self.seen / self.rows.
# ===========================================================================================================================
add('C1 `s - other` (set difference) makes the loop variable a scalar: s.add(x) is no write to self.sets', '''
def f(self, x, other):
    out = []
    for s in self.sets:
        n = str(self.sets)
        s.add(x)
        out.append((n, s - other))
    return out
''', '''
def f(self, x, other):
    out = []
    for s in self.sets:
        s.add(x)
        n = str(self.sets)
        out.append((n, s - other))
    return out
''', '''
x, y = both(lambda: Obj(sets=[{1}, {2}]), 5, {1})
assert x != y
''')

add('C2 `s = rec.seen if rec.seen else self.seen; ..; s - other`: len(self.seen) moved across s.add(..)', '''
def f(self, rec, other):
    s = rec.seen if rec.seen else self.seen
    n = len(self.seen)
    s.add(rec.key)
    return n, s - other
''', '''
def f(self, rec, other):
    s = rec.seen if rec.seen else self.seen
    s.add(rec.key)
    n = len(self.seen)
    return n, s - other
''', '''
x, y = both(lambda: Obj(seen=set()), Obj(seen=set(), key='k'), {'z'})
assert x != y
''')

add('C3 `row * 2` (list repetition) makes the loop variable a scalar: row.append(x) is no write to self.rows', '''
def f(self, x):
    out = []
    for row in self.rows:
        n = str(self.rows)
        row.append(x)
        out.append((n, row * 2))
    return out
''', '''
def f(self, x):
    out = []
    for row in self.rows:
        row.append(x)
        n = str(self.rows)
        out.append((n, row * 2))
    return out
''', '''
x, y = both(lambda: Obj(rows=[[1], [2]]), 0)
assert x != y
''')

# ===========================================================================================================================
# D. _numeric / _NUMERIC_LOCALS / _allocates (equiv.py 2238-2239, 2261): `arr + 1` is "visibly a number" because one operand is
#    a numeric literal - so it is not a new object for _allocates and the local is written out at every use, including as the
#    base of an item store.  With an array (numpy, array-like with __add__) `x = arr + 1` is a fresh mutable object.
# ===========================================================================================================================
add('D1 `x = arr + 1; x[0] = 5; return x` - the fresh array is written out three times, the item store is lost', '''
def f(arr):
    x = arr + 1
    x[0] = 5
    return x
''', '''
def f(arr):
    x = arr + 1
    x[0] = 5
    return arr + 1
''', '''
class Vec:
    def __init__(self, v): self.v = list(v)
    def __add__(self, k): return Vec(e + k for e in self.v)
    def __setitem__(self, i, e): self.v[i] = e
    def __repr__(self): return f'Vec({self.v})'
print('    A:', outcome(fa, Vec([1, 2]))); print('    B:', outcome(fb, Vec([1, 2])))
assert repr(fa(Vec([1, 2]))) != repr(fb(Vec([1, 2])))
''')

# ===========================================================================================================================
# E. inline_temps, values that can fail (equiv.py 2376-2383): a failing value `a = d[k]` may pass another failing local
#    `b = e[k]` standing in between "whose own first use follows in that same statement (so the two failures keep their
#    order)".  That presumes b is substituted as well.  When b is not (used twice and not identity-free, or an impure call is
#    evaluated before its use), b stays where it is and d[k] is now evaluated AFTER e[k]: the other exception comes out.
# ===========================================================================================================================
add('E1 order of two failing reads: `a = d[k]; b = e[k][:]; return g(a, b, b)` equals `b = e[k][:]; return g(d[k], b, b)`', '''
def f(d, e, k, g):
    a = d[k]
    b = e[k][:]
    return g(a, b, b)
''', '''
def f(d, e, k, g):
    b = e[k][:]
    return g(d[k], b, b)
''', '''
ra = outcome(fa, {}, [], 0, max); rb = outcome(fb, {}, [], 0, max)
print('    A:', ra); print('    B:', rb)
assert ra != rb
''')

add('E2 order of two failing reads: `a = d[k]; b = e[k]; return g(a) + h(b)` equals `b = e[k]; return g(d[k]) + h(b)`', '''
def f(d, e, k, g, h):
    a = d[k]
    b = e[k]
    return g(a) + h(b)
''', '''
def f(d, e, k, g, h):
    b = e[k]
    return g(d[k]) + h(b)
''', '''
ra = outcome(fa, {}, [], 0, abs, abs); rb = outcome(fb, {}, [], 0, abs, abs)
print('    A:', ra); print('    B:', rb)
assert ra != rb
''')

# ===========================================================================================================================
# F. _identity_free_uses (equiv.py 2300) / _allocates (2251): an item read `v[0]` "only looks at" v - but what it hands out is a
#    member of the fresh object, and when the members are fresh too (a list of new lists) each written-out copy has its own.
#    A tuple display of fresh lists `([], [])` is not even counted as allocating.
# ===========================================================================================================================
add('F1 `buckets = [[] for _ in range(n)]; buckets[0].append(x); return buckets[0]` - every use gets new buckets', '''
def f(x, n):
    buckets = [[] for _ in range(n)]
    buckets[0].append(x)
    return buckets[0]
''', '''
def f(x, n):
    [[] for _ in range(n)][0].append(x)
    return [[] for _ in range(n)][0]
''', '''
ra = outcome(fa, 7, 2); rb = outcome(fb, 7, 2)
print('    A:', ra); print('    B:', rb)
assert ra != rb
''')

add('F2 `pair = ([], [])` is substituted at every use (a Tuple display is never "allocating")', '''
def f(a, b):
    pair = ([], [])
    pair[0].append(a)
    pair[1].append(b)
    return pair
''', '''
def f(a, b):
    ([], [])[0].append(a)
    ([], [])[1].append(b)
    return ([], [])
''', '''
ra = outcome(fa, 1, 2); rb = outcome(fb, 1, 2)
print('    A:', ra); print('    B:', rb)
assert ra != rb
''')


# ===========================================================================================================================
# G. gate level: class_method_writes (equiv.py 3686-3706) bounds the effect of `self.m()` by the attributes of self that m's
#    body names as store target / receiver / argument.  A write through a LOCAL that is another name for something self holds
#    (`rows = self.rows; rows.append(x)`, `for r in self.rows: r.done = True`, `d = self.cache; d[k] = v`, `buf = self.buf;
#    buf += chunk`) names no attribute of self: the method is taken to change nothing (only `x = self` is refused).
# ===========================================================================================================================
_G = '''
class Row:
    def __init__(self):
        self.done = False
    def __repr__(self):
        return 'Row(done=%r)' % self.done


class Reader:
    def __init__(self):
        self.rows = []
        self.cache = {}
        self.buf = []

    def _push(self, x):
        rows = self.rows
        rows.append(x)

    def _mark_all(self):
        for r in self.rows:
            r.done = True

    def _remember(self, k, v):
        d = self.cache
        d[k] = v

    def _feed(self, chunk):
        buf = self.buf
        buf += chunk
'''

gadd('G1 method appends through a local alias: `rows = self.rows; rows.append(x)` - len(self.rows) moved across self._push(x)', _G + '''
    def add(self, x):
        n = len(self.rows)
        self._push(x)
        return n
''', _G + '''
    def add(self, x):
        self._push(x)
        n = len(self.rows)
        return n
''', 'Reader.add', '''
ra, rb = MA['Reader']().add(1), MB['Reader']().add(1)
print('    current  :', ra); print('    reference:', rb)
assert ra != rb
''')

gadd('G2 method writes through its loop variable: `for r in self.rows: r.done = True` - the pending list taken before / after', _G + '''
    def flush(self):
        pending = [r for r in self.rows if not r.done]
        self._mark_all()
        return pending
''', _G + '''
    def flush(self):
        self._mark_all()
        pending = [r for r in self.rows if not r.done]
        return pending
''', 'Reader.flush', '''
def run(M):
    o = M['Reader'](); o.rows = [M['Row'](), M['Row']()]
    return repr(o.flush())
print('    current  :', run(MA)); print('    reference:', run(MB))
assert run(MA) != run(MB)
''')

gadd('G3 method stores an item through a local alias: `d = self.cache; d[k] = v`', _G + '''
    def put(self, k, v):
        n = len(self.cache)
        self._remember(k, v)
        return n
''', _G + '''
    def put(self, k, v):
        self._remember(k, v)
        n = len(self.cache)
        return n
''', 'Reader.put', '''
ra, rb = MA['Reader']().put('a', 1), MB['Reader']().put('a', 1)
print('    current  :', ra); print('    reference:', rb)
assert ra != rb
''')

gadd('G4 method extends in place through a local alias: `buf = self.buf; buf += chunk`', _G + '''
    def feed(self, chunk):
        n = len(self.buf)
        self._feed(chunk)
        return n
''', _G + '''
    def feed(self, chunk):
        self._feed(chunk)
        n = len(self.buf)
        return n
''', 'Reader.feed', '''
ra, rb = MA['Reader']().feed([1, 2]), MB['Reader']().feed([1, 2])
print('    current  :', ra); print('    reference:', rb)
assert ra != rb
''')


_G2 = '''
class R:
    count = 0

    def __init__(self):
        self.items = [1, 2, 3]

    def _bump(self):
        R.count += 1

    def _take(self):
        it = self.items
        return it.pop()
'''

gadd('G5 class-level counter bumped through the class name (`R.count += 1`), read through the instance (`self.count`)', _G2 + '''
    def next_id(self):
        n = self.count
        self._bump()
        return n
''', _G2 + '''
    def next_id(self):
        self._bump()
        n = self.count
        return n
''', 'R.next_id', '''
ra, rb = MA['R']().next_id(), MB['R']().next_id()
print('    current  :', ra); print('    reference:', rb)
assert ra != rb
''')

gadd('G6 method pops through a local alias and returns the item: `it = self.items; return it.pop()`', _G2 + '''
    def step(self):
        left = len(self.items)
        x = self._take()
        return x, left
''', _G2 + '''
    def step(self):
        x = self._take()
        left = len(self.items)
        return x, left
''', 'R.step', '''
ra, rb = MA['R']().step(), MB['R']().step()
print('    current  :', ra); print('    reference:', rb)
assert ra != rb
''')


# ---------------------------------------------------------------------------------------------------------------------------
def _helpers(hs):
    if not hs:
        return None
    out = {}
    for src in ([hs] if isinstance(hs, str) else hs):
        h = ast.parse(src.strip('\n')).body[0]
        out[h.name] = (h, bool(h.args.args) and h.args.args[0].arg == 'self' or any(isinstance(d, ast.Name) and d.id == 'staticmethod' for d in h.decorator_list))
    return out


def same(a, b, **kw):
    from tdstatic import equiv
    equiv.REPO_DEFINED[0] = frozenset()
    ca = equiv.canonical(ast.parse(a).body[0], _helpers(kw.get('helpers_a')), dicts=kw.get('dicts'), sized=kw.get('sized'), props=kw.get('props'))
    cb = equiv.canonical(ast.parse(b).body[0], _helpers(kw.get('helpers_b')), dicts=kw.get('dicts'), sized=kw.get('sized'), props=kw.get('props'))
    return ca is not None and ca == cb


def gate_same(cur, ref, q):
    from tdstatic import equiv, gate
    equiv.REPO_DEFINED[0] = frozenset()
    return q in gate.apply(ast.parse(cur), ast.parse(ref), lambda t: None)


if __name__ == '__main__':
    bad = 0
    for k, (title, a, b, kw) in enumerate(FINDINGS, 1):
        r = same(a, b, **(kw or {}))
        print(f'--- {k}. {title}')
        print(f'    same(A, B) = {r}')
        ns = {}
        exec(STUBS, ns)
        exec(a, ns); ns['fa'] = ns.pop('f')
        exec(b, ns); ns['fb'] = ns.pop('f')
        exec('def both(mk, *args):\n    oa = mk(); ra = outcome(fa, oa, *copy.deepcopy(args))\n    ob = mk(); rb = outcome(fb, ob, *copy.deepcopy(args))\n'
             '    print("    A:", ra, "  state:", oa)\n    print("    B:", rb, "  state:", ob)\n    return (ra, repr(oa)), (rb, repr(ob))\n', ns)
        try:
            exec(DEMOS[title], ns)
        except AssertionError:
            print('    !! demo shows NO difference')
            bad += 1
        if not r:
            bad += 1
    for k, (title, cur, ref, q) in enumerate(GATE_FINDINGS, 1):
        r = gate_same(cur, ref, q)
        print(f'--- gate {k}. {title}')
        print(f'    {q} taken as equivalent by gate.apply = {r}')
        ns = {}
        exec(STUBS, ns)
        ns['MA'], ns['MB'] = {}, {}
        exec(cur, ns['MA']); exec(ref, ns['MB'])
        try:
            exec(GATE_DEMOS[title], ns)
        except AssertionError:
            print('    !! demo shows NO difference')
            bad += 1
        if not r:
            bad += 1
    print(f'{len(FINDINGS)} findings + {len(GATE_FINDINGS)} gate findings, {bad} not confirmed')
