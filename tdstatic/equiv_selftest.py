"""Unit checks of the equivalence canonicaliser: pairs that must NOT be taken as equivalent (each is a behaviour change that
looks like a refactoring) and pairs that must.  Run by the thorough tier; a failure is an ANALYSIS-ERROR."""
import ast

from . import equiv

DIFFERENT = [
    ('stale length hoisted above the mutation',
     'def f(self, r):\n    self.rows.append(r)\n    n = len(self.rows)\n    return g(n)',
     'def f(self, r):\n    n = len(self.rows)\n    self.rows.append(r)\n    return g(n)'),
    ('two calls with side effects reordered',
     'def f(self):\n    self.a()\n    self.b()',
     'def f(self):\n    self.b()\n    self.a()'),
    ('operands of and with side effects swapped',
     'def f(self):\n    if self.a() and self.b():\n        return 1\n    return 0',
     'def f(self):\n    if self.b() and self.a():\n        return 1\n    return 0'),
    ('guard inverted with the wrong negation',
     'def f(x):\n    if x > 0:\n        return 1\n    return 2',
     'def f(x):\n    if x < 0:\n        return 2\n    return 1'),
    ('value read after the call that changes it',
     'def f(self):\n    v = self.pos\n    self.advance()\n    return h(v)',
     'def f(self):\n    self.advance()\n    return h(self.pos)'),
    ('De Morgan applied wrongly',
     'def f(a, b):\n    if not (a == 1 and b == 2):\n        return 1\n    return 0',
     'def f(a, b):\n    if not a == 1 and not b == 2:\n        return 1\n    return 0'),
    ('off by one in a length test',
     'def f(x):\n    if len(x) > 0:\n        return 1\n    return 0',
     'def f(x):\n    if len(x) >= 0:\n        return 1\n    return 0'),
    ('default with side effects evaluated conditionally',
     'def f(c):\n    out = g()\n    if c:\n        out = h()\n    return out',
     'def f(c):\n    return h() if c else g()'),
    ('condition with side effects moved before another call',
     'def f(self):\n    return self.h(self.k(), 1 if self.c() else 2)',
     'def f(self):\n    if self.c():\n        return self.h(self.k(), 1)\n    return self.h(self.k(), 2)'),
    ('concatenation order',
     'def f(a, b):\n    return a + b',
     'def f(a, b):\n    return b + a'),
    ('list literal shared instead of copied',
     'def f():\n    x = []\n    a = x\n    b = x\n    return a, b',
     'def f():\n    a = []\n    b = []\n    return a, b'),
    ('loop variable used after the loop',
     'def f(xs):\n    out = []\n    for x in xs:\n        out.append(x)\n    return out, x',
     'def f(xs):\n    out = [x for x in xs]\n    return out, x'),
    ('comparison operator changed',
     'def f(a, b):\n    if a <= b:\n        return 1\n    return 0',
     'def f(a, b):\n    if a < b:\n        return 1\n    return 0'),
    ('constant changed',
     'def f(a):\n    return a * 0x1000000',
     'def f(a):\n    return a * 0xffffff'),
    ('exception class changed',
     'def f(a):\n    try:\n        return g(a)\n    except ValueError:\n        return 0',
     'def f(a):\n    try:\n        return g(a)\n    except (ValueError, KeyError):\n        return 0'),
    ('early return skips a side effect',
     'def f(self, a):\n    self.reset()\n    if a:\n        return 1\n    return 2',
     'def f(self, a):\n    if a:\n        return 1\n    self.reset()\n    return 2'),
    ('augmented assignment on an attribute replaced by a stale read',
     'def f(self, n):\n    t = self.count\n    self.count += n\n    return t',
     'def f(self, n):\n    self.count += n\n    return self.count'),
    ('temporary substituted across a rebinding of its operand',
     'def f(a):\n    t = a + 1\n    a = 5\n    return t + a',
     'def f(a):\n    a = 5\n    return a + 1 + a'),
]

DIFFERENT += [
    ('enumerate over a list the body changes',
     'def f(xs):\n    for i, e in enumerate(xs):\n        xs.append(e)\n        g(e)',
     'def f(xs):\n    for i in range(len(xs)):\n        xs.append(xs[i])\n        g(xs[i])'),
    ('statement after a try moved into its else clause (skipped when a handler falls through)',
     'def f(self):\n    try:\n        self.a()\n    except KeyError:\n        self.log()\n    self.b()',
     'def f(self):\n    try:\n        self.a()\n    except KeyError:\n        self.log()\n    else:\n        self.b()'),
    ('call with side effects evaluated once or twice',
     'def f(self):\n    a, b = self.read()\n    return a + b',
     'def f(self):\n    return self.read()[0] + self.read()[1]'),
    ('constant initialisation moved below the call whose handler reads it',
     'def f(self):\n    n = 0\n    try:\n        self.a()\n        n = 1\n    except KeyError:\n        return n\n    return n',
     'def f(self):\n    try:\n        self.a()\n        n = 1\n    except KeyError:\n        n = 0\n        return n\n    return n'),
    ('helper inlined with its arguments swapped',
     'def f(self, a, b):\n    return self._h(a, b)',
     'def f(self, a, b):\n    return self._h(b, a)'),
    ('chained comparison whose middle operand has side effects',
     'def f(self, a, b):\n    return a <= self.next() <= b',
     'def f(self, a, b):\n    return a <= self.next() and self.next() <= b'),
    ('return of an assignment when the name is also read by a closure',
     'def f(self):\n    x = 1\n    g = lambda: x\n    x = self.a()\n    return x',
     'def f(self):\n    x = 1\n    g = lambda: x\n    return self.a()'),
    ('tuple assignment to attributes where the second value reads the first target',
     'def f(self, v):\n    self.a, self.b = v, self.a',
     'def f(self, v):\n    self.a = v\n    self.b = self.a'),
    ('chained comparison bound changed',
     'def f(lo, v, hi):\n    return lo <= v <= hi',
     'def f(lo, v, hi):\n    return lo <= v and v < hi'),
    ('match test inverted',
     'def f(s):\n    if RE_X.match(s) is None:\n        return 1\n    return 0',
     'def f(s):\n    if RE_X.match(s):\n        return 1\n    return 0'),
    ('any versus all',
     'def f(xs, s):\n    for c in xs:\n        if c not in s:\n            return False\n    return True',
     'def f(xs, s):\n    return any(c in s for c in xs)'),
    ('statement that can raise moved out of the try',
     'def f(self, k):\n    try:\n        self.a(k)\n        return self.b(k)\n    except KeyError:\n        return None',
     'def f(self, k):\n    try:\n        self.a(k)\n    except KeyError:\n        return None\n    return self.b(k)'),
    ('call moved out of a with block',
     'def f(self, p):\n    with open(p) as h:\n        x = h.read()\n        self.note(x)\n    return x',
     'def f(self, p):\n    with open(p) as h:\n        x = h.read()\n    self.note(x)\n    return x'),
    ('loop over the other iterable',
     'def f(self, i):\n    for r in (self.xs if i >= 0 else reversed(self.xs)):\n        g(r)',
     'def f(self, i):\n    if i >= 0:\n        for r in reversed(self.xs):\n            g(r)\n    else:\n        for r in self.xs:\n            g(r)'),
    ('literal default read by the loop that changes it',
     'def f(xs):\n    n = 0\n    for x in xs:\n        if n:\n            g(x)\n        n = 1\n    return n',
     'def f(xs):\n    for x in xs:\n        n = 1\n    return 0'),
    ('attribute default that the override reads',
     'def f(self, t):\n    self.m = None\n    if t:\n        self.m = self.make()\n    self.n = 1',
     'def f(self, t):\n    if t:\n        self.m = self.make()\n    else:\n        self.m = None\n    self.n = 2'),
    ('percent d is not format d',
     "def f(a):\n    return 'n=%d' % (a,)",
     "def f(a):\n    return f'n={a:d}'"),
    ('dependent updates in another order',
     'def f(self, n):\n    self.n = n\n    self.m = self.n + 1',
     'def f(self, n):\n    self.m = self.n + 1\n    self.n = n'),
    ('append to a list and read of its length swapped',
     'def f(self, v):\n    self.xs.append(v)\n    self.k = len(self.xs)',
     'def f(self, v):\n    self.k = len(self.xs)\n    self.xs.append(v)'),
    ('test repeated after the assignment that changes it',
     'def f(self):\n    if self.z:\n        self.z = False\n    if self.z:\n        g()',
     'def f(self):\n    if self.z:\n        self.z = False\n        g()'),
    ('negated local folded although it is reassigned in between',
     'def f(self):\n    b = self.h()\n    if b:\n        b = self.k()\n        self.s = not b\n    else:\n        self.s = True',
     'def f(self):\n    b = self.h()\n    if b:\n        b = self.k()\n        self.s = False\n    else:\n        self.s = True'),
    ('helper call hoisted above the read of a list it replaces',
     'def f(self):\n    self.items.append(self._next())',
     'def f(self):\n    self.items = []\n    self.items.append(1)',
     {'helpers_a': 'def _next(self):\n    self.items = []\n    return 1'}),
    ('dict.get with a default that has side effects',
     'def f(k):\n    return D.get(k, g())',
     'def f(k):\n    return D[k] if k in D else g()', {'dicts': ['D']}),
    ('get on a parameter that shadows the module dict',
     'def f(D, k):\n    return D.get(k, 0)',
     'def f(D, k):\n    return D[k] if k in D else 0', {'dicts': ['D']}),
    ('percent with an operand that may be a tuple',
     "def f(x):\n    return 'a %s' % x",
     "def f(x):\n    return f'a {x!s}'"),
    ('length taken after a call that may change the argument',
     'def f(out, p):\n    n = len(p)\n    out.consume(p)\n    return n',
     'def f(out, p):\n    out.consume(p)\n    return len(p)'),
    # state carried between iterations, out of loops, out of try / with bodies (found 2026-10-04: the tree-level steps dropped such
    # assignments because the canonical tree of `what follows` ends at the end of the loop / try / with body)
    ('reset moved after continue','def f(xs):\n    found = None\n    for x in xs:\n        found = None\n        if x.skip:\n            continue\n        found = g(x)\n    return found','def f(xs):\n    found = None\n    for x in xs:\n        if x.skip:\n            continue\n        found = g(x)\n    return found'),
    ('reset deleted','def f(xs):\n    for x in xs:\n        v = None\n        if x.c:\n            v = g(x)\n        use(v)','def f(xs):\n    v = None\n    for x in xs:\n        if x.c:\n            v = g(x)\n        use(v)'),
    ('temp across back edge','def f(self, xs):\n    t = self.a\n    for x in xs:\n        self.a += 1\n        use(t)','def f(self, xs):\n    for x in xs:\n        self.a += 1\n        use(self.a)'),
    ('prev carried','def f(xs):\n    prev = None\n    for cur in xs:\n        if prev is not None:\n            g(prev, cur)\n        prev = cur','def f(xs):\n    prev = None\n    for cur in xs:\n        if prev is not None:\n            g(prev, cur)'),
    ('finally reads flag','def f():\n    ok = False\n    try:\n        risky()\n        ok = True\n    finally:\n        log(ok)','def f():\n    try:\n        risky()\n    finally:\n        log(True)'),
    ('break flag','def f(xs):\n    found = False\n    for x in xs:\n        if x:\n            found = True\n            break\n    return found','def f(xs):\n    for x in xs:\n        if x:\n            break\n    return False'),
    ('while flag','def f(self):\n    done = False\n    while not done:\n        self.step()\n        done = True','def f(self):\n    while True:\n        self.step()'),
    ('generator state','def f(xs):\n    first = True\n    for x in xs:\n        if first:\n            yield 0\n        first = False\n        yield x','def f(xs):\n    for x in xs:\n        yield 0\n        yield x'),
    ('count const in loop','def f(xs):\n    n = 0\n    for x in xs:\n        n = 1\n        g(x)\n    return n','def f(xs):\n    for x in xs:\n        g(x)\n    return 0'),
    ('with flag after','def f():\n    ok = False\n    with cm():\n        risky()\n        ok = True\n    g(ok)\n    h()','def f():\n    with cm():\n        risky()\n    g(False)\n    h()'),
    ('try else flag','def f():\n    st = 0\n    try:\n        risky()\n    except E:\n        st = 1\n    use(st)\n    more()','def f():\n    try:\n        risky()\n    except E:\n        pass\n    use(0)\n    more()'),
    ('nested loop reset','def f(rows):\n    for r in rows:\n        k = 0\n        for c in r:\n            if c:\n                k = 1\n        use(k)','def f(rows):\n    for r in rows:\n        for c in r:\n            pass\n        use(0)'),
    ('test-only carried','def f(xs):\n    t = False\n    for x in xs:\n        if t:\n            h()\n        t = x.a == 1\n        if t:\n            g()','def f(xs):\n    for x in xs:\n        if x.a == 1:\n            g()'),
    ('first-iteration init','def f(xs):\n    base = None\n    for x in xs:\n        if base is None:\n            base = x.v\n        use(x.v - base)','def f(xs):\n    for x in xs:\n        base = x.v\n        use(x.v - base)'),
    ('for else','def f(xs):\n    r = 0\n    for x in xs:\n        if x:\n            r = 1\n            break\n    else:\n        r = 2\n    return r','def f(xs):\n    for x in xs:\n        if x:\n            break\n    else:\n        return 2\n    return 0'),
    ('attr flag carried','def f(self, xs):\n    for x in xs:\n        if self.first:\n            g(x)\n        self.first = False','def f(self, xs):\n    for x in xs:\n        if self.first:\n            g(x)'),
    ('sink across continue in try','def f(xs):\n    for x in xs:\n        err = None\n        try:\n            g(x)\n        except E as e:\n            err = e\n        use(err)','def f(xs):\n    err = None\n    for x in xs:\n        try:\n            g(x)\n        except E as e:\n            err = e\n        use(err)'),
    ('flag reset in a loop dropped','def f(xs):\n    p = True\n    for x in xs:\n        if p:\n            g(x)\n        p = False','def f(xs):\n    p = True\n    for x in xs:\n        if p:\n            g(x)'),
    ('literal assigned in a try body read after it','def f():\n    v = 0\n    try:\n        risky()\n        v = 1\n    except E:\n        pass\n    return v','def f():\n    try:\n        risky()\n    except E:\n        pass\n    return 0'),
    ('literal assigned in a loop read after it','def f(xs):\n    n = 0\n    for x in xs:\n        if x:\n            n = 1\n    return n','def f(xs):\n    for x in xs:\n        pass\n    return 0'),
    ('test re-read as a value after the assignment that changes it',
     'def f(self, x):\n    if x.a == 1:\n        x.a = 2\n        self.p = x.a == 1\n    else:\n        self.p = x.a == 1',
     'def f(self, x):\n    if x.a == 1:\n        x.a = 2\n        self.p = True\n    else:\n        self.p = False'),
    ('flag local that is not a truth value',
     'def f(self, x):\n    b = x.a\n    if b:\n        self.p = b\n    else:\n        self.p = b',
     'def f(self, x):\n    if x.a:\n        self.p = True\n    else:\n        self.p = False'),
    ('attribute default then an override that can fail', 'def f(self, t):\n    self.m = None\n    if t:\n        self.m = M()\n    self.n = 1', 'def f(self, t):\n    self.m = M() if t else None\n    self.n = 1'),
    ('two lookups extracted in the other order (which one fails first changes)', 'def f(self, xs, ys):\n    return self.g(xs[0], ys[0])', 'def f(self, xs, ys):\n    b = ys[0]\n    a = xs[0]\n    return self.g(a, b)'),
    ('lookup extracted above a state change', 'def f(self, xs):\n    self.n += 1\n    return xs[0]', 'def f(self, xs):\n    a = xs[0]\n    self.n += 1\n    return a'),
    ('lookup that was conditional made unconditional', 'def f(self, c, xs):\n    if c:\n        return xs[0]\n    return 0', 'def f(self, c, xs):\n    a = xs[0]\n    if c:\n        return a\n    return 0'),
]

SAME = [
    ('guard clause', 'def f(x):\n    if x:\n        return g(x)\n    else:\n        return 0', 'def f(x):\n    if not x:\n        return 0\n    return g(x)'),
    ('extracted local', 'def f(a, b):\n    return h(a[1:3], b)', 'def f(a, b):\n    part = a[1:3]\n    return h(part, b)'),
    ('renamed locals', 'def f(a):\n    t = g(a)\n    u = t.x\n    return u + t.y', 'def f(a):\n    first = g(a)\n    second = first.x\n    return second + first.y'),
    ('conditional expression', 'def f(c, a, b):\n    if c:\n        return a\n    return b', 'def f(c, a, b):\n    return a if c else b'),
    ('De Morgan', 'def f(a, b):\n    if not (a == 1 or b == 2):\n        return 1\n    return 0', 'def f(a, b):\n    if a != 1 and b != 2:\n        return 1\n    return 0'),
    ('format to f-string', "def f(a):\n    return 'x{:d}y'.format(a)", "def f(a):\n    return f'x{a:d}y'"),
    ('else after raising handlers', 'def f(m, r):\n    try:\n        v = m[r]\n    except KeyError:\n        raise E(r)\n    else:\n        return v',
     'def f(m, r):\n    try:\n        v = m[r]\n    except KeyError:\n        raise E(r)\n    return v'),
    ('enumerate over a stable list', 'def f(self, out):\n    for i in range(len(self.xs)):\n        out[i] = self.xs[i]',
     'def f(self, out):\n    for i, e in enumerate(self.xs):\n        out[i] = e', {'seqs': [('self', 'xs')]}),
    ('loop to comprehension', 'def f(xs):\n    out = []\n    for x in xs:\n        if x.ok:\n            out.append(x.v)\n    return out',
     'def f(xs):\n    return [x.v for x in xs if x.ok]'),
    ('return placed after the if or in its branches', 'def f(self, c, b):\n    if c:\n        b = b[:-1]\n    return b',
     'def f(self, c, b):\n    if not c:\n        return b\n    b = b[:-1]\n    return b'),
    ('chained comparison', 'def f(lo, v, hi):\n    if v >= lo and v <= hi:\n        return 1\n    return 0', 'def f(lo, v, hi):\n    if lo <= v <= hi:\n        return 1\n    return 0'),
    ('tuple assignment to attributes', 'def f(self, v):\n    self.a = 65\n    self.b = len(v)', 'def f(self, v):\n    self.a, self.b = 65, len(v)'),
    ('early-return loop is any()', 'def f(xs, s):\n    for c in xs:\n        if c not in s:\n            return 1\n    return 2', 'def f(xs, s):\n    if any(c not in s for c in xs):\n        return 1\n    return 2'),
    ('all() of a list', 'def f(self):\n    for b in self.stk:\n        if not b:\n            return False\n    return True', 'def f(self):\n    return all(self.stk)'),
    ('return of a truth value', 'def f(self, b):\n    if self.a & (1 << b):\n        return True\n    return False', 'def f(self, b):\n    return bool(self.a & (1 << b))'),
    ('return True after the try', 'def f(self, k):\n    try:\n        self[k]\n        return True\n    except KeyError as err:\n        return False', 'def f(self, k):\n    try:\n        self[k]\n    except KeyError:\n        return False\n    return True'),
    ('return inside the with block', 'def f(p):\n    with open(p) as h:\n        r = {k: v for k, v in load(h).items()}\n    return r', 'def f(p):\n    with open(p) as h:\n        return {a: b for a, b in load(h).items()}'),
    ('one loop over a chosen iterable', 'def f(self, i):\n    if i >= 0:\n        for r in self.xs:\n            g(r)\n    else:\n        for r in reversed(self.xs):\n            g(r)', 'def f(self, i):\n    for r in (self.xs if i >= 0 else reversed(self.xs)):\n        g(r)'),
    ('set built by a loop', 'def f(t):\n    s = set()\n    for c in t.split(","):\n        if c.strip() != "":\n            s.add(c.strip())\n    return s', 'def f(t):\n    return {c.strip() for c in t.split(",") if c.strip() != ""}'),
    ('reassociated product', 'def f(b, n, c):\n    return len(b) - 4 * n * len(c)', 'def f(b, n, c):\n    return len(b) - len(c) * n * 4'),
    ('independent tests nested the other way', 'def f(a, b):\n    if a.x:\n        if b.y:\n            return 1\n        return 2\n    if b.y:\n        return 3\n    return 4', 'def f(a, b):\n    if b.y:\n        if a.x:\n            return 1\n        return 3\n    if a.x:\n        return 2\n    return 4'),
    ('default literal and early return', "def f(self):\n    r = b''\n    if self.h:\n        r = self.g()\n    return r", "def f(self):\n    if not self.h:\n        return b''\n    return self.g()"),
    ('attribute default then override', 'def f(self, t, u):\n    self.m = None\n    if t:\n        self.m = u.x\n    self.n = 1', 'def f(self, t, u):\n    self.m = u.x if t else None\n    self.n = 1'),
    ('percent tuple is an f-string', "def f(a, b):\n    return 'x %s y %r' % (a, b)", "def f(a, b):\n    return f'x {a!s} y {b!r}'"),
    ('independent state updates in another order', 'def f(self, n):\n    self._in = True\n    self._can.append(True)\n    self._stk.append(n)', 'def f(self, n):\n    self._stk.append(n)\n    self._in = True\n    self._can.append(True)'),
    ('test repeated after an unrelated assignment', 'def f(self):\n    if self.z:\n        self.a = self.b\n    if not self.z and not self.q():\n        g()', 'def f(self):\n    if self.z:\n        self.a = self.b\n    elif not self.q():\n        g()'),
    ('match object is not None', 'def f(s):\n    if RE_X.match(s):\n        return 1\n    return 0', 'def f(s):\n    if RE_X.match(s) is not None:\n        return 1\n    return 0'),
    ('static helper called inside an expression', 'def f(self, ld):\n    self.xs.append(self._rd(ld))',
     'def f(self, ld):\n    v = ld.read()\n    if v < 0:\n        raise E(v)\n    self.xs.append(v)',
     {'helpers_a': '@staticmethod\ndef _rd(ld):\n    v = ld.read()\n    if v < 0:\n        raise E(v)\n    return v'}),
    ('get on a module-level dict display', 'def f(k):\n    return D.get(k, 0)', 'def f(k):\n    if k in D:\n        return D[k]\n    return 0', {'dicts': ['D']}),
    ('method of a chosen object', 'def f(c, v):\n    return (A if c else B).match(v)', 'def f(c, v):\n    return A.match(v) if c else B.match(v)'),
    ('percent with a decoded operand', "def f(b):\n    return 'x %s' % b.decode('ascii')", "def f(b):\n    return f\"x {b.decode('ascii')}\""),
    ('extend only reads its argument', 'def f(self, out):\n    n = len(self.p)\n    out.extend(self.p)\n    return n', 'def f(self, out):\n    out.extend(self.p)\n    return len(self.p)', {'sized': [('self', 'p')]}),
    ('annotated assignment in a function', 'def f(self, v):\n    self.n: int = int(v)', 'def f(self, v):\n    self.n = int(v)'),
    ('flag taken once and reused after the branch',
     'def f(self, xs):\n    prev = True\n    for x in xs:\n        if not prev:\n            self.n += 1\n        if x.a == 1:\n            yield x\n            prev = True\n        else:\n            prev = x.a == 1',
     'def f(self, xs):\n    prev = True\n    for x in xs:\n        last = x.a == 1\n        if not prev:\n            self.n += 1\n        if last:\n            yield x\n        prev = last'),
    ('two lookups extracted in the order of their use', 'def f(self, xs):\n    return self.g(xs[0], xs[-1])', 'def f(self, xs):\n    a = xs[0]\n    b = xs[-1]\n    return self.g(a, b)'),
    ('lookup extracted and used twice', 'def f(self, xs):\n    if xs[0] > 0:\n        return xs[0] + 1\n    return 0', 'def f(self, xs):\n    a = xs[0]\n    if a > 0:\n        return a + 1\n    return 0'),
]


# whole-module pairs for gate.apply(current, reference): the named function must NOT be taken as equivalent
GATE_DIFFERENT = [
    ('module global rebound by a callee between the read and the use',
     'COUNT = 0\ndef bump():\n    global COUNT\n    COUNT += 1\ndef f():\n    bump()\n    return COUNT\n',
     'COUNT = 0\ndef bump():\n    global COUNT\n    COUNT += 1\ndef f():\n    t = COUNT\n    bump()\n    return t\n', 'f'),
    ('helper of another class pasted into a method that calls its own',
     'class A:\n    def _reset(self):\n        self.closed = True\nclass C:\n    def _reset(self):\n        self.n = 0\n    def f(self):\n        self._reset()\n',
     'class C:\n    def _reset(self):\n        self.n = 0\n    def f(self):\n        self.closed = True\n', 'C.f'),
    ('class-level default None of an attribute tested for emptiness',
     'class K:\n    rows = None\n    def load(self):\n        self.rows = []\n    def empty(self):\n        return len(self.rows) == 0\n',
     'class K:\n    rows = None\n    def load(self):\n        self.rows = []\n    def empty(self):\n        return not self.rows\n', 'K.empty'),
    ('own method changes the attribute that was read before the call',
     'class R:\n    def _bump(self):\n        self._skip()\n    def _skip(self):\n        self.pos += 4\n    def f(self):\n        self._bump()\n        return self.pos\n',
     'class R:\n    def _bump(self):\n        self._skip()\n    def _skip(self):\n        self.pos += 4\n    def f(self):\n        t = self.pos\n        self._bump()\n        return t\n', 'R.f'),
    ('own method hands self on: effect unknown',
     'class R:\n    def _bump(self):\n        advance(self)\n    def f(self):\n        self._bump()\n        return self.pos\n',
     'class R:\n    def _bump(self):\n        advance(self)\n    def f(self):\n        t = self.pos\n        self._bump()\n        return t\n', 'R.f'),
    ('own method that a subclass overrides',
     'class R:\n    def _bump(self):\n        self.n += 1\n    def f(self):\n        self._bump()\n        return self.pos\nclass S(R):\n    def _bump(self):\n        self.pos += 1\n',
     'class R:\n    def _bump(self):\n        self.n += 1\n    def f(self):\n        t = self.pos\n        self._bump()\n        return t\nclass S(R):\n    def _bump(self):\n        self.pos += 1\n', 'R.f'),
    ('async def against def', 'class K:\n    async def f(self):\n        return 7\n', 'class K:\n    def f(self):\n        return 7\n', 'K.f'),
]


GATE_SAME = []       # (the per-method effect summaries were withdrawn after red-team round 3)


def _canon(src, extra, side):
    helpers = None
    hs = extra.get('helpers_' + side)
    if hs:
        h = ast.parse(hs).body[0]
        helpers = {h.name: (h, bool(h.args.args) and h.args.args[0].arg == 'self' or any(isinstance(d, ast.Name) and d.id == 'staticmethod' for d in h.decorator_list))}
    return equiv.canonical(ast.parse(src).body[0], helpers, dicts=extra.get('dicts'), sized=extra.get('sized'), ctx={'seqs': extra.get('seqs', ())})


def run():
    bad = []
    saved = equiv.REPO_DEFINED[0]
    equiv.REPO_DEFINED[0] = frozenset(('consume', 'f', 'g'))
    try:
        for what, a, b, *rest in DIFFERENT:
            extra = rest[0] if rest else {}
            ca = _canon(a, extra, 'a')
            cb = _canon(b, extra, 'b')
            if ca is not None and ca == cb:
                bad.append(f'taken as equivalent: {what}')
        for what, a, b, *rest in SAME:
            extra = rest[0] if rest else {}
            ca = _canon(a, extra, 'a')
            cb = _canon(b, extra, 'b')
            if ca is None or ca != cb:
                bad.append(f'not recognised as equivalent: {what}')
        from . import gate
        for what, cur, ref, q in GATE_DIFFERENT:
            if q in gate.apply(ast.parse(cur), ast.parse(ref), lambda t: None):
                bad.append(f'gate takes as equivalent: {what}')
        for what, cur, ref, q in GATE_SAME:
            if q not in gate.apply(ast.parse(cur), ast.parse(ref), lambda t: None):
                bad.append(f'gate does not recognise: {what}')
        # the red-team corpus (DESIGN 8.9): pairs with a demonstrated behavioural difference that were once identified
        import importlib.util
        import os
        rt = os.path.join(os.path.dirname(os.path.dirname(os.path.abspath(__file__))), 'redteam', 'check.py')
        if os.path.exists(rt):
            spec = importlib.util.spec_from_file_location('redteam_check', rt)
            m = importlib.util.module_from_spec(spec)
            spec.loader.exec_module(m)
            rbad, waived, total = m.unexpected()
            bad.extend(f'red-team pair taken as equivalent again: [{n}] {t}' for n, t in rbad)
            REDTEAM[:] = [total, waived]
    finally:
        equiv.REPO_DEFINED[0] = saved
    return bad, len(DIFFERENT) + len(GATE_DIFFERENT) + (REDTEAM[0] - REDTEAM[1]), len(SAME)


REDTEAM = [0, 0]


if __name__ == '__main__':
    bad, nd, ns = run()
    print(f'{nd} must-differ pairs, {ns} must-agree pairs, {len(bad)} failures')
    for b in bad:
        print('  ', b)
