"""Obligations, verdicts, evidence, known findings, replay files."""
import hashlib
import json
import os
import sys
import time

VERIF = os.path.dirname(os.path.dirname(os.path.abspath(__file__)))
KNOWN = os.path.join(VERIF, 'known_findings.json')
# where evidence/ and replay/ are written; the self-test points it at a scratch directory so that runs on
# mutated copies never overwrite the evidence of the real tree
OUT = os.environ.get('TD_OUT') or VERIF


def _norm(s):
    return ' '.join(str(s).split())


class Obligation:
    __slots__ = ('rule', 'site', 'construct', 'ok', 'found', 'required', 'note', 'file', 'line', 'nontrivial')

    def __init__(self, rule, site, construct, ok, found='', required='', note='', file='', line=0, nontrivial=True):
        self.rule = rule
        self.site = site
        self.construct = _norm(construct)
        self.ok = bool(ok)
        self.found = _norm(found)[:600]
        self.required = _norm(required)[:600]
        self.note = note
        self.file = file
        self.line = line
        self.nontrivial = nontrivial

    def key(self):
        return (self.rule, self.site, self.construct)

    def as_dict(self):
        d = {'rule': self.rule, 'site': self.site, 'construct': self.construct, 'ok': self.ok}
        if self.found:
            d['found'] = self.found
        if self.required:
            d['required'] = self.required
        if self.note:
            d['note'] = self.note
        if self.file:
            d['file'] = f'{self.file}:{self.line}' if self.line else self.file
        return d


class Report:
    def __init__(self, prop, tier, level='other'):
        self.prop = prop
        self.tier = tier
        self.level = level
        self.obls = []
        self.floors = {}      # rule -> minimum obligations
        self.analysed = {'modules': set(), 'functions': set()}
        self.assumptions = []
        self.explanation = ''
        self.not_decided = ''
        self.extra = {}
        self.t0 = time.time()
        self.infos = []

    # -- recording ------------------------------------------------------
    def ob(self, rule, site, construct, ok, found='', required='', note='', node=None, module=None, nontrivial=True):
        file = ''
        line = 0
        if module is not None:
            file = module.relpath
            self.analysed['modules'].add(module.name)
        if node is not None:
            line = getattr(node, 'lineno', 0)
        o = Obligation(rule, site, construct, ok, found, required, note, file, line, nontrivial)
        self.obls.append(o)
        return o

    def floor(self, rule, n):
        self.floors[rule] = n

    def fn(self, qname):
        self.analysed['functions'].add(qname)

    def info(self, msg):
        self.infos.append(msg)

    # -- finishing ------------------------------------------------------
    def finish(self, index=None, quiet=False):
        known = load_known()
        by_rule = {}
        for o in self.obls:
            by_rule.setdefault(o.rule, []).append(o)
        # vacuity
        vac = []
        for rule, n in self.floors.items():
            got = len(by_rule.get(rule, []))
            if got < n:
                vac.append(f'rule {rule}: {got} obligations, floor {n}')
        viols = []
        known_hits = []
        seen = set()
        for o in self.obls:
            if o.ok:
                continue
            k = (self.prop,) + o.key()
            if k in seen:
                continue
            seen.add(k)
            kf = known.get(k)
            if kf is not None:
                known_hits.append((o, kf))
            else:
                viols.append(o)
        if not quiet:
            print(f'[{self.prop}] tier={self.tier} obligations={len(self.obls)} '
                  f'discharged={sum(1 for o in self.obls if o.ok)} rules={len(by_rule)} '
                  f'modules={len(self.analysed["modules"])} functions={len(self.analysed["functions"])}')
            for rule in sorted(by_rule):
                os_ = by_rule[rule]
                print(f'  {rule}: {sum(1 for o in os_ if o.ok)}/{len(os_)}'
                      + (f' (floor {self.floors[rule]})' if rule in self.floors else ''))
            for m in self.infos:
                print(f'  INFO {m}')
        if vac and not viols:
            # a rule that matched fewer sites than were confirmed by hand decides nothing: analysis broken,
            # never a silent pass (a violation found elsewhere is still reported as such)
            for v in vac:
                print(f'ANALYSIS-ERROR property={self.prop} vacuity: {v}')
            self._write_evidence(index, violations=0, known_hits=[], broken=vac)
            return 2
        for o, kf in known_hits:
            print(f'KNOWN-FINDING: property={self.prop} {o.rule} {o.site} [{o.construct[:100]}]: '
                  f'{kf.get("what", "")}')
        code = 0
        if viols:
            os.makedirs(os.path.join(OUT, 'replay'), exist_ok=True)
            for o in viols:
                h = hashlib.sha1(repr(o.key()).encode()).hexdigest()[:10]
                path = os.path.join(OUT, 'replay', f'{self.prop}-{o.rule}-{h}.json')
                d = o.as_dict()
                d['property'] = self.prop
                d['replay_cmd'] = f'./check {self.prop} --replay {path}'
                with open(path, 'w') as f:
                    json.dump(d, f, indent=1)
                where = f'{o.file}:{o.line}' if o.file else o.site
                print(f'  FAIL {o.rule} at {where} [{o.site}] construct: {o.construct}')
                if o.found or o.required:
                    print(f'       found: {o.found}')
                    print(f'       required: {o.required}')
                if o.note:
                    print(f'       note: {o.note}')
                print(f'VIOLATION property={self.prop} replay={path}')
            code = 1
        self._write_evidence(index, violations=len(viols), known_hits=known_hits, broken=[])
        return code

    def _write_evidence(self, index, violations, known_hits, broken):
        os.makedirs(os.path.join(OUT, 'evidence'), exist_ok=True)
        distinct = {o.key() for o in self.obls if o.nontrivial}
        by_rule = {}
        for o in self.obls:
            by_rule.setdefault(o.rule, [0, 0])
            by_rule[o.rule][0] += 1
            by_rule[o.rule][1] += 1 if o.ok else 0
        samples = []
        seen_rules = set()
        for o in self.obls:          # one sample per rule first, then fill
            if o.rule not in seen_rules:
                seen_rules.add(o.rule)
                samples.append(o.as_dict())
        for o in self.obls:
            if len(samples) >= 40:
                break
            if not o.ok:
                samples.append(o.as_dict())
        cov = {
            'obligations': len(self.obls),
            'discharged': sum(1 for o in self.obls if o.ok),
            'evaluations': len(self.obls),
            'distinct_nontrivial': len(distinct),
            'rule': 'one obligation per (rule, site, normalised construct) extracted from the current source of '
                    '/repo; an obligation is non-trivial when its slot was filled from the analysed code '
                    '(a folded constant, a normal form, a CFG/def-use fact) rather than from the checker alone; '
                    'distinct = distinct (rule, site, construct) keys',
            'samples': samples,
            'explanation': self.explanation,
            'not_decided': self.not_decided,
            'per_rule': {r: {'obligations': v[0], 'discharged': v[1], 'floor': self.floors.get(r)}
                         for r, v in sorted(by_rule.items())},
            'analysed_modules': sorted(self.analysed['modules']),
            'analysed_functions': sorted(self.analysed['functions']),
            'known_findings_matched': [f'{o.rule} {o.site}' for o, _ in known_hits],
            'checker_cmd': f'./check {self.prop} --tier {self.tier}',
            'trusted_base': ['CPython ast/struct/re._parser', 'the rule tables in /verif/tdstatic/rules',
                             'the standards tables typed into the checker'],
            'exhaustive': False,
        }
        if broken:
            cov['analysis_errors'] = broken
        cov.update(self.extra)
        if index is not None:
            gated = {}
            for mname in sorted(index.consulted):
                try:
                    g = getattr(index.module(mname), 'gated', None)
                except Exception:
                    g = None
                if g:
                    gated[mname] = g
            cov['equivalence_gate'] = {
                'rule': 'a function whose canonical form (tdstatic/equiv.py) equals that of its reference version is a routine refactoring of it and is analysed in the reference spelling; all others are analysed as written',
                'functions_read_in_reference_spelling': gated}
            cov['tree_digest'] = hashlib.sha1(
                ''.join(sorted(index.module(m).digest for m in index.consulted)).encode()).hexdigest()
        ev = {
            'property_id': self.prop,
            'tier': self.tier,
            'seed': int(os.environ.get('VERIF_SEED', '0') or 0),
            'level': self.level,
            'coverage': cov,
            'assumptions': self.assumptions,
            'wall_s': round(time.time() - self.t0, 3),
            'violations': violations,
        }
        with open(os.path.join(OUT, 'evidence', f'{self.prop}.json'), 'w') as f:
            json.dump(ev, f, indent=1, default=str)


def load_known():
    out = {}
    if not os.path.exists(KNOWN):
        return out
    with open(KNOWN) as f:
        data = json.load(f)
    for k in data.get('findings', []):
        out[(k['property'], k['rule'], k['site'], _norm(k['construct']))] = k
    return out
