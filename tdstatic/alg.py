"""Rational-function normal form over symbols, with uninterpreted functions as symbols."""
import ast
from fractions import Fraction


class NotAlgebraic(Exception):
    pass


def _mono_mul(a, b):
    d = dict(a)
    for s, p in b:
        d[s] = d.get(s, 0) + p
    return tuple(sorted((s, p) for s, p in d.items() if p))


class Poly:
    __slots__ = ('t',)

    def __init__(self, t=None):
        self.t = {m: c for m, c in (t or {}).items() if c != 0}

    @staticmethod
    def const(c):
        return Poly({(): Fraction(c)})

    @staticmethod
    def sym(s):
        return Poly({((s, 1),): Fraction(1)})

    def __add__(self, o):
        d = dict(self.t)
        for m, c in o.t.items():
            d[m] = d.get(m, 0) + c
        return Poly(d)

    def __neg__(self):
        return Poly({m: -c for m, c in self.t.items()})

    def __sub__(self, o):
        return self + (-o)

    def __mul__(self, o):
        d = {}
        for m1, c1 in self.t.items():
            for m2, c2 in o.t.items():
                m = _mono_mul(m1, m2)
                d[m] = d.get(m, 0) + c1 * c2
        return Poly(d)

    def __eq__(self, o):
        return self.t == o.t

    def is_zero(self):
        return not self.t

    def is_const(self):
        return all(m == () for m in self.t)

    def const_value(self):
        return self.t.get((), Fraction(0))

    def symbols(self):
        return {s for m in self.t for s, _ in m}

    def __repr__(self):
        if not self.t:
            return '0'
        out = []
        for m, c in sorted(self.t.items(), key=lambda kv: repr(kv[0])):
            ms = '*'.join(s if p == 1 else f'{s}^{p}' for s, p in m)
            if not ms:
                out.append(str(c))
            elif c == 1:
                out.append(ms)
            else:
                out.append(f'{c}*{ms}')
        return ' + '.join(out)


class Rat:
    __slots__ = ('n', 'd')

    def __init__(self, n, d=None):
        self.n = n
        self.d = d if d is not None else Poly.const(1)
        if self.d.is_zero():
            raise NotAlgebraic('division by the zero polynomial')
        # normalise constant denominators
        if self.d.is_const():
            c = self.d.const_value()
            self.n = Poly({m: v / c for m, v in self.n.t.items()})
            self.d = Poly.const(1)

    @staticmethod
    def const(c):
        return Rat(Poly.const(c))

    @staticmethod
    def sym(s):
        return Rat(Poly.sym(s))

    def __add__(self, o):
        if self.d == o.d:
            return Rat(self.n + o.n, self.d)
        return Rat(self.n * o.d + o.n * self.d, self.d * o.d)

    def __neg__(self):
        return Rat(-self.n, self.d)

    def __sub__(self, o):
        return self + (-o)

    def __mul__(self, o):
        return Rat(self.n * o.n, self.d * o.d)

    def __truediv__(self, o):
        if o.n.is_zero():
            raise NotAlgebraic('division by zero')
        return Rat(self.n * o.d, self.d * o.n)

    def __pow__(self, k):
        if k < 0:
            return Rat.const(1) / (self ** (-k))
        r = Rat.const(1)
        for _ in range(k):
            r = r * self
        return r

    def equals(self, o):
        return (self.n * o.d) == (o.n * self.d)

    def is_zero(self):
        return self.n.is_zero()

    def symbols(self):
        return self.n.symbols() | self.d.symbols()

    def __repr__(self):
        if self.d.is_const() and self.d.const_value() == 1:
            return repr(self.n)
        return f'({self.n!r}) / ({self.d!r})'


def subst(r, mapping):
    """Substitute symbols by Rats."""
    def poly(p):
        out = Rat.const(0)
        for m, c in p.t.items():
            term = Rat.const(c)
            for s, pw in m:
                base = mapping.get(s, Rat.sym(s))
                term = term * (base ** pw)
            out = out + term
        return out
    return poly(r.n) / poly(r.d)


class Env:
    """Converts ast expressions into Rat.  `names`: dict of ast-name / attribute-chain -> Rat.
    `funcs`: names of calls treated as uninterpreted functions (symbol per canonical argument list).
    `identity_calls`: calls that are the identity for algebra (float(), abs is NOT)."""

    def __init__(self, names=None, funcs=(), identity_calls=('float',), fold=None, on_call=None):
        self.names = dict(names or {})
        self.funcs = set(funcs)
        self.identity_calls = set(identity_calls)
        self.fold = fold
        self.on_call = on_call

    def conv(self, e):
        if self.fold is not None and not isinstance(e, ast.Constant):
            try:
                v = self.fold(e)
                if isinstance(v, (int, float)) and not isinstance(v, bool):
                    return Rat.const(Fraction(v))
            except Exception:
                pass
        if isinstance(e, ast.Constant):
            if isinstance(e.value, bool) or not isinstance(e.value, (int, float)):
                raise NotAlgebraic(f'constant {e.value!r}')
            return Rat.const(Fraction(e.value))
        if isinstance(e, (ast.Name, ast.Attribute)):
            from .norm import attr_chain
            ch = attr_chain(e)
            if ch is None:
                raise NotAlgebraic(ast.unparse(e))
            if ch in self.names:
                return self.names[ch]
            return Rat.sym(ch)
        if isinstance(e, ast.UnaryOp):
            if isinstance(e.op, ast.USub):
                return -self.conv(e.operand)
            if isinstance(e.op, ast.UAdd):
                return self.conv(e.operand)
            raise NotAlgebraic(ast.unparse(e))
        if isinstance(e, ast.BinOp):
            if isinstance(e.op, ast.Pow):
                b = self.conv(e.left)
                k = self.conv(e.right)
                if k.n.is_const() and k.d.is_const():
                    kv = k.n.const_value()
                    if kv.denominator == 1 and abs(kv) <= 64:
                        return b ** int(kv)
                return Rat.sym(f'pow({b!r},{k!r})')
            a, b = self.conv(e.left), self.conv(e.right)
            if isinstance(e.op, ast.Add):
                return a + b
            if isinstance(e.op, ast.Sub):
                return a - b
            if isinstance(e.op, ast.Mult):
                return a * b
            if isinstance(e.op, ast.Div):
                return a / b
            if isinstance(e.op, ast.FloorDiv):
                return Rat.sym(f'floordiv({a!r},{b!r})')
            if isinstance(e.op, ast.Mod):
                return Rat.sym(f'mod({a!r},{b!r})')
            raise NotAlgebraic(ast.unparse(e))
        if isinstance(e, ast.Call):
            from .norm import attr_chain
            fn = attr_chain(e.func) or ast.unparse(e.func)
            if self.on_call is not None:
                r = self.on_call(self, e, fn)
                if r is not None:
                    return r
            if fn in self.identity_calls and len(e.args) == 1 and not e.keywords:
                return self.conv(e.args[0])
            if fn in self.funcs:
                args = ','.join(repr(self.conv(a)) for a in e.args)
                return Rat.sym(f'{fn.split(".")[-1]}({args})')
            raise NotAlgebraic(f'call {fn}')
        if isinstance(e, ast.IfExp):
            raise NotAlgebraic('conditional expression')
        raise NotAlgebraic(type(e).__name__)


def from_nf(t, names=None):
    """Convert a norm.nf / symx normal-form tuple into a Rat.  Unknown nodes become symbols named by their
    rendering, so equal sub-terms are equal symbols."""
    from .norm import show
    names = names or {}
    if not isinstance(t, tuple):
        raise NotAlgebraic(repr(t))
    k = t[0]
    if k == 'const':
        import ast as _ast
        try:
            v = _ast.literal_eval(t[1])
        except Exception:
            raise NotAlgebraic(t[1])
        if isinstance(v, bool) or not isinstance(v, (int, float)):
            raise NotAlgebraic(t[1])
        return Rat.const(Fraction(v))
    if k in ('name', 'attr'):
        s = show(t)
        return names.get(s, Rat.sym(s))
    if k == 'Add':
        r = Rat.const(0)
        for x in t[1:]:
            r = r + from_nf(x, names)
        return r
    if k == 'Mult':
        r = Rat.const(1)
        for x in t[1:]:
            r = r * from_nf(x, names)
        return r
    if k == 'Sub':
        return from_nf(t[1], names) - from_nf(t[2], names)
    if k == 'Div':
        return from_nf(t[1], names) / from_nf(t[2], names)
    if k == 'USub':
        return -from_nf(t[1], names)
    if k == 'UAdd':
        return from_nf(t[1], names)
    if k == 'Pow':
        b = from_nf(t[1], names)
        e = from_nf(t[2], names)
        if e.n.is_const() and e.d.is_const() and e.n.const_value().denominator == 1 and abs(e.n.const_value()) <= 16:
            return b ** int(e.n.const_value())
    if k == 'call' and len(t) == 3 and t[1] in (('name', 'float'),):
        return from_nf(t[2], names)
    s = show(t)
    return names.get(s, Rat.sym(s))
