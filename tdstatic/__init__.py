"""tdstatic: repository-specific static analysis of paulross/TotalDepth (no code of /repo is executed)."""
