"""Normal forms of expressions and predicates (structure, not text)."""
import ast

_COMM = (ast.Add, ast.Mult, ast.BitAnd, ast.BitOr, ast.BitXor)
_FLIP = {ast.Lt: ast.Gt, ast.Gt: ast.Lt, ast.LtE: ast.GtE, ast.GtE: ast.LtE}
_NEG = {ast.Eq: ast.NotEq, ast.NotEq: ast.Eq, ast.Lt: ast.GtE, ast.GtE: ast.Lt, ast.Gt: ast.LtE, ast.LtE: ast.Gt,
        ast.In: ast.NotIn, ast.NotIn: ast.In, ast.Is: ast.IsNot, ast.IsNot: ast.Is}


def nf(e, subst=None, fold=None):
    """Nested-tuple normal form.  subst: dict name -> replacement tuple/str (for identifying parameters of
    sibling functions).  fold: callable(expr) -> python constant or raises; used for constant folding."""
    subst = subst or {}

    def go(x, neg=False):
        if fold is not None and not isinstance(x, ast.Constant):
            try:
                v = fold(x)
                if isinstance(v, (int, float, str, bytes, bool, type(None))):
                    r = ('const', repr(v))
                    return ('not', r) if neg else r
            except Exception:
                pass
        if isinstance(x, ast.Constant):
            r = ('const', repr(x.value))
        elif isinstance(x, ast.Name):
            r = subst.get(x.id, ('name', x.id))
        elif isinstance(x, ast.Attribute):
            r = ('attr', go(x.value), x.attr)
        elif isinstance(x, ast.UnaryOp) and isinstance(x.op, ast.Not):
            return go(x.operand, not neg)
        elif isinstance(x, ast.UnaryOp):
            r = (type(x.op).__name__, go(x.operand))
        elif isinstance(x, ast.BoolOp):
            # de Morgan when negated
            is_and = isinstance(x.op, ast.And)
            if neg:
                is_and = not is_and
            parts = []
            for v in x.values:
                p = go(v, neg)
                if isinstance(p, tuple) and p and p[0] == ('and' if is_and else 'or'):
                    parts.extend(p[1:])
                else:
                    parts.append(p)
            parts = sorted(set(parts), key=repr)
            return (('and' if is_and else 'or'),) + tuple(parts)
        elif isinstance(x, ast.BinOp):
            a, b = go(x.left), go(x.right)
            opn = type(x.op).__name__
            if isinstance(x.op, _COMM):
                parts = []
                for p in (a, b):
                    if isinstance(p, tuple) and p and p[0] == opn:
                        parts.extend(p[1:])
                    else:
                        parts.append(p)
                r = (opn,) + tuple(sorted(parts, key=repr))
            else:
                r = (opn, a, b)
        elif isinstance(x, ast.Compare):
            if len(x.ops) == 1:
                op = type(x.ops[0])
                a, b = go(x.left), go(x.comparators[0])
                if neg and op in _NEG:
                    op = _NEG[op]
                    neg = False
                if op in (ast.Eq, ast.NotEq):
                    a, b = sorted((a, b), key=repr)
                elif op in (ast.Gt, ast.GtE):
                    op = _FLIP[op]
                    a, b = b, a
                # len(x) == 0  ->  not x ; len(x) != 0 / len(x) > 0 -> x
                r = ('cmp', op.__name__, a, b)
                lenzero = _len_zero(r)
                if lenzero is not None:
                    r = lenzero
            else:
                r = ('cmpchain', tuple(type(o).__name__ for o in x.ops), go(x.left)) + tuple(go(c) for c in x.comparators)
        elif isinstance(x, ast.Call):
            r = ('call', go(x.func)) + tuple(go(a) for a in x.args) + \
                tuple(('kw', k.arg, go(k.value)) for k in sorted(x.keywords, key=lambda k: k.arg or ''))
        elif isinstance(x, ast.Subscript):
            r = ('sub', go(x.value), go(x.slice))
        elif isinstance(x, ast.Slice):
            r = ('slice', go(x.lower) if x.lower else None, go(x.upper) if x.upper else None,
                 go(x.step) if x.step else None)
        elif isinstance(x, (ast.Tuple, ast.List)):
            r = ('seq',) + tuple(go(e) for e in x.elts)
        elif isinstance(x, ast.IfExp):
            r = ('ifexp', go(x.test), go(x.body), go(x.orelse))
        elif isinstance(x, ast.Starred):
            r = ('star', go(x.value))
        elif isinstance(x, ast.JoinedStr):
            r = ('fstr', ast.unparse(x))
        else:
            r = ('raw', ast.unparse(x))
        return ('not', r) if neg else r

    return go(e)


def _len_zero(r):
    # ('cmp', op, a, b) with const 0 and call len
    _, op, a, b = r
    zero = ('const', '0')

    def is_len(t):
        return isinstance(t, tuple) and len(t) == 3 and t[0] == 'call' and t[1] == ('name', 'len')
    if a == zero and is_len(b):
        # 0 == len(x), 0 != len(x), 0 < len(x)
        if op == 'Eq':
            return ('not', b[2])
        if op in ('NotEq', 'Lt'):
            return b[2]
    if b == zero and is_len(a):
        if op == 'Eq':
            return ('not', a[2])
        if op == 'NotEq':
            return a[2]
    return None


def show(t):
    if isinstance(t, tuple):
        if t and t[0] == 'const':
            return t[1]
        if t and t[0] == 'name':
            return t[1]
        if t and t[0] == 'attr':
            return f'{show(t[1])}.{t[2]}'
        return '(' + ' '.join(show(x) for x in t) + ')'
    return str(t)


def names_in(e):
    return {n.id for n in ast.walk(e) if isinstance(n, ast.Name)}


def attr_chain(e):
    """'self.file.seek' for Attribute/Name chains, else None."""
    parts = []
    while isinstance(e, ast.Attribute):
        parts.append(e.attr)
        e = e.value
    if isinstance(e, ast.Name):
        parts.append(e.id)
        return '.'.join(reversed(parts))
    return None


def call_name(call):
    return attr_chain(call.func) if isinstance(call, ast.Call) else None
