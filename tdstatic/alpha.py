"""Alpha-normalisation of local variable names against a reference table.

The rule modules were written against the local names of the pinned tree.  A consistent renaming of a function's local
variables does not change behaviour, so it must not change a verdict.  `locals_ref.json` records, per function, the local
names of the pinned tree in order of first binding.  When a function of the current tree binds names the reference does
not know and lacks the same number of names the reference has, the unknown names are renamed to the missing ones (in order
of first binding) *inside the analyser's copy of the syntax tree*.  The renaming is a bijection on locals and is applied
only if it cannot capture a free name, so the renamed function is alpha-equivalent to the real one: analysing it is exactly
as sound as analysing the original, whatever the table says.  If the shapes do not match nothing is renamed and the rules
judge the code as written."""
import ast
import json
import os

REF_PATH = os.path.join(os.path.dirname(os.path.abspath(__file__)), 'locals_ref.json')
_REF = None


def ref_table():
    global _REF
    if _REF is None:
        try:
            with open(REF_PATH) as f:
                _REF = json.load(f)
        except (OSError, ValueError):
            _REF = {}
    return _REF


def _params(f):
    a = f.args
    out = [x.arg for x in a.posonlyargs + a.args + a.kwonlyargs]
    if a.vararg:
        out.append(a.vararg.arg)
    if a.kwarg:
        out.append(a.kwarg.arg)
    return out


def _own_nodes(f):
    """nodes of f in source order, not descending into nested function / class definitions or lambdas"""
    out = []

    def rec(n):
        for c in ast.iter_child_nodes(n):
            out.append(c)
            if isinstance(c, (ast.FunctionDef, ast.AsyncFunctionDef, ast.ClassDef, ast.Lambda)):
                continue
            rec(c)
    rec(f)
    return out


def local_names(f):
    """names bound in f (not parameters, not declared global / nonlocal), in order of first binding"""
    params = set(_params(f))
    declared = set()
    order = []
    for n in _own_nodes(f):
        if isinstance(n, (ast.Global, ast.Nonlocal)):
            declared |= set(n.names)
    for n in sorted((n for n in _own_nodes(f) if isinstance(n, (ast.Name, ast.ExceptHandler, ast.alias))),
                    key=lambda x: (getattr(x, 'lineno', 0), getattr(x, 'col_offset', 0))):
        if isinstance(n, ast.Name) and isinstance(n.ctx, (ast.Store, ast.Del)):
            name = n.id
        elif isinstance(n, ast.ExceptHandler) and n.name:
            name = n.name
        else:
            continue
        if name not in params and name not in declared and name not in order:
            order.append(name)
    return order


def functions(tree):
    """(qualified name, FunctionDef) for every function in the module"""
    out = []

    def rec(node, prefix):
        for c in ast.iter_child_nodes(node):
            if isinstance(c, (ast.FunctionDef, ast.AsyncFunctionDef)):
                q = prefix + c.name
                out.append((q, c))
                rec(c, q + '.')
            elif isinstance(c, ast.ClassDef):
                rec(c, prefix + c.name + '.')
            else:
                rec(c, prefix)
    rec(tree, '')
    return out


def _nested_binders(f):
    """names bound (as parameter or by assignment) inside nested functions / lambdas of f"""
    out = set()
    for n in ast.walk(f):
        if n is not f and isinstance(n, (ast.FunctionDef, ast.AsyncFunctionDef, ast.Lambda)):
            out |= set(_params(n))
            for m in ast.walk(n):
                if isinstance(m, ast.Name) and isinstance(m.ctx, ast.Store):
                    out.add(m.id)
    return out


_FLIP = {ast.Lt: ast.Gt, ast.Gt: ast.Lt, ast.LtE: ast.GtE, ast.GtE: ast.LtE, ast.Eq: ast.Eq, ast.NotEq: ast.NotEq}


def _flipped(n):
    return ast.Compare(left=n.comparators[0], ops=[_FLIP[type(n.ops[0])]()], comparators=[n.left])


def compares(f):
    return [n for n in _own_nodes(f) if isinstance(n, ast.Compare) and len(n.ops) == 1 and type(n.ops[0]) in _FLIP]


def _unflip(f, want):
    """A comparison written with its operands the other way round (a < b for b > a, c == x for x == c) means the same for
    the value types used here; if the reference knows only the mirrored spelling, restore it."""
    n_done = 0
    want = set(want)
    for n in compares(f):
        if ast.unparse(n) in want:
            continue
        fl = _flipped(n)
        if ast.unparse(fl) in want:
            n.left, n.ops, n.comparators = fl.left, fl.ops, fl.comparators
            n_done += 1
    return n_done


def _inline_return_temps(f, known):
    """`t = E; return t` with t unknown to the reference and used only in such pairs  ->  `return E` (an extracted variable)."""
    count = {}
    for n in ast.walk(f):
        if isinstance(n, ast.Name):
            count[n.id] = count.get(n.id, 0) + 1
    pairs = {}
    for node in ast.walk(f):
        for field in ('body', 'orelse', 'finalbody'):
            lst = getattr(node, field, None)
            if not isinstance(lst, list):
                continue
            for i in range(len(lst) - 1):
                a, b = lst[i], lst[i + 1]
                if isinstance(a, ast.Assign) and len(a.targets) == 1 and isinstance(a.targets[0], ast.Name) and isinstance(b, ast.Return) \
                        and isinstance(b.value, ast.Name) and b.value.id == a.targets[0].id and a.targets[0].id not in known:
                    pairs.setdefault(a.targets[0].id, []).append((lst, a, b))
    done = 0
    for name, ps in pairs.items():
        if count.get(name) != 2 * len(ps):
            continue
        if any(isinstance(n, ast.Name) and n.id == name for _, a, _ in ps for n in ast.walk(a.value)):
            continue
        for lst, a, b in ps:
            b.value = a.value
            lst.remove(a)
            done += 1
    return done


def _try_rename(f, want):
    """-> mapping applied, {} if nothing to do, None if the shapes do not match"""
    have = local_names(f)
    new = [n for n in have if n not in want]
    missing = [n for n in want if n not in have]
    if not new:
        return {}
    if len(new) != len(missing):
        return None
    all_names = {n.id for n in ast.walk(f) if isinstance(n, ast.Name)} | set(_params(f)) | {n.name for n in ast.walk(f) if isinstance(n, ast.ExceptHandler) and n.name}
    nested = _nested_binders(f)
    # capture: a target name must not already occur in the function in any role; a renamed name must not be rebound in
    # a nested scope
    if any(m in all_names for m in missing) or any(n in nested for n in new):
        return None
    mapping = dict(zip(new, missing))
    for n in ast.walk(f):
        if isinstance(n, ast.Name) and n.id in mapping:
            n.id = mapping[n.id]
        elif isinstance(n, ast.ExceptHandler) and n.name in mapping:
            n.name = mapping[n.name]
    return mapping


def normalise(tree, modname):
    """Rename unknown locals to the reference's missing ones, inline extracted return temporaries and restore mirrored
    comparisons.  Returns the list of (function, {old: new}) applied."""
    ref = ref_table().get(modname)
    applied = []
    if not ref:
        return applied
    cref = ref.get('<compares>', {})
    seen = {}
    for q, f in functions(tree):
        k = seen.get(q, 0)
        seen[q] = k + 1
        key = q if k == 0 else f'{q}#{k}'
        want = ref.get(key) or []
        m = _try_rename(f, want)
        if m is None:
            # an extracted `t = E; return t` adds a local the reference does not have: inline it and try again
            if _inline_return_temps(f, set(want)):
                m = _try_rename(f, want)
        elif not m:
            _inline_return_temps(f, set(want))
        if m:
            applied.append((q, m))
        if key in cref:
            _unflip(f, cref[key])
    return applied


def build_reference(src_root):
    """reference table for all modules under src_root (maintainer use, see tools/gen_locals_ref.py)"""
    import warnings
    table = {}
    for dirpath, _, files in os.walk(os.path.join(src_root, 'TotalDepth')):
        for fn in sorted(files):
            if not fn.endswith('.py'):
                continue
            path = os.path.join(dirpath, fn)
            rel = os.path.relpath(path, src_root)[:-3].replace(os.sep, '.')
            if rel.endswith('.__init__'):
                rel = rel[:-9]
            try:
                with warnings.catch_warnings():
                    warnings.simplefilter('ignore')
                    tree = ast.parse(open(path, encoding='utf-8', errors='replace').read())
            except SyntaxError:
                continue
            entry = {}
            centry = {}
            seen = {}
            for q, f in functions(tree):
                k = seen.get(q, 0)
                seen[q] = k + 1
                names = local_names(f)
                if names:
                    entry[q if k == 0 else f'{q}#{k}'] = names
                cs = sorted({ast.unparse(n) for n in compares(f)})
                if cs:
                    centry[q if k == 0 else f'{q}#{k}'] = cs
            if centry:
                entry['<compares>'] = centry
            if entry:
                table[rel] = entry
    return table
