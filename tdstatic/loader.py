"""Source loader: parses /repo's working tree (never imports it) and offers
name resolution, class/function tables and a module-constant folder."""
import ast
import hashlib
import os
import re
import struct
import sys

REPO = os.environ.get('TD_REPO', '/repo')
SRC = os.path.join(REPO, 'src')
PKG = 'TotalDepth'


class AnalysisError(Exception):
    """The analyser cannot find an anchor / cannot do its job: exit 2, never a verdict."""


class Unfoldable(Exception):
    pass


class StructVal:
    """struct.Struct(fmt) folded."""
    def __init__(self, fmt):
        if isinstance(fmt, bytes):
            fmt = fmt.decode('ascii')
        self.format = fmt
        self.size = struct.calcsize(fmt)

    def __eq__(self, o):
        return isinstance(o, StructVal) and o.format == self.format

    def __hash__(self):
        return hash(('StructVal', self.format))

    def __repr__(self):
        return f'Struct({self.format!r})'


class RegexVal:
    def __init__(self, pattern, flags=0):
        self.pattern = pattern
        self.flags = flags

    def __repr__(self):
        return f'Regex({self.pattern!r})'


class FuncRef:
    """A reference to a function / class by qualified name (module:qualname)."""
    def __init__(self, qname):
        self.qname = qname

    def __eq__(self, o):
        return isinstance(o, FuncRef) and o.qname == self.qname

    def __hash__(self):
        return hash(('FuncRef', self.qname))

    def __repr__(self):
        return f'<{self.qname}>'


def _is_noop(st):
    """Statements that carry no data or control flow for any rule: `pass`, docstrings / bare constants, and calls of the
    logging / print family used as statements (their arguments are formatting only)."""
    if isinstance(st, ast.Pass):
        return True
    if isinstance(st, ast.Expr):
        v = st.value
        if isinstance(v, ast.Constant):
            return True
        if isinstance(v, ast.Call):
            f = v.func
            root = f
            while isinstance(root, ast.Attribute):
                root = root.value
            if isinstance(root, ast.Name) and root.id in ('logging', 'logger', 'print') and (isinstance(f, ast.Name) or
                    f.attr in ('debug', 'info', 'warning', 'warn', 'error', 'critical', 'exception', 'log')):
                return True
    return False


def strip_noops(tree):
    """Remove no-op statements from every statement list (one `pass` is kept where a body would become empty), so that
    rules about the first / last / only statement of a body are insensitive to tracing lines, comments-as-strings and
    placeholders.  Line numbers of the remaining nodes are untouched."""
    for node in ast.walk(tree):
        for field in ('body', 'orelse', 'finalbody'):
            lst = getattr(node, field, None)
            if isinstance(lst, list) and lst and isinstance(lst[0], ast.stmt):
                kept = [st for st in lst if not _is_noop(st)]
                removed = len(kept) != len(lst)
                if not kept and field == 'body':
                    if len(lst) == 1 and isinstance(lst[0], ast.Pass):
                        continue
                    p = ast.Pass()
                    ast.copy_location(p, lst[0])
                    kept = [p]
                if removed:
                    for st in lst:
                        if _is_noop(st) and isinstance(st, ast.Expr) and isinstance(st.value, ast.Call):
                            # kept reachable for rules about expressions (attribute reads inside a tracing call
                            # are still evaluated at run time): see walk_all()
                            st._noop_field = field
                            node.__dict__.setdefault('_noops', []).append(st)
                    lst[:] = kept


def plain_local_assignments(tree):
    """Inside function bodies `x: T = v` becomes `x = v` (the annotation is kept on the node as `_annotation`): whether a
    local carries a type annotation is irrelevant to every rule about what is assigned."""
    for f in ast.walk(tree):
        if not isinstance(f, (ast.FunctionDef, ast.AsyncFunctionDef)):
            continue
        for node in ast.walk(f):
            if isinstance(node, ast.ClassDef):
                continue
            for field in ('body', 'orelse', 'finalbody'):
                lst = getattr(node, field, None)
                if isinstance(lst, list):
                    for i, st in enumerate(lst):
                        if isinstance(st, ast.AnnAssign) and st.value is not None and isinstance(st.target, ast.Name) and not isinstance(node, ast.ClassDef):
                            a = ast.Assign(targets=[st.target], value=st.value)
                            ast.copy_location(a, st)
                            a._annotation = st.annotation
                            lst[i] = a


class Module:
    def __init__(self, name, path):
        self.name = name
        self.path = path
        with open(path, 'rb') as f:
            raw = f.read()
        self.digest = hashlib.sha1(raw).hexdigest()
        self.src = raw.decode('utf-8', errors='replace')
        try:
            import warnings
            with warnings.catch_warnings():
                warnings.simplefilter('ignore')
                self.tree = ast.parse(self.src, filename=path)
        except SyntaxError as err:
            raise AnalysisError(f'cannot parse {path}: {err}')
        strip_noops(self.tree)
        plain_local_assignments(self.tree)
        from . import alpha, gate
        self.gated = []
        if not os.environ.get('TD_NO_GATE'):
            ref_src = gate.reference_sources().get(name)
            if ref_src is not None and ref_src != self.src:
                try:
                    import warnings
                    with warnings.catch_warnings():
                        warnings.simplefilter('ignore')
                        ref_tree = ast.parse(ref_src)

                    def prepare(t):
                        strip_noops(t)
                        plain_local_assignments(t)
                    self.gated = gate.apply(self.tree, ref_tree, prepare)
                except SyntaxError:
                    pass
        self.renamed = alpha.normalise(self.tree, name)
        for node in ast.walk(self.tree):
            for child in ast.iter_child_nodes(node):
                child._parent = node
            for st in getattr(node, '_noops', []):
                st._parent = node
                for sub in ast.walk(st):
                    for child in ast.iter_child_nodes(sub):
                        child._parent = sub
        self.tree._parent = None
        self._assign = None
        self._imports = None
        self._defs = None

    @property
    def relpath(self):
        return os.path.relpath(self.path, REPO)

    # module-level bindings -------------------------------------------------
    def _scan(self):
        self._assign = {}   # name -> list of value exprs (module level, incl. inside if/try at top level)
        self._imports = {}  # alias -> ('module', dotted) | ('name', module, name)
        self._defs = {}     # name -> FunctionDef/ClassDef
        self._stars = []

        def visit(body):
            for st in body:
                if isinstance(st, ast.Assign):
                    for t in st.targets:
                        if isinstance(t, ast.Name):
                            self._assign.setdefault(t.id, []).append(st.value)
                        elif isinstance(t, (ast.Tuple, ast.List)) and isinstance(st.value, (ast.Tuple, ast.List)) \
                                and len(t.elts) == len(st.value.elts):
                            for a, b in zip(t.elts, st.value.elts):
                                if isinstance(a, ast.Name):
                                    self._assign.setdefault(a.id, []).append(b)
                elif isinstance(st, ast.AnnAssign) and isinstance(st.target, ast.Name) and st.value is not None:
                    self._assign.setdefault(st.target.id, []).append(st.value)
                elif isinstance(st, ast.Import):
                    for a in st.names:
                        if a.asname:
                            self._imports[a.asname] = ('module', a.name)
                        else:
                            self._imports[a.name.split('.')[0]] = ('module', a.name.split('.')[0])
                elif isinstance(st, ast.ImportFrom):
                    mod = st.module or ''
                    if st.level:
                        base = self.name.split('.')
                        # a module 'a.b.c' at level 1 -> package 'a.b'; a package __init__ counts as one level
                        drop = st.level - (1 if os.path.basename(self.path) == '__init__.py' else 0)
                        base = base[:len(base) - drop]
                        mod = '.'.join(base + ([mod] if mod else []))
                    for a in st.names:
                        if a.name == '*':
                            self._stars.append(mod)
                        else:
                            self._imports[a.asname or a.name] = ('name', mod, a.name)
                elif isinstance(st, (ast.FunctionDef, ast.AsyncFunctionDef, ast.ClassDef)):
                    self._defs[st.name] = st
                elif isinstance(st, (ast.If,)):
                    visit(st.body)
                    visit(st.orelse)
                elif isinstance(st, ast.Try):
                    visit(st.body)
                    for h in st.handlers:
                        visit(h.body)
                    visit(st.orelse)
                    visit(st.finalbody)
                elif isinstance(st, (ast.With,)):
                    visit(st.body)
        visit(self.tree.body)

    @property
    def assigns(self):
        if self._assign is None:
            self._scan()
        return self._assign

    @property
    def imports(self):
        if self._imports is None:
            self._scan()
        return self._imports

    @property
    def defs(self):
        if self._defs is None:
            self._scan()
        return self._defs

    @property
    def stars(self):
        if self._defs is None:
            self._scan()
        return self._stars


class Index:
    """All modules of the package, lazily parsed."""

    def __init__(self, src=SRC):
        self.src = src
        self._paths = {}
        for root, dirs, files in os.walk(os.path.join(src, PKG)):
            dirs[:] = sorted(d for d in dirs if d != '__pycache__')
            for fn in sorted(files):
                if fn.endswith('.py'):
                    p = os.path.join(root, fn)
                    rel = os.path.relpath(p, src)[:-3].replace(os.sep, '.')
                    if rel.endswith('.__init__'):
                        rel = rel[:-9]
                    self._paths[rel] = p
        self._mods = {}
        self.consulted = set()
        from . import equiv
        defined = set()
        for p in self._paths.values():
            with open(p, 'rb') as f:
                defined.update(x.decode('ascii', 'replace') for x in re.findall(rb'\bdef\s+(\w+)', f.read()))
        equiv.REPO_DEFINED[0] = frozenset(defined)

    def module_names(self):
        return sorted(self._paths)

    def has_module(self, name):
        return name in self._paths

    def module(self, name) -> Module:
        if name not in self._mods:
            if name not in self._paths:
                raise AnalysisError(f'anchor module {name} not found under {self.src}')
            self._mods[name] = Module(name, self._paths[name])
        self.consulted.add(name)
        return self._mods[name]

    def module_by_relpath(self, rel):
        """rel like 'src/TotalDepth/RP66V1/core/pFile.py'"""
        name = rel[len('src/'):-3].replace('/', '.')
        return self.module(name)

    # ---- symbol lookup -------------------------------------------------
    def lookup(self, modname, name, _seen=None):
        """Resolve a module-level name to ('def', module, node) | ('assign', module, [exprs]) |
        ('module', dotted) | ('external', module, name) | None."""
        _seen = _seen or set()
        if (modname, name) in _seen:
            return None
        _seen.add((modname, name))
        if not self.has_module(modname):
            return ('external', modname, name)
        m = self.module(modname)
        # later star imports override earlier definitions (RepCode.py relies on this), so consult in
        # reverse textual order: find the last binding of `name` in the module.
        last = None
        if name in m.defs:
            last = ('def', modname, m.defs[name])
        if name in m.assigns:
            cand = ('assign', modname, m.assigns[name])
            if last is None or m.assigns[name][-1].lineno > last[2].lineno:
                last = cand
        if name in m.imports:
            imp = m.imports[name]
            if imp[0] == 'module':
                return ('module', imp[1])
            # could be a submodule
            sub = imp[1] + '.' + imp[2]
            if self.has_module(sub):
                return ('module', sub)
            r = self.lookup(imp[1], imp[2], _seen)
            if r is not None:
                return r
            return ('external', imp[1], imp[2])
        if last is not None:
            return last
        for star in reversed(m.stars):
            if self.has_module(star):
                r = self.lookup(star, name, _seen)
                if r is not None:
                    return r
        return None

    def resolve_dotted(self, modname, expr):
        """Resolve Name / Attribute chains to the lookup result of the final symbol."""
        if isinstance(expr, ast.Name):
            return self.lookup(modname, expr.id)
        if isinstance(expr, ast.Attribute):
            base = self.resolve_dotted(modname, expr.value)
            if base is None:
                return None
            if base[0] == 'module':
                dotted = base[1]
                sub = dotted + '.' + expr.attr
                if self.has_module(sub):
                    return ('module', sub)
                if self.has_module(dotted):
                    return self.lookup(dotted, expr.attr)
                return ('external', dotted, expr.attr)
            if base[0] == 'def' and isinstance(base[2], ast.ClassDef):
                r = self.class_attr(base[1], base[2], expr.attr)
                return r
            if base[0] == 'external':
                return ('external', base[1] + '.' + base[2], expr.attr)
        return None

    def class_attr(self, modname, cls, attr, _depth=0):
        for st in cls.body:
            if isinstance(st, (ast.FunctionDef, ast.ClassDef)) and st.name == attr:
                return ('def', modname, st)
            if isinstance(st, ast.Assign):
                for t in st.targets:
                    if isinstance(t, ast.Name) and t.id == attr:
                        return ('assign', modname, [st.value])
            if isinstance(st, ast.AnnAssign) and isinstance(st.target, ast.Name) and st.target.id == attr \
                    and st.value is not None:
                return ('assign', modname, [st.value])
        if _depth < 8:
            for b in cls.bases:
                r = self.resolve_dotted(modname, b)
                if r and r[0] == 'def' and isinstance(r[2], ast.ClassDef):
                    x = self.class_attr(r[1], r[2], attr, _depth + 1)
                    if x:
                        return x
        return None

    def get_class(self, modname, clsname):
        r = self.lookup(modname, clsname)
        if not r or r[0] != 'def' or not isinstance(r[2], ast.ClassDef):
            raise AnalysisError(f'anchor class {modname}:{clsname} not found')
        return r[2]

    def get_func(self, modname, qual):
        """qual is 'func' or 'Class.method' (method looked up through the MRO)."""
        parts = qual.split('.')
        if len(parts) == 1:
            r = self.lookup(modname, parts[0])
            if not r or r[0] != 'def' or not isinstance(r[2], (ast.FunctionDef, ast.AsyncFunctionDef)):
                raise AnalysisError(f'anchor function {modname}:{qual} not found')
            return r[2]
        cls = self.get_class(modname, parts[0])
        r = self.class_attr(modname, cls, parts[1])
        if not r or r[0] != 'def' or not isinstance(r[2], (ast.FunctionDef, ast.AsyncFunctionDef)):
            raise AnalysisError(f'anchor method {modname}:{qual} not found')
        return r[2]

    def find_func(self, modname, qual):
        try:
            return self.get_func(modname, qual)
        except AnalysisError:
            return None

    def class_bases(self, modname, cls):
        """Yield (modname, ClassDef) for the class and all its resolvable ancestors; also names of
        unresolvable (builtin/external) bases."""
        seen = []
        ext = []

        def rec(mn, c, d=0):
            seen.append((mn, c))
            if d > 10:
                return
            for b in c.bases:
                r = self.resolve_dotted(mn, b)
                if r and r[0] == 'def' and isinstance(r[2], ast.ClassDef):
                    if (r[1], r[2]) not in seen:
                        rec(r[1], r[2], d + 1)
                else:
                    ext.append(ast.unparse(b))
        rec(modname, cls)
        return seen, ext

    def derives_from(self, modname, cls, ancestor_names):
        seen, ext = self.class_bases(modname, cls)
        names = {c.name for _, c in seen} | {e.split('.')[-1] for e in ext}
        return bool(names & set(ancestor_names))

    # ---- constant folding ----------------------------------------------
    def fold(self, modname, expr, env=None, _depth=0):
        """Fold an expression to a Python value, following names across modules."""
        if _depth > 40:
            raise Unfoldable('depth')
        f = lambda e: self.fold(modname, e, env, _depth + 1)
        if isinstance(expr, ast.Constant):
            return expr.value
        if isinstance(expr, ast.Name):
            if env is not None and expr.id in env:
                return env[expr.id]
            if expr.id in ('True', 'False', 'None'):
                return {'True': True, 'False': False, 'None': None}[expr.id]
            r = self.lookup(modname, expr.id)
            return self._fold_lookup(r, expr, _depth)
        if isinstance(expr, ast.Attribute):
            # struct .size / .format
            try:
                base = f(expr.value)
            except Unfoldable:
                base = None
            if isinstance(base, StructVal) and expr.attr in ('size', 'format'):
                return getattr(base, expr.attr)
            r = self.resolve_dotted(modname, expr)
            return self._fold_lookup(r, expr, _depth)
        if isinstance(expr, ast.UnaryOp):
            v = f(expr.operand)
            try:
                if isinstance(expr.op, ast.USub):
                    return -v
                if isinstance(expr.op, ast.UAdd):
                    return +v
                if isinstance(expr.op, ast.Invert):
                    return ~v
                if isinstance(expr.op, ast.Not):
                    return not v
            except Exception as e:
                raise Unfoldable(str(e))
        if isinstance(expr, ast.BinOp):
            a, b = f(expr.left), f(expr.right)
            import operator as op
            ops = {ast.Add: op.add, ast.Sub: op.sub, ast.Mult: op.mul, ast.Div: op.truediv,
                   ast.FloorDiv: op.floordiv, ast.Mod: op.mod, ast.Pow: op.pow, ast.LShift: op.lshift,
                   ast.RShift: op.rshift, ast.BitAnd: op.and_, ast.BitOr: op.or_, ast.BitXor: op.xor}
            try:
                if isinstance(expr.op, ast.Pow) and isinstance(b, int) and abs(b) > 4096:
                    raise Unfoldable('pow too large')
                if isinstance(expr.op, ast.LShift) and isinstance(b, int) and b > 4096:
                    raise Unfoldable('shift too large')
                return ops[type(expr.op)](a, b)
            except Unfoldable:
                raise
            except Exception as e:
                raise Unfoldable(str(e))
        if isinstance(expr, ast.Tuple):
            return tuple(f(e) for e in expr.elts)
        if isinstance(expr, ast.List):
            return [f(e) for e in expr.elts]
        if isinstance(expr, ast.Set):
            return frozenset(self._hashable(f(e)) for e in expr.elts)
        if isinstance(expr, ast.Dict):
            d = {}
            for k, v in zip(expr.keys, expr.values):
                if k is None:
                    sub = f(v)
                    if not isinstance(sub, dict):
                        raise Unfoldable('** of non-dict')
                    d.update(sub)
                else:
                    kk = self._hashable(f(k))
                    try:
                        d[kk] = f(v)
                    except Unfoldable:
                        d[kk] = _UNFOLDED(v)
            return d
        if isinstance(expr, ast.Call):
            fn = expr.func
            fname = ast.unparse(fn)
            if fname in ('struct.Struct',) and len(expr.args) == 1:
                return StructVal(f(expr.args[0]))
            if fname in ('re.compile',) and expr.args:
                flags = 0
                return RegexVal(f(expr.args[0]), flags)
            if fname in ('frozenset', 'set') and len(expr.args) <= 1:
                if not expr.args:
                    return frozenset()
                return frozenset(self._hashable(x) for x in self._iter(f(expr.args[0])))
            if fname == 'tuple' and len(expr.args) == 1:
                return tuple(self._iter(f(expr.args[0])))
            if fname == 'list' and len(expr.args) == 1:
                return list(self._iter(f(expr.args[0])))
            if fname == 'len' and len(expr.args) == 1:
                return len(f(expr.args[0]))
            if fname == 'range':
                return range(*[f(a) for a in expr.args])
            if fname == 'bytes' and len(expr.args) == 1:
                v = f(expr.args[0])
                try:
                    return bytes(v)
                except Exception as e:
                    raise Unfoldable(str(e))
            if fname in ('struct.calcsize',) and len(expr.args) == 1:
                return struct.calcsize(f(expr.args[0]))
            if fname in ('int', 'float') and len(expr.args) == 1:
                try:
                    return {'int': int, 'float': float}[fname](f(expr.args[0]))
                except Unfoldable:
                    raise
                except Exception as e:
                    raise Unfoldable(str(e))
            if fname in ('math.ldexp', 'ldexp') and len(expr.args) == 2:
                import math
                try:
                    return math.ldexp(f(expr.args[0]), f(expr.args[1]))
                except Unfoldable:
                    raise
                except Exception as e:
                    raise Unfoldable(str(e))
            if isinstance(fn, ast.Attribute) and fn.attr == 'keys' and not expr.args:
                v = f(fn.value)
                if isinstance(v, dict):
                    return frozenset(v.keys())
            raise Unfoldable(f'call {fname}')
        if isinstance(expr, ast.Subscript):
            v = f(expr.value)
            if isinstance(expr.slice, ast.Slice):
                lo = f(expr.slice.lower) if expr.slice.lower else None
                hi = f(expr.slice.upper) if expr.slice.upper else None
                st = f(expr.slice.step) if expr.slice.step else None
                try:
                    return v[lo:hi:st]
                except Exception as e:
                    raise Unfoldable(str(e))
            k = f(expr.slice)
            try:
                return v[self._hashable(k)] if isinstance(v, dict) else v[k]
            except Exception as e:
                raise Unfoldable(str(e))
        if isinstance(expr, ast.JoinedStr):
            out = []
            for v in expr.values:
                if isinstance(v, ast.Constant):
                    out.append(v.value)
                else:
                    raise Unfoldable('fstring')
            return ''.join(out)
        if isinstance(expr, ast.Compare) and len(expr.ops) == 1:
            a, b = f(expr.left), f(expr.comparators[0])
            import operator as op
            ops = {ast.Eq: op.eq, ast.NotEq: op.ne, ast.Lt: op.lt, ast.LtE: op.le, ast.Gt: op.gt, ast.GtE: op.ge}
            if type(expr.ops[0]) in ops:
                try:
                    return ops[type(expr.ops[0])](a, b)
                except Exception as e:
                    raise Unfoldable(str(e))
        if isinstance(expr, ast.DictComp) or isinstance(expr, ast.ListComp) or isinstance(expr, ast.SetComp) \
                or isinstance(expr, ast.GeneratorExp):
            return self._fold_comp(modname, expr, env, _depth)
        if isinstance(expr, ast.IfExp):
            return f(expr.body) if f(expr.test) else f(expr.orelse)
        raise Unfoldable(type(expr).__name__)

    def _fold_comp(self, modname, expr, env, _depth):
        if len(expr.generators) != 1:
            raise Unfoldable('nested comprehension')
        g = expr.generators[0]
        it = self._iter(self.fold(modname, g.iter, env, _depth + 1))
        out = []
        for item in it:
            e2 = dict(env or {})
            self._bind(g.target, item, e2)
            ok = all(self.fold(modname, c, e2, _depth + 1) for c in g.ifs)
            if not ok:
                continue
            if isinstance(expr, ast.DictComp):
                out.append((self._hashable(self.fold(modname, expr.key, e2, _depth + 1)),
                            self.fold(modname, expr.value, e2, _depth + 1)))
            else:
                out.append(self.fold(modname, expr.elt, e2, _depth + 1))
        if isinstance(expr, ast.DictComp):
            return dict(out)
        if isinstance(expr, ast.SetComp):
            return frozenset(self._hashable(x) for x in out)
        return out

    def _bind(self, target, value, env):
        if isinstance(target, ast.Name):
            env[target.id] = value
        elif isinstance(target, (ast.Tuple, ast.List)):
            vals = list(value)
            if len(vals) != len(target.elts):
                raise Unfoldable('unpack')
            for t, v in zip(target.elts, vals):
                self._bind(t, v, env)
        else:
            raise Unfoldable('bind')

    @staticmethod
    def _iter(v):
        if isinstance(v, dict):
            return list(v.keys())
        if isinstance(v, (list, tuple, frozenset, set, range, bytes, str)):
            return list(v)
        raise Unfoldable('not iterable')

    @staticmethod
    def _hashable(v):
        if isinstance(v, list):
            return tuple(Index._hashable(x) for x in v)
        if isinstance(v, dict):
            return tuple(sorted(v.items()))
        return v

    def _fold_lookup(self, r, expr, _depth):
        if r is None:
            raise Unfoldable(f'unresolved {ast.unparse(expr)}')
        if r[0] == 'assign':
            # a class attribute's value sees the earlier attributes of its class body by bare name
            owner = getattr(getattr(r[2][-1], '_parent', None), '_parent', None)
            env = _ClassEnv(self, r[1], owner) if isinstance(owner, ast.ClassDef) else None
            return self.fold(r[1], r[2][-1], env, _depth + 1)
        if r[0] == 'def':
            return FuncRef(f'{r[1]}:{self.qualname(r[2])}')
        if r[0] == 'external':
            if r[1] == 'math' and r[2] in ('pi', 'e', 'inf', 'tau'):
                import math
                return getattr(math, r[2])
            return FuncRef(f'{r[1]}:{r[2]}')
        if r[0] == 'module':
            raise Unfoldable('module object')
        raise Unfoldable('lookup')

    @staticmethod
    def qualname(node):
        parts = [node.name]
        p = getattr(node, '_parent', None)
        while p is not None:
            if isinstance(p, (ast.ClassDef, ast.FunctionDef, ast.AsyncFunctionDef)):
                parts.append(p.name)
            p = getattr(p, '_parent', None)
        return '.'.join(reversed(parts))

    def fold_name(self, modname, name):
        r = self.lookup(modname, name)
        if r is None:
            raise AnalysisError(f'anchor constant {modname}:{name} not found')
        try:
            return self._fold_lookup(r, ast.Name(id=name), 0)
        except Unfoldable as e:
            raise AnalysisError(f'anchor constant {modname}:{name} cannot be folded: {e}')

    def fold_class_attr(self, modname, clsname, attr):
        cls = self.get_class(modname, clsname)
        r = self.class_attr(modname, cls, attr)
        if r is None:
            raise AnalysisError(f'anchor constant {modname}:{clsname}.{attr} not found')
        try:
            if r[0] == 'assign':
                return self.fold(r[1], r[2][-1], _ClassEnv(self, modname, cls), 1)
            return self._fold_lookup(r, ast.Name(id=attr), 0)
        except Unfoldable as e:
            raise AnalysisError(f'anchor constant {modname}:{clsname}.{attr} cannot be folded: {e}')


class _ClassEnv(dict):
    """Name environment of a class body: earlier class attributes are visible by bare name."""
    def __init__(self, ix, modname, cls):
        super().__init__()
        self.ix, self.modname, self.cls = ix, modname, cls

    def __contains__(self, name):
        if dict.__contains__(self, name):
            return True
        r = self.ix.class_attr(self.modname, self.cls, name)
        return bool(r and r[0] == 'assign')

    def __getitem__(self, name):
        if dict.__contains__(self, name):
            return dict.__getitem__(self, name)
        r = self.ix.class_attr(self.modname, self.cls, name)
        v = self.ix.fold(r[1], r[2][-1], self, 2)
        self[name] = v
        return v


class _UNFOLDED:
    def __init__(self, node):
        self.node = node

    def __repr__(self):
        return f'<unfolded {ast.unparse(self.node)}>'


def enclosing_function(node):
    p = getattr(node, '_parent', None)
    while p is not None and not isinstance(p, (ast.FunctionDef, ast.AsyncFunctionDef)):
        p = getattr(p, '_parent', None)
    return p


def enclosing_class(node):
    p = getattr(node, '_parent', None)
    while p is not None and not isinstance(p, ast.ClassDef):
        p = getattr(p, '_parent', None)
    return p


def walk_no_nested(node):
    """ast.walk that does not descend into nested function/class definitions or lambdas."""
    todo = list(ast.iter_child_nodes(node))
    while todo:
        n = todo.pop()
        yield n
        if isinstance(n, (ast.FunctionDef, ast.AsyncFunctionDef, ast.ClassDef, ast.Lambda)):
            continue
        todo.extend(ast.iter_child_nodes(n))


def walk_all(node):
    """walk_no_nested plus the tracing statements that strip_noops() set aside (for rules about every expression that
    is evaluated, e.g. attribute reads on typed receivers)."""
    todo = list(ast.iter_child_nodes(node)) + list(getattr(node, '_noops', []))
    while todo:
        n = todo.pop()
        yield n
        if isinstance(n, (ast.FunctionDef, ast.AsyncFunctionDef, ast.ClassDef, ast.Lambda)):
            continue
        todo.extend(ast.iter_child_nodes(n))
        todo.extend(getattr(n, '_noops', []))


_INDEX = None


def index() -> Index:
    global _INDEX
    if _INDEX is None:
        _INDEX = Index()
    return _INDEX
