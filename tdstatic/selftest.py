"""Thorough tier: after the rules have passed on /repo's working tree, test the checker itself both ways on
scratch copies of that same tree (made outside /repo and /verif, removed afterwards):

* every committed seeded change of the property (/verif/seeded/<id>/patch.diff - a realistic edit that breaks the
  property while the repository's own test suite stays green) is applied to a copy of the *current* source and the
  analyser is run on the copy (TD_REPO points it there, TD_OUT keeps its evidence away from the real evidence); the
  run must end in VIOLATION.  A patch that no longer applies to the current source is reported as skipped.
* the unmodified copy must pass (guards against a self-test that "detects" everything).

Nothing of /repo is executed; the copies are only parsed.  A seeded change that applies but is no longer reported means
the checker has lost the ability to decide the property: ANALYSIS-ERROR, exit 2 (never a silent pass)."""
import concurrent.futures
import glob
import json
import os
import shutil
import subprocess
import sys
import tempfile

from . import loader, report

VERIF = report.VERIF


def _seeds_for(prop):
    out = []
    for d in sorted(glob.glob(os.path.join(VERIF, 'seeded', '*'))):
        meta = os.path.join(d, 'meta.json')
        patch = os.path.join(d, 'patch.diff')
        if not (os.path.exists(meta) and os.path.exists(patch)):
            continue
        try:
            m = json.load(open(meta))
        except ValueError:
            continue
        if m.get('property') == prop or prop in m.get('also_detected_by', []):
            out.append((os.path.basename(d), patch, m))
    return out


def _refactors_for(prop):
    """committed behaviour-preserving refactors of this property's anchored code that are expected to stay quiet"""
    out = []
    for d in sorted(glob.glob(os.path.join(VERIF, 'refactors', '*'))):
        meta = os.path.join(d, 'meta.json')
        patch = os.path.join(d, 'patch.diff')
        if not (os.path.exists(meta) and os.path.exists(patch)):
            continue
        try:
            m = json.load(open(meta))
        except ValueError:
            continue
        if m.get('property') == prop and m.get('expected') == 'quiet':
            out.append((os.path.basename(d), patch, m))
    return out


def _copy_tree(dst):
    shutil.copytree(os.path.join(loader.REPO, 'src'), os.path.join(dst, 'src'),
                    ignore=shutil.ignore_patterns('__pycache__', '*.so', '*.pyc', '*.o', 'build', '*.egg-info'))


def _run(prop, repo, out):
    env = dict(os.environ, TD_REPO=repo, TD_OUT=out)
    p = subprocess.run([sys.executable, '-B', '-m', 'tdstatic.main', prop, '--tier', 'quick'], cwd=VERIF, env=env,
                       capture_output=True, text=True)
    return p.returncode, p.stdout + p.stderr


def _one(prop, name, patch, root):
    d = os.path.join(root, name)
    try:
        os.makedirs(d)
        _copy_tree(d)
        if patch is not None:
            ap = subprocess.run(['git', 'apply', '--include=src/*', patch], cwd=d, capture_output=True, text=True)
            if ap.returncode != 0:
                return name, 'skipped', 'patch does not apply to the current source: ' + ap.stderr.strip().splitlines()[-1][:160] if ap.stderr.strip() else 'patch does not apply'
            chk = subprocess.run(['git', 'apply', '--include=src/*', '-R', '--check', patch], cwd=d, capture_output=True, text=True)
            if chk.returncode != 0:
                return name, 'skipped', 'patch applied to nothing under src/'
        code, out = _run(prop, d, os.path.join(d, 'out'))
        fails = [l.strip() for l in out.splitlines() if l.strip().startswith('FAIL ')]
        return name, {0: 'passed', 1: 'violation', 2: 'analysis-error'}.get(code, f'exit {code}'), '; '.join(fails[:3])[:600] or out.strip().splitlines()[-1][:300]
    finally:
        shutil.rmtree(d, ignore_errors=True)


def run(prop):
    seeds = _seeds_for(prop)
    root = tempfile.mkdtemp(prefix=f'tdstatic-selftest-{prop}-')
    results = []
    try:
        refs = _refactors_for(prop)
        quiet_names = {n for n, _, _ in refs}
        jobs = [('unmodified-copy', None)] + [(n, p) for n, p, _ in seeds] + [(n, p) for n, p, _ in refs]
        with concurrent.futures.ThreadPoolExecutor(max_workers=min(16, len(jobs))) as ex:
            futs = [ex.submit(_one, prop, n, p, root) for n, p in jobs]
            for f in futs:
                results.append(f.result())
    finally:
        shutil.rmtree(root, ignore_errors=True)
    bad = []
    from . import equiv_selftest
    eb, nd, ns = equiv_selftest.run()
    print(f'  SELFTEST equivalence canonicaliser: {nd} behaviour-changing pairs kept apart, {ns} refactoring pairs identified' + (f'; FAILURES: {eb}' if eb else ''))
    bad.extend('equivalence canonicaliser: ' + x for x in eb)
    for name, verdict, detail in results:
        want = 'passed' if (name == 'unmodified-copy' or name in quiet_names) else 'violation'
        ok = verdict == want or verdict == 'skipped'
        print(f'  SELFTEST {name}: {verdict}' + ('' if ok else f' (expected {want})') + (f' - {detail[:200]}' if want == 'violation' or not ok else ''))
        if not ok:
            bad.append(f'{name}: {verdict}, expected {want}')
    # add to the evidence written by the rule run
    ev_path = os.path.join(report.OUT, 'evidence', f'{prop}.json')
    try:
        ev = json.load(open(ev_path))
        ev['coverage']['selftest'] = {
            'method': 'seeded property-breaking edits applied to scratch copies of the current source: the analyser must report each; behaviour-preserving refactors of the same code (refactors/): the analyser must stay quiet; unmodified copy must pass',
            'variants': [{'name': n, 'verdict': v, 'detail': d} for n, v, d in results],
            'detected': sum(1 for n, v, d in results if v == 'violation'),
            'refactors_quiet': sum(1 for n, v, d in results if n in quiet_names and v == 'passed'),
            'skipped': sum(1 for n, v, d in results if v == 'skipped'),
            'missed': bad,
        }
        if bad:
            ev['coverage'].setdefault('analysis_errors', []).extend('selftest ' + b for b in bad)
        json.dump(ev, open(ev_path, 'w'), indent=1, default=str)
    except (OSError, ValueError, KeyError):
        pass
    if bad:
        for b in bad:
            print(f'ANALYSIS-ERROR property={prop} selftest: {b}')
        return 2
    return 0
