"""Forward substitution of straight-line / branching function bodies into one normal-form expression per
path: each path is (tuple of (guard normal form, polarity), result normal form).  No arithmetic is executed
except folding of literal sub-expressions; everything else stays symbolic."""
import ast
import operator

from .norm import nf, show

_OPS = {'Add': operator.add, 'Sub': operator.sub, 'Mult': operator.mul, 'LShift': operator.lshift,
        'RShift': operator.rshift, 'BitAnd': operator.and_, 'BitOr': operator.or_, 'BitXor': operator.xor,
        'Pow': operator.pow, 'FloorDiv': operator.floordiv, 'Mod': operator.mod}


class TooComplex(Exception):
    pass


def _const(t):
    if isinstance(t, tuple) and len(t) == 2 and t[0] == 'const':
        try:
            v = ast.literal_eval(t[1])
        except Exception:
            return None
        if isinstance(v, (int, float)) and not isinstance(v, bool):
            return v
    return None


def mk_const(v):
    if isinstance(v, float) and v == int(v) and abs(v) < 1 << 62:
        v = int(v)
    return ('const', repr(v))


def simp(t):
    """Fold literal arithmetic inside a normal-form tuple; normalise integral floats to ints."""
    if not isinstance(t, tuple):
        return t
    if t and t[0] == 'const':
        c = _const(t)
        return mk_const(c) if c is not None else t
    t = tuple(simp(x) for x in t)
    if t and t[0] in _OPS:
        vals = [_const(x) for x in t[1:]]
        if all(v is not None for v in vals) and len(vals) >= 2:
            try:
                acc = vals[0]
                for v in vals[1:]:
                    if t[0] in ('LShift', 'Pow') and (not isinstance(v, int) or abs(v) > 256):
                        return t
                    acc = _OPS[t[0]](acc, v)
                return mk_const(acc)
            except Exception:
                return t
        if t[0] in ('Add', 'Mult', 'BitAnd', 'BitOr', 'BitXor'):
            # partial folding of the constant operands of commutative operators
            consts = [v for v in vals if v is not None]
            if len(consts) >= 2:
                acc = consts[0]
                for v in consts[1:]:
                    acc = _OPS[t[0]](acc, v)
                rest = [x for x, v in zip(t[1:], vals) if v is None]
                return (t[0],) + tuple(sorted(rest + [mk_const(acc)], key=repr))
    if t and t[0] == 'USub':
        c = _const(t[1])
        if c is not None:
            return mk_const(-c)
    return t


class Path:
    def __init__(self, conds, kind, value, env=None):
        self.conds = conds
        self.kind = kind
        self.value = value
        self.env = env or {}

    def key(self):
        return (tuple(sorted((show(c), p) for c, p in self.conds)), self.kind, show(self.value) if self.value is not None else None)


def paths(func, fold=None, roles=None, max_paths=256, inline=None, ignore_calls=('logging', 'logger', 'print')):
    """roles: dict local-name -> canonical name (for comparing siblings).  inline: callable(call) ->
    (FunctionDef) to inline one level."""
    roles = roles or {}
    out = []

    def sub_of(env):
        d = {k: ('name', v) for k, v in roles.items()}
        d.update(env)
        return d

    def ev(e, env):
        return simp(nf(e, sub_of(env), fold))

    def run(stmts, env, conds):
        """returns list of (env, conds) that fall through"""
        states = [(env, conds)]
        for st in stmts:
            nxt = []
            for env, conds in states:
                nxt.extend(step(st, env, conds))
            states = nxt
            if len(states) + len(out) > max_paths:
                raise TooComplex('too many paths')
        return states

    def step(st, env, conds):
        if isinstance(st, ast.Expr):
            if isinstance(st.value, ast.Yield) and st.value.value is not None:
                out.append(Path(conds, 'yield', ev(st.value.value, env)))
            return [(env, conds)]
        if isinstance(st, ast.Assign):
            v = ev(st.value, env)
            env = dict(env)
            for t in st.targets:
                if isinstance(t, ast.Name):
                    env[t.id] = v
                elif isinstance(t, (ast.Tuple, ast.List)):
                    for i, el in enumerate(t.elts):
                        if isinstance(el, ast.Name):
                            env[el.id] = ('elt', v, i) if not (isinstance(v, tuple) and v and v[0] == 'seq') else v[1 + i]
                else:
                    env['@' + ast.unparse(t)] = v
            return [(env, conds)]
        if isinstance(st, ast.AnnAssign):
            if st.value is not None and isinstance(st.target, ast.Name):
                env = dict(env)
                env[st.target.id] = ev(st.value, env)
            return [(env, conds)]
        if isinstance(st, ast.AugAssign):
            env = dict(env)
            cur = ev(st.target, env)
            key = st.target.id if isinstance(st.target, ast.Name) else '@' + ast.unparse(st.target)
            if not isinstance(st.target, ast.Name) and key in env:
                cur = env[key]
            opn = type(st.op).__name__
            v = ev(st.value, env)
            if opn in ('Add', 'Mult', 'BitAnd', 'BitOr', 'BitXor'):
                parts = []
                for p in (cur, v):
                    if isinstance(p, tuple) and p and p[0] == opn:
                        parts.extend(p[1:])
                    else:
                        parts.append(p)
                new = (opn,) + tuple(sorted(parts, key=repr))
            else:
                new = (opn, cur, v)
            env[key] = simp(new)
            return [(env, conds)]
        if isinstance(st, ast.If):
            g = ev(st.test, env)
            c = _const_truth(g)
            res = []
            if c is not False:
                res += run(st.body, env, conds + ((g, True),) if c is None else conds)
            if c is not True:
                res += run(st.orelse, env, conds + ((g, False),) if c is None else conds)
            return res
        if isinstance(st, ast.Return):
            out.append(Path(conds, 'return', ev(st.value, env) if st.value is not None else None, env))
            return []
        if isinstance(st, ast.Raise):
            exc = st.exc
            name = ast.unparse(exc.func) if isinstance(exc, ast.Call) else (ast.unparse(exc) if exc else 'reraise')
            out.append(Path(conds, 'raise', ('raise', name)))
            return []
        if isinstance(st, (ast.Pass, ast.Assert, ast.Import, ast.ImportFrom, ast.Global)):
            return [(env, conds)]
        if isinstance(st, ast.Try):
            # normal path only
            res = run(st.body, env, conds)
            out2 = []
            for e2, c2 in res:
                out2 += run(st.orelse, e2, c2)
            res = out2
            if st.finalbody:
                out3 = []
                for e2, c2 in res:
                    out3 += run(st.finalbody, e2, c2)
                res = out3
            return res
        if isinstance(st, ast.With):
            return run(st.body, env, conds)
        raise TooComplex(f'statement {type(st).__name__}')

    rest = run(func.body, {}, ())
    for env, conds in rest:
        out.append(Path(conds, 'return', None, env))
    return out


def _const_truth(g):
    if isinstance(g, tuple) and g and g[0] == 'const':
        try:
            return bool(ast.literal_eval(g[1]))
        except Exception:
            return None
    return None
