"""Flow-insensitive def-use facts inside one function: which names an expression transitively depends on
through the assignments of the function (loop-carried dependencies included, because every assignment in
the function counts)."""
import ast

from .loader import walk_no_nested
from .norm import attr_chain


def assignments(func):
    """name -> list of (value expression, statement).  AugAssign counts as a definition that also uses
    the target.  For-loop targets depend on the iterable.  Attribute targets are keyed by their dotted chain."""
    out = {}

    def add(target, value, st, extra=None):
        if isinstance(target, ast.Name):
            out.setdefault(target.id, []).append((value, st, extra))
        elif isinstance(target, (ast.Tuple, ast.List)):
            for e in target.elts:
                add(e, value, st, extra)
        elif isinstance(target, ast.Starred):
            add(target.value, value, st, extra)
        elif isinstance(target, ast.Attribute):
            ch = attr_chain(target)
            if ch:
                out.setdefault(ch, []).append((value, st, extra))
        elif isinstance(target, ast.Subscript):
            ch = attr_chain(target.value)
            if ch:
                out.setdefault(ch, []).append((value, st, extra))
    for n in walk_no_nested(func):
        if isinstance(n, ast.Assign):
            for t in n.targets:
                add(t, n.value, n)
        elif isinstance(n, ast.AnnAssign) and n.value is not None:
            add(n.target, n.value, n)
        elif isinstance(n, ast.AugAssign):
            add(n.target, n.value, n, extra=n.target)
        elif isinstance(n, (ast.For, ast.AsyncFor)):
            add(n.target, n.iter, n)
        elif isinstance(n, (ast.With, ast.AsyncWith)):
            for it in n.items:
                if it.optional_vars is not None:
                    add(it.optional_vars, it.context_expr, n)
        elif isinstance(n, ast.NamedExpr):
            add(n.target, n.value, n)
    return out


def names_of(expr):
    """Names and dotted attribute chains read by an expression."""
    out = set()
    if expr is None:
        return out
    for n in ast.walk(expr):
        if isinstance(n, ast.Name):
            out.add(n.id)
        elif isinstance(n, ast.Attribute):
            ch = attr_chain(n)
            if ch:
                out.add(ch)
    return out


def closure(func, expr, stop=()):
    """All names `expr` transitively depends on."""
    defs = assignments(func)
    seen = set()
    todo = list(names_of(expr))
    while todo:
        n = todo.pop()
        if n in seen:
            continue
        seen.add(n)
        if n in stop:
            continue
        for value, st, extra in defs.get(n, ()):
            for m in names_of(value):
                if m not in seen:
                    todo.append(m)
            if extra is not None:
                for m in names_of(extra):
                    if m not in seen:
                        todo.append(m)
    return seen


def inline_locals(func, expr, depth=4, keep=()):
    """Substitute local names that have exactly one plain assignment in `func` by their defining expression
    (a refactor that merely names a sub-expression must not change a rule's verdict)."""
    import copy
    defs = assignments(func)
    params = {a.arg for a in func.args.args + func.args.kwonlyargs}

    class T(ast.NodeTransformer):
        def __init__(self):
            self.changed = False

        def visit_Name(self, node):
            if isinstance(node.ctx, ast.Load) and node.id not in params and node.id not in keep:
                d = defs.get(node.id, [])
                if len(d) == 1 and d[0][2] is None and isinstance(d[0][1], (ast.Assign, ast.AnnAssign)):
                    st = d[0][1]
                    tg = st.targets[0] if isinstance(st, ast.Assign) else st.target
                    if isinstance(tg, ast.Name):
                        self.changed = True
                        return copy.deepcopy(d[0][0])
            return node
    e = copy.deepcopy(expr)
    for _ in range(depth):
        t = T()
        e = t.visit(e)
        if not t.changed:
            break
    return ast.fix_missing_locations(e)
