"""Helpers shared by the rule modules."""
import ast

from .. import bits, cfg as cfgmod
from ..loader import AnalysisError, Unfoldable, walk_no_nested
from ..norm import attr_chain, nf, show


def fold_for(ix, modname):
    return lambda e: ix.fold(modname, e)


def resolver(ix, modname):
    """resolve_call callback for bits.Interp: inline repository functions, interpret constructors."""
    def r(call):
        res = ix.resolve_dotted(modname, call.func)
        if res and res[0] == 'def':
            if isinstance(res[2], ast.FunctionDef):
                return ('inline', (res[1], res[2]))
            init = ix.class_attr(res[1], res[2], '__init__')
            if init and init[0] == 'def':
                return ('init', (init[1], res[2], init[2]))
            return ('ctor', res[2].name)
        return None
    return r


def interp(ix, modname, func, params, offset_name=None):
    it = bits.Interp(ix, modname, func, params, resolve_call=resolver(ix, modname),
                     fold=fold_for(ix, modname), offset_name=offset_name)
    it.fold_for = lambda m: fold_for(ix, m)
    return it


def site(modname, qual):
    return f'{modname}:{qual}'


def assign_str(assign):
    if not assign:
        return 'all'
    return ','.join(f'{k}={v}' for k, v in sorted(assign.items()))


# ---- spec building blocks over input bit symbols
def F(src, hi, lo, assign=None):
    """unsigned field src[hi:lo]"""
    a = bits.Aff()
    for i in range(lo, hi + 1):
        a = a + bits.Aff(0, {f'{src}.{i}': 1 << (i - lo)})
    return a.subst(assign or {})


def twos(src, hi, lo, assign=None):
    """two's complement field src[hi:lo] (sign bit hi)"""
    a = F(src, hi - 1, lo) if hi > lo else bits.Aff()
    a = a + bits.Aff(0, {f'{src}.{hi}': -(1 << (hi - lo))})
    return a.subst(assign or {})


def bigend(src, first, n, assign=None, signed=False):
    """big-endian integer of bytes src{first}..src{first+n-1}"""
    a = bits.Aff()
    for k in range(n):
        shift = 8 * (n - 1 - k)
        if signed and k == 0:
            a = a + twos(f'{src}{first + k}', 7, 0).scale(1 << shift)
        else:
            a = a + F(f'{src}{first + k}', 7, 0).scale(1 << shift)
    return a.subst(assign or {})


class SpecNeedsBit(Exception):
    pass


def need(assign, sym):
    if sym not in assign:
        raise SpecNeedsBit(sym)
    return assign[sym]


# ---- generic AST helpers
def returns_of(func):
    return [n for n in walk_no_nested(func) if isinstance(n, ast.Return)]


def calls_in(node):
    """Call nodes inside `node` (not in nested defs), in source order."""
    return sorted((n for n in walk_no_nested(node) if isinstance(n, ast.Call)), key=lambda c: (c.lineno, c.col_offset))


def find_calls(func, name_suffix):
    """calls whose dotted name ends with name_suffix (e.g. 'self.file.seek' or '.seek')."""
    out = []
    for c in calls_in(func):
        ch = attr_chain(c.func)
        if ch is not None and (ch == name_suffix or ch.endswith(name_suffix)):
            out.append(c)
    return out


def stmt_containing(node):
    p = node
    while p is not None and not isinstance(p, ast.stmt):
        p = getattr(p, '_parent', None)
    return p


def prop_mask(ix, modname, func, attr_name='attributes'):
    """For a property of the form `return self.X & MASK (!= | ==) 0` (or bool()/not forms) return
    (mask, polarity) where polarity True means 'bit(s) set'.  None if the shape is not recognised."""
    rets = returns_of(func)
    if len(rets) != 1 or rets[0].value is None:
        return None
    e = rets[0].value
    pol = True
    while True:
        if isinstance(e, ast.UnaryOp) and isinstance(e.op, ast.Not):
            pol = not pol
            e = e.operand
            continue
        if isinstance(e, ast.Call) and attr_chain(e.func) == 'bool' and len(e.args) == 1:
            e = e.args[0]
            continue
        break
    cmp_const = None
    if isinstance(e, ast.Compare) and len(e.ops) == 1:
        try:
            c = ix.fold(modname, e.comparators[0])
        except Unfoldable:
            return None
        if isinstance(e.ops[0], ast.NotEq):
            cmp_const = ('ne', c)
        elif isinstance(e.ops[0], ast.Eq):
            cmp_const = ('eq', c)
        elif isinstance(e.ops[0], ast.Gt) and c == 0:
            cmp_const = ('ne', 0)
        else:
            return None
        e = e.left
    if not (isinstance(e, ast.BinOp) and isinstance(e.op, ast.BitAnd)):
        return None
    mask = None
    other = None
    for a, b in ((e.left, e.right), (e.right, e.left)):
        try:
            mask = ix.fold(modname, a)
            other = b
            break
        except Unfoldable:
            continue
    if mask is None or not isinstance(mask, int):
        return None
    ch = attr_chain(other)
    if ch is None or not ch.endswith(attr_name):
        return None
    if cmp_const is not None:
        kind, c = cmp_const
        if c == 0:
            pol = pol if kind == 'ne' else not pol
        elif c == mask and (mask & (mask - 1)) == 0:
            pol = pol if kind == 'eq' else not pol
        else:
            return (mask, pol, c, kind)
    return (mask, pol)


def get_property(ix, modname, clsname, prop):
    f = ix.get_func(modname, f'{clsname}.{prop}')
    return f


def table_keys(ix, modname, name):
    v = ix.fold_name(modname, name)
    if isinstance(v, dict):
        return set(v.keys())
    return set(v)


def func_ref_name(v):
    from ..loader import FuncRef
    if isinstance(v, FuncRef):
        return v.qname
    return None


# ---- rejection guards: `if G: raise ...` and `assert C`
def reject_guards(func):
    """Yield (guard_expr, negated, node): the condition under which the function refuses its input.
    For `if G: raise` negated=False (rejects when G); for `assert C` negated=True (rejects when not C)."""
    helpers = _assert_like_helpers(func)
    for n in walk_no_nested(func):
        if isinstance(n, ast.If) and n.body and isinstance(n.body[0], ast.Raise):
            yield n.test, False, n
        elif isinstance(n, ast.Assert):
            yield n.test, True, n
        elif isinstance(n, ast.Expr) and isinstance(n.value, ast.Call) and n.value.args:
            # a call of a helper that raises unless its (first) argument holds is an assertion of that argument
            f = n.value.func
            name = f.attr if isinstance(f, ast.Attribute) and isinstance(f.value, ast.Name) and f.value.id in ('self', 'cls') else (f.id if isinstance(f, ast.Name) else None)
            if name in helpers:
                yield n.value.args[0], True, n


def _assert_like_helpers(func):
    """names of functions of the same class / module whose body is `if not <first parameter>: raise ...`"""
    out = set()
    scope = getattr(func, '_parent', None)
    cands = []
    while scope is not None:
        if isinstance(scope, (ast.ClassDef, ast.Module)):
            cands += [g for g in scope.body if isinstance(g, ast.FunctionDef)]
        scope = getattr(scope, '_parent', None)
    for g in cands:
        ps = [a.arg for a in g.args.args if a.arg not in ('self', 'cls')]
        body = [s for s in g.body if not isinstance(s, ast.Pass)]
        if ps and len(body) == 1 and isinstance(body[0], ast.If) and not body[0].orelse and body[0].body and isinstance(body[0].body[0], ast.Raise):
            t = body[0].test
            if isinstance(t, ast.UnaryOp) and isinstance(t.op, ast.Not) and isinstance(t.operand, ast.Name) and t.operand.id == ps[0]:
                out.add(g.name)
    return out


def linear_guard(ix, modname, test, negated, env_names=None):
    """Decompose a comparison guard into (linear form Rat L, op, constant c) meaning 'rejects when L op c',
    folding module constants.  Returns a list (conjunction for chains) or None."""
    from .. import alg
    from ..norm import _NEG
    fold = fold_for(ix, modname)
    out = []
    if isinstance(test, ast.Compare):
        items = list(zip([test.left] + test.comparators[:-1], test.ops, test.comparators))
        # a chain a<b<c accepts when all hold; rejecting condition of `assert chain` is any failing link
        for a, op, b in items:
            env = alg.Env(fold=fold, funcs=('len',))
            try:
                L = env.conv(a) - env.conv(b)
            except alg.NotAlgebraic:
                return None
            optype = type(op)
            if negated:
                if optype not in _NEG:
                    return None
                optype = _NEG[optype]
            # L op 0 ; move the constant part to the right-hand side
            c = -L.n.t.get((), 0) if L.d.is_const() else 0
            if not L.d.is_const():
                return None
            Lc = alg.Rat(L.n + alg.Poly.const(c))
            out.append((Lc, optype, c))
        if not negated and len(items) > 1:
            return None     # `if a < x < b: raise` is a conjunction: not handled
        return out
    return None


def rejects_interval(optype, c):
    """The set {x : x op c} as (lo, hi, lo_open, hi_open, complement_of_point)"""
    inf = float('inf')
    if optype is ast.Lt:
        return ('range', -inf, c, True)      # x < c
    if optype is ast.LtE:
        return ('range', -inf, c, False)     # x <= c
    if optype is ast.Gt:
        return ('range', c, inf, True)
    if optype is ast.GtE:
        return ('range', c, inf, False)
    if optype is ast.NotEq:
        return ('allbut', c)
    if optype is ast.Eq:
        return ('point', c)
    return None


def interval_disjoint(rej, allowed):
    """allowed = (lo, hi) closed interval of conformant values; True if the rejecting set misses it."""
    lo, hi = allowed
    if rej is None:
        return None
    if rej[0] == 'point':
        return not (lo <= rej[1] <= hi)
    if rej[0] == 'allbut':
        return lo == hi == rej[1]
    _, a, b, strict = rej
    if a == float('-inf'):
        # x < b  or x <= b
        return lo >= b if strict else lo > b
    # x > a or x >= a
    return hi <= a if strict else hi < a


def nfs(src, subst=None):
    """Normal form (rendered) of an expression given as source text: for writing expectations."""
    return show(nf(ast.parse(src, mode='eval').body, subst))


# ------------------------------------------------------------------------------------------------ object state
MUTATORS = ('append', 'extend', 'insert', 'remove', 'pop', 'clear', 'sort', 'reverse', 'update', 'setdefault', 'popitem', 'add', 'discard',
            'appendleft', 'popleft', 'intersection_update', 'difference_update', 'symmetric_difference_update')


def mutations_of(func, chain_text):
    """nodes of func that change the object held in `chain_text` (e.g. 'self.objects'): rebinding, item / slice stores and
    deletes, augmented assignment, in-place methods - on the attribute itself or on a local that was bound to it"""
    import ast as _ast
    from ..norm import attr_chain as _chain
    aliases = {chain_text}
    for n in _ast.walk(func):
        if isinstance(n, _ast.Assign) and len(n.targets) == 1 and isinstance(n.targets[0], _ast.Name):
            v = n.value
            # x = a.b  |  x = a.b or {}  |  x = a.b if c else ...
            cands = [v] + (list(v.values[:1]) if isinstance(v, _ast.BoolOp) and isinstance(v.op, _ast.Or) else []) + ([v.body, v.orelse] if isinstance(v, _ast.IfExp) else [])
            if any(_chain(c) == chain_text for c in cands):
                aliases.add(n.targets[0].id)
    out = []
    for n in _ast.walk(func):
        if isinstance(n, (_ast.Assign, _ast.AugAssign, _ast.AnnAssign, _ast.Delete)):
            tgs = n.targets if isinstance(n, (_ast.Assign, _ast.Delete)) else [n.target]
            for t in tgs:
                for x in _ast.walk(t):
                    if isinstance(x, _ast.Subscript) and _chain(x.value) in aliases and isinstance(x.ctx, (_ast.Store, _ast.Del)):
                        out.append(n)
                    elif isinstance(x, _ast.Attribute) and _chain(x) == chain_text and isinstance(x.ctx, (_ast.Store, _ast.Del)):
                        out.append(n)
            if isinstance(n, _ast.AugAssign) and _chain(n.target) in aliases:
                out.append(n)
        elif isinstance(n, _ast.Call) and isinstance(n.func, _ast.Attribute) and n.func.attr in MUTATORS and _chain(n.func.value) in aliases:
            out.append(n)
    return out


def init_closure(cls, roots=('__init__',)):
    """names of the methods of cls reachable from the constructor through self.m() calls"""
    import ast as _ast
    methods = {f.name: f for f in cls.body if isinstance(f, _ast.FunctionDef)}
    seen, todo = set(), [r for r in roots if r in methods]
    while todo:
        m = todo.pop()
        if m in seen:
            continue
        seen.add(m)
        for c in _ast.walk(methods[m]):
            if isinstance(c, _ast.Call) and isinstance(c.func, _ast.Attribute) and isinstance(c.func.value, _ast.Name) and c.func.value.id == 'self' and c.func.attr in methods:
                todo.append(c.func.attr)
    return seen


def check_fresh_returns(rep, rule, ix, modname, extra_modules=(), only=None):
    """a local that is bound to the result of a function of the same module and then changed in place: that function must hand
    out a new object on every call (a display, comprehension or constructor call) - a module- or class-level object handed out
    and changed by the caller carries one call's data into the next (another file, another object)"""
    import ast as _ast
    from ..norm import attr_chain as _chain
    m = ix.module(modname)
    funcs = {}
    for st in m.tree.body:
        if isinstance(st, _ast.FunctionDef):
            funcs[st.name] = st
        elif isinstance(st, _ast.ClassDef):
            for g in st.body:
                if isinstance(g, _ast.FunctionDef):
                    funcs.setdefault(g.name, g)
                    funcs[f'{st.name}.{g.name}'] = g
    callers = dict(funcs)
    for em in extra_modules:
        for st in ix.module(em).tree.body:
            if isinstance(st, _ast.ClassDef):
                for g in st.body:
                    if isinstance(g, _ast.FunctionDef):
                        funcs.setdefault(g.name, g)
            elif isinstance(st, _ast.FunctionDef):
                funcs.setdefault(st.name, st)
    n = 0
    for q, f in sorted(callers.items()):
        if '.' not in q and any(q == k.split('.')[-1] and '.' in k for k in callers):
            continue
        if only is not None and q not in only:
            continue
        for a in _ast.walk(f):
            if not (isinstance(a, _ast.Assign) and len(a.targets) == 1 and isinstance(a.targets[0], _ast.Name) and isinstance(a.value, _ast.Call)):
                continue
            callee = _chain(a.value.func) or ''
            key = callee[5:] if callee.startswith('self.') else callee
            if not key and isinstance(a.value.func, _ast.Attribute):
                key = a.value.func.attr
            g = (funcs.get(key) or funcs.get(key.split('.')[-1])) if key else None
            if g is None or key.split('.')[-1] not in {k.split('.')[-1] for k in funcs}:
                continue
            muts = [x for x in mutations_of(f, a.targets[0].id) if not isinstance(x, _ast.Assign) or any(isinstance(t, _ast.Subscript) for t in x.targets)]
            if not muts:
                continue
            rets = returns_of(g)
            if not rets:
                continue
            n += 1
            cached = [ast.unparse(d) for d in g.decorator_list if any(w in ast.unparse(d) for w in ('lru_cache', 'cache', 'memo'))]
            fresh = not cached and all(isinstance(r.value, (_ast.Dict, _ast.List, _ast.Set, _ast.ListComp, _ast.DictComp, _ast.SetComp, _ast.Tuple)) or
                        (isinstance(r.value, _ast.Call) and (_chain(r.value.func) or '') in ('dict', 'list', 'set', 'collections.OrderedDict', 'collections.defaultdict', 'copy.copy', 'copy.deepcopy'))
                        for r in rets)
            rep.ob(rule, f'{modname}:{q}', f'`{a.targets[0].id}` (changed in place here) comes from {key}(), which returns a new object each time', fresh,
                   found=('@' + cached[0] + ' ' if cached else '') + '; '.join(ast.unparse(r.value)[:60] for r in rets), required='a display / comprehension / constructor call, not a shared module- or class-level object',
                   node=a, module=m)
    return n


def check_param_attrs_unmutated(rep, rule, ix, modname, clsname):
    """an object handed to the constructor and kept (self.a = param) belongs to the caller: no method changes it in place"""
    import ast as _ast
    m = ix.module(modname)
    cls = ix.get_class(modname, clsname)
    init = next((f for f in cls.body if isinstance(f, _ast.FunctionDef) and f.name == '__init__'), None)
    if init is None:
        return 0
    params = {a.arg for a in init.args.args[1:]} | {a.arg for a in init.args.kwonlyargs}
    kept = {}
    for a in _ast.walk(init):
        if isinstance(a, _ast.Assign) and len(a.targets) == 1 and isinstance(a.targets[0], _ast.Attribute) and isinstance(a.targets[0].value, _ast.Name) \
                and a.targets[0].value.id == 'self' and isinstance(a.value, _ast.Name) and a.value.id in params:
            kept[a.targets[0].attr] = a.value.id
    n = 0
    for attr, pn in sorted(kept.items()):
        for f in cls.body:
            if not isinstance(f, _ast.FunctionDef):
                continue
            muts = [x for x in mutations_of(f, f'self.{attr}') if not (isinstance(x, _ast.Assign) and any(isinstance(t, _ast.Attribute) and t.attr == attr for t in x.targets))
                    and not (isinstance(x, _ast.AugAssign) and isinstance(x.value, _ast.Constant) and isinstance(x.value.value, (int, float)))]    # a counter: += number rebinds
            if f.name == '__init__':
                muts += [x for x in mutations_of(f, pn) if not isinstance(x, _ast.Assign) or any(isinstance(t, _ast.Subscript) for t in x.targets)]
            n += 1
            rep.ob(rule, f'{modname}:{clsname}.{f.name}', f'the caller\'s `{pn}` (kept as self.{attr}) is not changed in place', not muts,
                   found='; '.join(ast.unparse(stmt_containing(x) if not isinstance(x, _ast.stmt) else x)[:70] for x in muts), required='copy before changing',
                   node=muts[0] if muts else f, module=m, nontrivial=bool(muts) or n <= 3)
    return n
