"""C20 File type identification recognises every supported format and never crashes (structural clauses)."""
import ast

from .. import cfg as cfgmod, exc, rx
from ..loader import AnalysisError, FuncRef, RegexVal, Unfoldable, walk_no_nested
from ..norm import nf, show, attr_chain
from . import common, imports, typeflow
from .C01 import check_sul_regex, SPEC_SEQ, SPEC_LEN, SPEC_VER, SPEC_STRUCT

EXPLANATION = (
    'Decides on util/bin_file_type.py and what it reaches: (1) every registered detector rewinds before its first '
    'read, returns only string constants / f-strings, and returns only codes it is registered under (or the empty '
    'string); all codes are described; (2) precedence: the text formats (LAS, DAT) are registered before the generic '
    'ASCII test; a detector for each of the five formats is registered; the fixed signatures registered before them '
    'cannot start a valid file of the five formats (leading-byte languages are disjoint); (3) binary_file_type rewinds '
    'on every normal exit and stops at the first non-empty answer; (4) exception-escape fixpoint over the resolved call '
    'graph from binary_file_type: no exception class from an explicit raise or from the frozen table of partial '
    'operations (int/float of text, decode, struct unpacking, gmtime, datetime, division by data) may escape; '
    '(5) the storage-unit-label regexes of the RP66V1 detector accept every conformant label; best-padding settings '
    'reach the LIS reader on the parameters of the same name.')
NOT_DECIDED = ('promptness as wall time; AssertionError / IndexError / KeyError escapes (assert truth and subscript bounds are '
               'value properties: counted and listed, not decided); identification of every generated file.')
ASSUMPTIONS = ['I/O errors of the operating system are outside the fault model', 'the compiled extensions raise what their Python fallbacks raise']
TECHNIQUE = 'static analysis: registry rules, CFG dominance, exception-escape fixpoint over a resolved call graph, regex-automaton inclusion, argument binding'

BF = 'TotalDepth.util.bin_file_type'
LF = 'TotalDepth.LIS.core.File'
FIVE = {'RP66V1': ['RP66V1'], 'LIS': ['LIS', 'LISt', 'LIStr'], 'LAS': ['LAS1.2', 'LAS2.0'], 'BIT': ['BIT'], 'DAT': ['DAT']}


def _n(e):
    return ast.unparse(e).replace(' ', '')


def _registry(ix):
    fmap = ix.fold_name(BF, 'FUNCTION_ID_MAP')
    out = []
    for e in fmap:
        if not (isinstance(e, tuple) and len(e) == 2 and isinstance(e[0], FuncRef)):
            raise AnalysisError('FUNCTION_ID_MAP entry is not (function, code)')
        out.append((e[0].qname.split(':')[-1], e[1]))
    return out


def _returned_codes(ix, f, depth=0):
    """Set of string constants a detector can return (following helper calls one level), or None if not constant."""
    out = set()
    for r in common.returns_of(f):
        v = r.value
        if v is None:
            return None
        if isinstance(v, ast.Constant) and isinstance(v.value, str):
            out.add(v.value)
        elif isinstance(v, ast.Constant) and v.value == 0:
            out.add('')         # falsy non-string: reported separately
        elif isinstance(v, ast.JoinedStr):
            out.add(('fstring', _n(v)))
        elif isinstance(v, ast.IfExp) and all(isinstance(x, ast.Constant) and isinstance(x.value, str) for x in (v.body, v.orelse)):
            out |= {v.body.value, v.orelse.value}
        elif isinstance(v, ast.Call) and depth < 2:
            g = ix.find_func(BF, attr_chain(v.func) or '')
            sub = _returned_codes(ix, g, depth + 1) if g is not None else None
            if sub is None:
                return None
            out |= sub
        elif isinstance(v, ast.Name) and depth < 3:
            out.add(('name', v.id))
        else:
            return None
    return out


def check_detect(rep, ix):
    m = ix.module(BF)
    reg = _registry(ix)
    desc = ix.fold_name(BF, 'BINARY_FILE_TYPE_DESCRIPTIONS')
    by_fn = {}
    for fn, code in reg:
        by_fn.setdefault(fn, []).append(code)
    rep.ob('R-C20-DETECT', f'{BF}:FUNCTION_ID_MAP', f'{len(reg)} registered (detector, code) pairs', len(reg) >= 20, found=str(len(reg)), module=m)
    for fn, code in reg:
        rep.ob('R-C20-DETECT', f'{BF}:FUNCTION_ID_MAP', f'code {code} of {fn} is described', code in desc, module=m)
    for fn, codes in by_fn.items():
        f = ix.get_func(BF, fn)
        site = f'{BF}:{fn}'
        rep.fn(site)
        # rewind before first read (directly or through the helper every path starts with)
        ok = _rewinds_first(ix, f)
        rep.ob('R-C20-DETECT', site, 'rewinds the file before its first read', ok, node=f, module=m)
        rc = _returned_codes(ix, f)
        if rc is None:
            rep.ob('R-C20-DETECT', site, 'returns only string constants', False, found='a non-constant return', node=f, module=m)
            continue
        consts = {c for c in rc if isinstance(c, str)}
        fstr = [c for c in rc if isinstance(c, tuple)]
        allowed = set(codes) | {''}
        if fn in ('_rp66v1_tif', '_rp66v1_tif_r'):
            allowed |= {'RP66V1t', 'RP66V1tr', 'RP66V1'}
        if fn.startswith('_lasv'):
            ok = consts <= allowed and all(c[0] == 'fstring' and c[1].startswith("f'LAS{") for c in fstr)
        elif fn.startswith('_rp66v1_tif'):
            ok = consts <= allowed and all(c[0] == 'fstring' and c[1] in ("f'{rp66}t'", "f'{rp66}tr'") or c == ('name', 'rp66') for c in fstr)
        else:
            ok = consts <= allowed and not fstr
        rep.ob('R-C20-DETECT', site, f'returns only its registered code(s) {sorted(codes)} or the empty string', ok,
               found=str(sorted(map(str, rc))), required=str(sorted(allowed)), node=f, module=m)
    sup = ix.module(BF).assigns.get('BINARY_FILE_TYPES_SUPPORTED')
    ok = bool(sup) and _n(sup[-1]) == '{v[1]forvinFUNCTION_ID_MAP}'
    rep.ob('R-C20-DETECT', f'{BF}:BINARY_FILE_TYPES_SUPPORTED', 'supported codes = codes of the registry', ok, module=m)
    rep.ob('R-C20-DETECT', f'{BF}:BINARY_FILE_TYPE_DESCRIPTIONS', 'described codes = registered codes', set(desc) == {c for _, c in reg},
           found=str(sorted(set(desc) ^ {c for _, c in reg})), module=m)
    lis = ix.fold_name(BF, 'LIS_BINARY_FILE_TYPES')
    rep.ob('R-C20-DETECT', f'{BF}:LIS_BINARY_FILE_TYPES', 'LIS codes are LIS, LISt, LIStr', set(lis) == {'LIS', 'LISt', 'LIStr'}, found=str(sorted(lis)), module=m)


def _rewinds_first(ix, f):
    g = cfgmod.CFG(f)
    arg = f.args.args[0].arg
    seeks = [s for s in g.stmts() if any(_n(c) == f'{arg}.seek(0)' for c in cfgmod.calls_at(s))]
    reads = [s for s in g.stmts() if any(_n(c.func) in (f'{arg}.read', f'{arg}.readline') for c in cfgmod.calls_at(s)) or
             (isinstance(s, ast.For) and _n(s.iter) == arg)]
    helpers = [s for s in g.stmts() if any(any(isinstance(a, ast.Name) and a.id == arg for a in c.args) and ix.find_func(BF, attr_chain(c.func) or '') is not None
                                           for c in cfgmod.calls_at(s))]
    if reads:
        return all(not g.path_avoiding(g.ENTRY, r, set(seeks), skip_exc=True) for r in reads)
    if helpers:
        # delegates: the helper must rewind first
        for s in helpers:
            for c in cfgmod.calls_at(s):
                h = ix.find_func(BF, attr_chain(c.func) or '')
                if h is not None and any(isinstance(a, ast.Name) and a.id == arg for a in c.args):
                    if not _rewinds_first(ix, h):
                        return False
        return True
    # library delegates (SEGY.is_segy, DAT_parser) preceded by a seek
    return bool(seeks)


SIGNATURES_FIRST_BYTE = {
    # leading-byte language of a valid file of each of the five formats
    'RP66V1': set(b' 0123456789'), 'LAS': set(b'~# \t\r\n'), 'DAT': set(b'ABCDEFGHIJKLMNOPQRSTUVWXYZ0123456789 \t\r\n'),
    'LIS(TIF)/BIT': {0},
}


def check_order(rep, ix):
    m = ix.module(BF)
    reg = _registry(ix)
    codes = [c for _, c in reg]
    pos = {c: i for i, c in reversed(list(enumerate(codes)))}
    for fmt, cs in FIVE.items():
        for c in cs:
            rep.ob('R-C20-ORDER', f'{BF}:FUNCTION_ID_MAP', f'a detector for {c} ({fmt}) is registered', c in pos, module=m)
    for c in ('LAS1.2', 'LAS2.0', 'DAT'):
        ok = c in pos and 'ASCII' in pos and pos[c] < pos['ASCII']
        rep.ob('R-C20-ORDER', f'{BF}:FUNCTION_ID_MAP', f'{c} (ASCII text) is tried before the generic ASCII test', ok,
               found=f'{c}@{pos.get(c)} ASCII@{pos.get("ASCII")}', required='a valid text file must not be claimed by the weaker test', module=m)
    # DAT before SEGY/LISVER irrelevant; BIT before LIS(TIF): the property excludes the 276-byte collision
    ok = 'BIT' in pos and 'LISt' in pos and pos['BIT'] < pos['LISt']
    rep.ob('R-C20-ORDER', f'{BF}:FUNCTION_ID_MAP', 'BIT (TIF marked, fixed first record) is tried before TIF-marked LIS', ok, module=m)
    # fixed signatures registered before the five formats: first byte of the signature vs leading-byte language
    first_five = min(pos[c] for cs in FIVE.values() for c in cs if c in pos and c != 'BIT')
    for fn, code in reg[:first_five]:
        if code == 'BIT':
            continue
        f = ix.get_func(BF, fn)
        sigs = []
        for n in walk_no_nested(f):
            if isinstance(n, ast.Compare) and len(n.ops) == 1 and isinstance(n.ops[0], ast.Eq):
                try:
                    v = ix.fold(BF, n.comparators[0])
                except Unfoldable:
                    continue
                if isinstance(v, bytes) and v:
                    sigs.append(v)
            if isinstance(n, (ast.Assign,)) and isinstance(n.value, ast.Tuple):
                for e in n.value.elts:
                    try:
                        v = ix.fold(BF, e)
                    except Unfoldable:
                        continue
                    if isinstance(v, bytes) and v:
                        sigs.append(v)
        ok = bool(sigs)
        clash = []
        for sgn in sigs:
            for fmt, lang in SIGNATURES_FIRST_BYTE.items():
                if fmt == 'LIS(TIF)/BIT':
                    if sgn[:8] == b'\x00' * min(8, len(sgn)):
                        clash.append((fmt, sgn))
                elif all(b in lang for b in sgn[:1]) and fmt == 'RP66V1' and all(b in lang for b in sgn[:4]):
                    clash.append((fmt, sgn))
                elif fmt in ('LAS',) and sgn[:1] in (b'~', b'#'):
                    clash.append((fmt, sgn))
                elif fmt == 'DAT' and all(b in lang for b in sgn):
                    clash.append((fmt, sgn))
        rep.ob('R-C20-ORDER', f'{BF}:{fn}', f'fixed signature of {code} cannot start a valid RP66V1 / LAS / DAT / TIF-marked file', ok and not clash,
               found=f'signatures {sigs} clash {clash}', required='leading bytes disjoint from the leading-byte language of the five formats', node=f, module=m)
    # plain LIS: byte 4 (logical record type of a header record) >= 0x80 keeps it away from the ASCII test
    a = ix.get_func(BF, '_ascii')
    ok = any(_n(c).startswith('set(fobj.read(') and 'issubset(ASCII_BYTES_LOWER_128)' in _n(n) for n in walk_no_nested(a) if isinstance(n, ast.If) for c in common.calls_in(n))
    low = ix.module(BF).assigns.get('ASCII_BYTES_LOWER_128')
    rep.ob('R-C20-ORDER', f'{BF}:_ascii', 'the ASCII test accepts only bytes 0..127 (a LIS header record type >= 128 in the first bytes is refused)',
           ok and bool(low) and _n(low[-1]) == 'set(bytes(range(128)))', node=a, module=m)


def check_rewind(rep, ix):
    m = ix.module(BF)
    f = ix.get_func(BF, 'binary_file_type')
    site = f'{BF}:binary_file_type'
    rep.fn(site)
    g = cfgmod.CFG(f)
    arg = f.args.args[0].arg
    seeks = [s for s in g.stmts() if any(_n(c) == f'{arg}.seek(0)' for c in cfgmod.calls_at(s))]
    pd = g.postdominators()
    ok = len(seeks) >= 1 and any(s in pd.get(g.ENTRY, ()) for s in seeks)
    rep.ob('R-C20-REWIND', site, 'the file is rewound on every normal exit', ok, node=f, module=m)
    loops = [s for s in g.stmts() if isinstance(s, ast.For)]
    ok = len(loops) == 1 and _n(loops[0].iter) == 'FUNCTION_ID_MAP'
    rep.ob('R-C20-REWIND', site, 'detectors are tried in registry order', ok, node=f, module=m)
    if ok:
        lp = loops[0]
        brk = [n for n in walk_no_nested(lp) if isinstance(n, ast.If) and any(isinstance(x, ast.Break) for x in n.body)]
        res = [n for n in walk_no_nested(lp) if isinstance(n, ast.Assign) and isinstance(n.value, ast.Call) and _n(n.value) == f'{lp.target.elts[0].id}({arg})']
        ok = len(brk) == 1 and len(res) == 1 and _n(brk[0].test) == _n(res[0].targets[0])
        rep.ob('R-C20-REWIND', site, 'the loop stops at the first non-empty answer', ok, node=lp, module=m)
        r = common.returns_of(f)
        rep.ob('R-C20-REWIND', site, 'the answer of the last tried detector is returned', len(r) == 1 and bool(res) and _n(r[0].value) == _n(res[0].targets[0]), node=f, module=m)
    p = ix.get_func(BF, 'binary_file_type_from_path')
    src = _n(p)
    rep.ob('R-C20-REWIND', f'{BF}:binary_file_type_from_path', 'the path variant opens the file in binary mode and closes it (with)', "withopen(path,'rb')asfile_object:" in src.replace(p.args.args[0].arg, 'path') and 'returnbinary_file_type(file_object)' in src, node=p, module=m)


def _frame_size_positive(rep, ix):
    """FrameSetPlan divides by its frame size = sum of the channel sizes of the DFSR.  It is positive because (1) the plan is
    built only by LogPass.__init__, after it has refused a DFSR without channels, (2) a DFSR read from a file keeps only
    channels whose size is not 0, and (3) a negative size is refused when the channel block is read."""
    LP, LR, TP = 'TotalDepth.LIS.core.LogPass', 'TotalDepth.LIS.core.LogiRec', 'TotalDepth.LIS.core.Type01Plan'
    facts = []
    # (0) what the divisor is
    init = ix.get_func(TP, 'FrameSetPlan.__init__')
    asg = {_n(a.targets[0]): _n(a.value) for a in walk_no_nested(init) if isinstance(a, ast.Assign) and len(a.targets) == 1}
    dp = init.args.args[1].arg
    facts.append(('the frame size is the sum of the sizes of the channel blocks', asg.get('self._frameSize') == 'sum(self._channelSizes)'
                  and asg.get('self._channelSizes') == f'[b.sizeforbin{dp}.dsbBlocks]', init, TP))
    stores = [n for fn in ix.get_class(TP, 'FrameSetPlan').body if isinstance(fn, ast.FunctionDef) for n in walk_no_nested(fn)
              if isinstance(n, ast.Attribute) and isinstance(n.ctx, ast.Store) and n.attr in ('_frameSize', '_channelSizes')]
    facts.append(('and is assigned only in the constructor', len(stores) == 2, init, TP))
    # (1) constructed only behind the no-channels guard
    sites = []
    for mn in ix.module_names():
        if not mn.startswith('TotalDepth.') or '.test' in mn:
            continue
        for c in ast.walk(ix.module(mn).tree):
            if isinstance(c, ast.Call) and (_n(c.func) == 'FrameSetPlan' or _n(c.func).endswith('.FrameSetPlan')):
                sites.append((mn, c))
    ok = len(sites) == 1 and sites[0][0] == LP
    if ok:
        c = sites[0][1]
        f = c
        while not isinstance(f, ast.FunctionDef):
            f = f._parent
        arg = _n(c.args[0]) if c.args else ''
        src = {_n(a.targets[0]): _n(a.value) for a in walk_no_nested(f) if isinstance(a, ast.Assign) and len(a.targets) == 1}.get(arg, arg)
        g = cfgmod.CFG(f)
        dom = g.dominators()
        st = common.stmt_containing(c)
        guards = [n for t, neg, n in common.reject_guards(f) if not neg and show(nf(t)) == common.nfs(f'len({src}.dsbBlocks) == 0')]
        gst = [common.stmt_containing(n) if not isinstance(n, ast.stmt) else n for n in guards]
        ok = bool(gst) and any(x in dom.get(st, ()) for x in gst)
    facts.append(('the plan is built at one place, after a DFSR without channels has been refused', ok, sites[0][1] if sites else None, LP))
    # (2) only channels of non-zero size are kept
    apps = []
    for mn in ix.module_names():
        if not mn.startswith('TotalDepth.') or '.test' in mn:
            continue
        for c in ast.walk(ix.module(mn).tree):
            if isinstance(c, ast.Call) and _n(c.func).endswith('dsbBlocks.append'):
                apps.append((mn, c))
    ok = bool(apps)
    for mn, c in apps:
        v = _n(c.args[0])
        p, child, guarded = c._parent, c, False
        while p is not None and not isinstance(p, ast.FunctionDef):
            if isinstance(p, ast.If) and show(nf(p.test)) == common.nfs(f'not {v}.isNull') and any(child is x or any(child is y for y in ast.walk(x)) for x in p.body):
                guarded = True
            child, p = p, getattr(p, '_parent', None)
        ok = ok and guarded
    isnull = ix.get_func(LR, 'DatumSpecBlock.isNull')
    r = common.returns_of(isnull)
    ok = ok and len(r) == 1 and show(nf(r[0].value)) == common.nfs('self.size == 0')
    facts.append(('a channel block is kept only when its size is not 0 (isNull = size == 0)', ok, apps[0][1] if apps else None, LR))
    # (3) negative sizes are refused when a block is read
    sb = ix.get_func(LR, 'DatumSpecBlock._setBurstsSubChannels')
    neg = [n for t, ng, n in common.reject_guards(sb) if not ng and show(nf(t)) == common.nfs('self.size < 0')]
    g = cfgmod.CFG(sb)
    first_ok = bool(neg) and all((common.stmt_containing(n) if not isinstance(n, ast.stmt) else n) in g.dominators().get(s_, ()) or s_ is (common.stmt_containing(n) if not isinstance(n, ast.stmt) else n)
                                 for n in neg[:1] for s_ in g.stmts() if isinstance(s_, (ast.Assign, ast.AugAssign)))
    rd = ix.get_func(LR, 'DatumSpecBlockRead.__init__')
    called = [s_ for s_ in rd.body if isinstance(s_, ast.Expr) and _n(s_.value) == 'self._setBurstsSubChannels()']
    facts.append(('a channel block read from a file with a negative size is refused', bool(neg) and first_ok and len(called) == 1, sb, LR))
    allok = True
    for what, ok, node, mn in facts:
        allok = allok and bool(ok)
        rep.ob('R-C20-FRAMESIZE', f'{TP}:FrameSetPlan', what, bool(ok), required='frame size > 0, so FrameSetPlan.numFrames never divides by zero', node=node, module=ix.module(mn))
    return allok


def _bool_eval(e, atoms):
    """truth value of a guard over the atoms {'size0': X.size == 0, 'none': X.value is None}; ValueError if it reads anything else"""
    if isinstance(e, ast.BoolOp):
        vals = [_bool_eval(v, atoms) for v in e.values]
        return all(vals) if isinstance(e.op, ast.And) else any(vals)
    if isinstance(e, ast.UnaryOp) and isinstance(e.op, ast.Not):
        return not _bool_eval(e.operand, atoms)
    if isinstance(e, ast.Compare) and len(e.ops) == 1:
        l, o, r = e.left, e.ops[0], e.comparators[0]
        ls, rs = _n(l), _n(r)
        if ls.endswith('.size') and rs == '0' or rs.endswith('.size') and ls == '0':
            if isinstance(o, ast.Eq):
                return atoms['size0']
            if isinstance(o, (ast.NotEq, ast.Gt, ast.Lt)) and (isinstance(o, ast.NotEq) or (isinstance(o, ast.Gt) and rs == '0') or (isinstance(o, ast.Lt) and ls == '0')):
                return not atoms['size0']        # sizes are unsigned bytes
        if ls.endswith('.value') and rs == 'None':
            if isinstance(o, ast.Is):
                return atoms['none']
            if isinstance(o, ast.IsNot):
                return not atoms['none']
        if isinstance(o, (ast.Eq, ast.NotEq)) and isinstance(l, (ast.Compare, ast.BoolOp, ast.UnaryOp)) and isinstance(r, (ast.Compare, ast.BoolOp, ast.UnaryOp)):
            a, b = _bool_eval(l, atoms), _bool_eval(r, atoms)
            return (a == b) if isinstance(o, ast.Eq) else (a != b)
    if isinstance(e, ast.Attribute) and e.attr == 'size':
        return not atoms['size0']
    raise ValueError(_n(e))


def check_invariant(rep, ix):
    """EntryBlockSet asserts _checkIntegrity() == 0 after every change.  A block decoded from arbitrary bytes is stored by
    setEntryBlock: each clause of the integrity check that reads a field of a block must be excluded by a guard that raises a LIS
    exception before the block is stored, else the assert fails with AssertionError (which the LIS detector does not catch)."""
    LR = 'TotalDepth.LIS.core.LogiRec'
    m = ix.module(LR)
    ci = ix.get_func(LR, 'EntryBlockSet._checkIntegrity')
    se = ix.get_func(LR, 'EntryBlockSet.setEntryBlock')
    site = f'{LR}:EntryBlockSet.setEntryBlock'
    p = se.args.args[1].arg
    loops = [n for n in walk_no_nested(ci) if isinstance(n, ast.For)]
    clauses = []
    for lp in loops:
        ev = lp.target.elts[-1].id if isinstance(lp.target, ast.Tuple) else lp.target.id
        for n in lp.body:
            if isinstance(n, ast.If) and n.body and isinstance(n.body[0], ast.Return) and _n(n.body[0].value) != '0':
                clauses.append((n, ev, _n(n.body[0].value)))
    g = cfgmod.CFG(se)
    dom = g.dominators()
    stores = [s_ for s_ in g.stmts() if isinstance(s_, ast.Assign) and _n(s_.targets[0]) == f'self._ebS[{p}.type]' and _n(s_.value) == p]
    rep.ob('R-C20-INVARIANT', site, 'the block is stored in the slot of its own type (integrity clause: type = index)', len(stores) == 1, found=str(len(stores)), node=se, module=m)
    guards = []
    for t, neg, n in common.reject_guards(se):
        st = n if isinstance(n, ast.stmt) else common.stmt_containing(n)
        if not neg and stores and st in dom.get(stores[0], ()):
            guards.append(t)
    n_field = 0
    for cl, ev, code in clauses:
        names = {x.attr for x in ast.walk(cl.test) if isinstance(x, ast.Attribute) and isinstance(x.value, ast.Name) and x.value.id == ev}
        if not names or names <= {'type'}:
            continue
        n_field += 1
        uncovered = []
        try:
            for size0 in (True, False):
                for none in (True, False):
                    atoms = {'size0': size0, 'none': none}
                    if _bool_eval(cl.test, atoms):
                        hit = False
                        for gd in guards:
                            try:
                                hit = hit or _bool_eval(gd, atoms)
                            except ValueError:
                                pass
                        if not hit:
                            uncovered.append(f'size {"= 0" if size0 else "> 0"}, value {"None" if none else "present"}')
            ok = not uncovered
            found = 'stored without a test when ' + '; '.join(uncovered) if uncovered else 'excluded by a guard before the store'
        except ValueError as err:
            ok, found = False, f'clause not understood: {err}'
        rep.ob('R-C20-INVARIANT', site, f'integrity clause {code} (`{_n(cl.test)}`) cannot be violated by a block read from a file', ok, found=found,
               required='a guard raising a LIS exception before the block is stored', node=cl, module=m)
    rep.ob('R-C20-INVARIANT', f'{LR}:EntryBlockSet._checkIntegrity', 'integrity clauses over block fields found', n_field >= 2, found=str(n_field), node=ci, module=m)


def check_escape(rep, ix):
    m = ix.module(BF)
    ea = exc.ExcAnalysis(ix)
    if _frame_size_positive(rep, ix):
        ea.proved_nonzero = frozenset({('TotalDepth.LIS.core.Type01Plan', 'self._frameSize')})
    reg = _registry(ix)
    seen = set()
    for fn, code in reg:
        if fn in seen:
            continue
        seen.add(fn)
        esc = ea.escapes(BF, fn)
        rep.fn(f'{BF}:{fn}')
        if not esc:
            rep.ob('R-C20-ESCAPE', f'{BF}:{fn}', 'no exception class escapes the detector', True, found='escape set is empty', module=m)
        for name, (origin, anc) in sorted(esc.items()):
            rep.ob('R-C20-ESCAPE', f'{BF}:{fn}', f'{name} can escape: {origin.split(" at ")[0]} in {origin.split(" at ")[-1].rsplit(":", 1)[0]}', False,
                   found=f'{name} from {origin}', required='identification raises nothing: every such operation handled on the way up', module=m)
    for top in ('binary_file_type', 'binary_file_type_from_path'):
        esc = ea.escapes(BF, top)
        rep.ob('R-C20-ESCAPE', f'{BF}:{top}', 'escape set of the entry point is empty', not esc, found=str({k: v[0] for k, v in esc.items()}), module=m)
    n_funcs = len(ea._esc)
    total = ea.resolved + len(ea.unresolved)
    rate = ea.resolved / total if total else 0
    nas = sum(ea.n_asserts.get(k, 0) for k in ea._esc)
    rep.info(f'R-C20-ESCAPE: {n_funcs} functions reached, {ea.resolved} calls resolved, {len(ea.unresolved)} unresolved ({rate:.0%}); '
             f'{nas} assert statements reachable (not decided)')
    rep.ob('R-C20-ESCAPE', f'{BF}:binary_file_type', f'call resolution on the reached functions stays above the measured floor', n_funcs >= 150 and rate >= 0.93,
           found=f'{n_funcs} functions, {rate:.1%} resolved; unresolved: {sorted(set(x[1] for x in ea.unresolved))[:12]}',
           required='>= 150 functions reached and >= 93% of repository calls resolved (else the fixpoint may miss an escape)', module=m)
    rep.extra['escape_analysis'] = {'functions': n_funcs, 'calls_resolved': ea.resolved, 'calls_unresolved': len(ea.unresolved),
                                    'asserts_reachable_not_decided': nas, 'unresolved': sorted(set(f'{a}:{b}' for a, b in ea.unresolved))[:40]}
    # handlers of the two data-driven detectors
    f = ix.get_func(BF, '_lis')
    hs = [(_n(h.type) if h.type is not None else None) for n in walk_no_nested(f) if isinstance(n, ast.Try) for h in n.handlers]
    rep.ob('R-C20-ESCAPE', f'{BF}:_lis', 'the LIS trial index is built inside a handler for the LIS exception hierarchy', 'ExceptionTotalDepthLIS' in hs or 'Exception' in hs, found=str(hs), node=f, module=m)
    f = ix.get_func('TotalDepth.DAT.DAT_parser', 'can_parse_file')
    hs = [(_n(h.type) if h.type is not None else None) for n in walk_no_nested(f) if isinstance(n, ast.Try) for h in n.handlers]
    rep.ob('R-C20-ESCAPE', 'TotalDepth.DAT.DAT_parser:can_parse_file', 'the DAT trial parse is inside a handler for the DAT and log-pass hierarchies',
           any(h and 'ExceptionDAT' in h and 'ExceptionLogPassBase' in h for h in hs) or 'Exception' in hs, found=str(hs), node=f, module=ix.module('TotalDepth.DAT.DAT_parser'))


def check_sul(rep, ix):
    m = ix.module(BF)
    tbl = ix.module(BF).assigns.get('RE_COMPILED')
    if not tbl or not isinstance(tbl[-1], ast.Dict):
        raise AnalysisError('RE_COMPILED table not found')
    rp = None
    for k, v in zip(tbl[-1].keys, tbl[-1].values):
        if ix.fold(BF, k) == 'RP66V1':
            rp = v
    if rp is None:
        raise AnalysisError('RE_COMPILED[RP66V1] not found')
    pats = {}
    for k, v in zip(rp.keys, rp.values):
        key = ix.fold(BF, k)
        if isinstance(v, ast.Call) and _n(v.func) == 're.compile':
            pats[key] = RegexVal(ix.fold(BF, v.args[0]))
    for key, spec, what, numeric in (('Comment_1', SPEC_SEQ, 'sequence number', True), ('Comment_2', SPEC_VER, 'DLIS version', False),
                                     ('Comment_3', SPEC_STRUCT, 'storage unit structure', False), ('Comment_4', SPEC_LEN, 'maximum record length 20..16384', True)):
        check_sul_regex(rep, ix, 'R-C20-SUL', f"{BF}:RE_COMPILED['RP66V1']['{key}']", m, pats.get(key), spec, what, numeric)
    f = ix.get_func(BF, '_rp66v1_bytes')
    cuts = []
    for n in walk_no_nested(f):
        if isinstance(n, ast.Call) and isinstance(n.func, ast.Attribute) and n.func.attr == 'match' and n.args and isinstance(n.args[0], ast.Subscript):
            cuts.append((_n(n.func.value), _n(n.args[0].slice)))
    want = [("RE_COMPILED['RP66V1']['Comment_1']", ':4'), ("RE_COMPILED['RP66V1']['Comment_2']", '4:9'), ("RE_COMPILED['RP66V1']['Comment_3']", '9:15'), ("RE_COMPILED['RP66V1']['Comment_4']", '15:20')]
    rep.ob('R-C20-SUL', f'{BF}:_rp66v1_bytes', 'each label field is matched by its own pattern', sorted(cuts) == sorted(want), found=str(cuts), node=f, module=m)
    # identifier: any printable text must be accepted
    ident_ok = any(isinstance(n, ast.For) and _n(n.iter) == 'by[20:80]' for n in walk_no_nested(f)) and 'ifcnotinASCII_PRINTABLE_BYTES:' in _n(f)
    rep.ob('R-C20-SUL', f'{BF}:_rp66v1_bytes', 'the 60-byte identifier is accepted when printable', ident_ok, node=f, module=m)


def pad_binding(rep, ix, rule):
    """the padding settings reach the physical record reader under their own names (shared by C05 / C08 / C20)"""
    m = ix.module(LF)
    # the settings go on from FileRead to the physical record reader, and in the scan from scan_file_no_output to it: a setting
    # handed to a parameter of another name silently swaps pad_modulo and pad_non_null (only the files that need padding notice)
    PR = 'TotalDepth.LIS.core.PhysRec'
    prinit = ix.get_func(PR, 'PhysRecRead.__init__')
    prparams = [a.arg for a in prinit.args.args[1:]]
    nsite = 0
    for qual in ('FileRead.__init__', 'scan_file_no_output'):
        h = ix.find_func(LF, qual)
        if h is None:
            continue
        for c2 in common.calls_in(h):
            if not _n(c2.func).endswith('PhysRecRead'):
                continue
            nsite += 1
            bound = {}
            for i, a in enumerate(c2.args):
                if i < len(prparams):
                    bound[prparams[i]] = _n(a)
            for k in c2.keywords:
                bound[k.arg] = _n(k.value)
            bad = {k: v for k, v in bound.items() if k in ('pad_modulo', 'pad_non_null') and v in ('pad_modulo', 'pad_non_null') and v != k}
            have = all(k in bound for k in ('pad_modulo', 'pad_non_null'))
            rep.ob(rule, f'{LF}:{qual}', 'pad_modulo and pad_non_null reach the physical record reader under their own names', have and not bad,
                   found=str({k: bound.get(k) for k in ('pad_modulo', 'pad_non_null')}), required='pad_modulo -> pad_modulo, pad_non_null -> pad_non_null', node=c2, module=m)
    rep.ob(rule, f'{LF}:FileRead', 'constructions of the physical record reader found', nsite >= 1, found=str(nsite), module=m)


def check_binding(rep, ix):
    """Star-argument calls: fields of the named tuple must land on parameters of the same name."""
    m = ix.module(LF)
    f = ix.get_func(LF, 'file_read_with_best_physical_record_pad_settings')
    site = f'{LF}:file_read_with_best_physical_record_pad_settings'
    rep.fn(site)
    calls = [c for c in common.calls_in(f) if _n(c.func) == 'FileRead']
    ok = len(calls) == 1
    rep.ob('R-C20-BIND', site, 'one FileRead construction', ok, node=f, module=m)
    if not ok:
        return
    c = calls[0]
    init = ix.get_func(LF, 'FileRead.__init__')
    params = [a.arg for a in init.args.args[1:]]
    nt = ix.get_class(LF, 'PhysicalRecordSettings')
    fields = [s.target.id for s in nt.body if isinstance(s, ast.AnnAssign)]
    npos = len([a for a in c.args if not isinstance(a, ast.Starred)])
    star = [a for a in c.args if isinstance(a, ast.Starred)]
    ok = len(star) == 1 and c.args[-1] is star[0] and params[npos:npos + len(fields)] == fields
    rep.ob('R-C20-BIND', site, f'*pr_settings binds {fields} to the parameters of the same names', ok,
           found=f'{npos} positional arguments, then *settings -> {params[npos:npos + len(fields)]}', required=f'parameters {fields} (after theFile, theFileId, keepGoing)',
           node=c, module=m)
    ok = npos == 3 and _n(c.args[2]) == 'True'
    rep.ob('R-C20-BIND', site, 'the trial reader keeps going on non-conformant records (keepGoing=True)', ok, found=_n(c), node=c, module=m)
    pad_binding(rep, ix, 'R-C20-BIND')
    b = ix.get_func(LF, 'best_physical_record_pad_settings')
    src = _n(b)
    ok = 'scan_file_with_different_padding(file_path_or_object,keep_going=True,pr_limit=pr_limit)' in src and 'ret_padding_options_with_max_records(pad_opts_to_prs)' in src
    rep.ob('R-C20-BIND', f'{LF}:best_physical_record_pad_settings', 'best settings = those that parse the most physical records', ok, node=b, module=m)
    s = ix.get_func(LF, 'scan_file_with_different_padding')
    calls = [c for c in common.calls_in(s) if _n(c.func) == 'scan_file_no_output']
    ok = len(calls) == 1 and [_n(a) for a in calls[0].args] == ['file_path_or_object', 'keep_going', 'pad_modulo', 'pad_non_null'] and \
        any(_n(n.targets[0]) == 'result[PhysicalRecordSettings(pad_modulo,pad_non_null)]' for n in walk_no_nested(s) if isinstance(n, ast.Assign))
    rep.ob('R-C20-BIND', f'{LF}:scan_file_with_different_padding', 'each count is stored under the settings it was measured with', ok, node=s, module=m)
    l = ix.get_func(BF, '_lis')
    calls = [_n(c) for c in common.calls_in(l)]
    rep.ob('R-C20-BIND', f'{BF}:_lis', 'the LIS detector indexes with the best settings reader', "File.file_read_with_best_physical_record_pad_settings(fobj,'',pr_limit=100)" in calls and 'FileIndexer.FileIndex(lis_file)' in calls, found=str(calls[:4]), node=l, module=ix.module(BF))


def check_dat_reads_all(rep, ix):
    """the DAT detector hands the whole text to the trial parse (a fixed-size prefix cuts wide files in the middle of the
    declarations or the first row, and they are then not recognised) and the trial parse checks the row length exactly"""
    m = ix.module(BF)
    f = ix.get_func(BF, '_dat')
    reads = [c for c in common.calls_in(f) if isinstance(c.func, ast.Attribute) and c.func.attr == 'read' and _n(c.func.value) == f.args.args[0].arg]
    ok = len(reads) >= 1 and all(not c.args and not c.keywords for c in reads)
    rep.ob('R-C20-DETECT', f'{BF}:_dat', 'the DAT detector reads the whole file for the trial parse', ok, found='; '.join(_n(c) for c in reads), required=f'{f.args.args[0].arg}.read()', node=f, module=m)
    from . import C14
    C14.check_row_length(rep, ix)


def check_dat_table(rep, ix):
    # the DAT detector parses the text with DAT_parser: its line-sanitising table decides whether a valid (tab-separated) DAT
    # file is recognised; same rule as C14
    from . import C14
    C14.check_sanitise(rep, ix, ix.module(C14.M))


def run(rep, ix, tier):
    imports.check_import_closure(rep, ix, 'R-IMP', [BF])
    check_detect(rep, ix)
    check_order(rep, ix)
    check_rewind(rep, ix)
    check_escape(rep, ix)
    # a padded LIS file is recognised only if the padding after each physical record is measured correctly: rule of C05
    from . import C05
    C05.check_sizes(rep, ix)
    rep.floor('R-C05-LOOP', 2)
    check_dat_reads_all(rep, ix)
    check_invariant(rep, ix)
    # the index of one file is built from nothing: state handed out by a helper and filled in by the constructor is per call
    common.check_fresh_returns(rep, 'R-C20-FRESH', ix, 'TotalDepth.LIS.core.FileIndexer')
    rep.floor('R-C20-FRESH', 1)
    check_sul(rep, ix)
    check_binding(rep, ix)
    check_dat_table(rep, ix)
    rep.floor('R-C20-DETECT', 60)
    rep.floor('R-C20-ORDER', 18)
    rep.floor('R-C20-REWIND', 5)
    rep.floor('R-C20-ESCAPE', 24)
    rep.floor('R-C20-FRAMESIZE', 5)
    rep.floor('R-C20-INVARIANT', 4)
    rep.floor('R-C20-SUL', 8)
    rep.floor('R-C20-BIND', 6)
