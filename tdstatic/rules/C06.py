"""C06 LIS log pass frame sets are exact; any sub-selection is a sub-matrix (thin structural clauses)."""
import ast

from .. import cfg as cfgmod, defuse
from ..loader import AnalysisError, FuncRef, StructVal, Unfoldable, walk_no_nested
from ..norm import nf, show, attr_chain
from . import common

EXPLANATION = (
    'Thin claim. Decides: (1) dispatch: every LR_TYPE_* constant of LogiRec is a key of the indexer dispatch table, '
    'delimiters map to the matching Index*Head/Tail classes which read with the matching LogiRec reader, tables map '
    'to IndexTable, type 64 to IndexLogPass; the log-pass map is reset only under isDelimiter, a DFSR replaces only '
    'the slot of its own data-record type, data records go to the log pass of their own type; the record position is '
    'taken before the header is read; (2) the event kinds produced by the plan and the log pass equal the kinds '
    'handled by setFrameSet (exhaustive if/elif with a final assert); (3) representation-code tables agree (sizes, '
    'read/from key sets); (4) one channel list: FrameSet and the read plan canonicalise the channel list the same '
    'way (sorted, duplicate-free) so matrix columns and bytes read match; (5) locality: the only seek in setFrameSet '
    'is under the seek event with a position from tellLrForFrame of a requested frame; frame -> record lookup.')
NOT_DECIDED = 'loaded values, the sub-matrix property itself, implied X values for stepped slices, bytes touched.'
ASSUMPTIONS = ['the compiled cFrameSet extension is not analysed']
TECHNIQUE = 'static analysis: registry/table agreement, CFG control dependence, sibling normal forms, exhaustiveness of event dispatch'

FI = 'TotalDepth.LIS.core.FileIndexer'
LR = 'TotalDepth.LIS.core.LogiRec'
LP = 'TotalDepth.LIS.core.LogPass'
TP = 'TotalDepth.LIS.core.Type01Plan'
FS = 'TotalDepth.LIS.core.FrameSet'
RC = 'TotalDepth.LIS.core.RepCode'
RL = 'TotalDepth.LIS.core.Rle'


def _n(e):
    return ast.unparse(e).replace(' ', '')


DELIMS = {'LR_TYPE_FILE_HEAD': ('IndexFileHead', 'LrFileHeadRead'), 'LR_TYPE_FILE_TAIL': ('IndexFileTail', 'LrFileTailRead'),
          'LR_TYPE_TAPE_HEAD': ('IndexTapeHead', 'LrTapeHeadRead'), 'LR_TYPE_TAPE_TAIL': ('IndexTapeTail', 'LrTapeTailRead'),
          'LR_TYPE_REEL_HEAD': ('IndexReelHead', 'LrReelHeadRead'), 'LR_TYPE_REEL_TAIL': ('IndexReelTail', 'LrReelTailRead')}
TABLES = ('LR_TYPE_JOB_ID', 'LR_TYPE_WELL_DATA', 'LR_TYPE_TOOL_INFO')


def check_dispatch(rep, ix):
    m = ix.module(FI)
    lm = ix.module(LR)
    f = ix.get_func(FI, 'FileIndex.__init__')
    site = f'{FI}:FileIndex.__init__'
    rep.fn(site)
    tbl = [n for n in walk_no_nested(f) if isinstance(n, ast.Assign) and _n(n.targets[0]) == 'self._despatchLrType' and isinstance(n.value, ast.Dict)]
    if len(tbl) != 1:
        raise AnalysisError('FileIndex.__init__: dispatch table literal not found')
    table = {}
    for k, v in zip(tbl[0].value.keys, tbl[0].value.values):
        table[_n(k).replace('LogiRec.', '')] = _n(v)
    consts = sorted(n for n in lm.assigns if n.startswith('LR_TYPE_') and isinstance(_try(ix, LR, n), int))
    all_t = ix.fold_name(LR, 'LR_TYPE_ALL')
    rep.ob('R-C06-DISPATCH', f'{LR}:LR_TYPE_ALL', f'{len(consts)} record type constants, LR_TYPE_ALL lists them all',
           sorted(all_t) == sorted(ix.fold_name(LR, c) for c in consts), found=str(len(all_t)), module=lm)
    for c in consts:
        rep.ob('R-C06-DISPATCH', site, f'{c} has an entry in the dispatch table', c in table, found=table.get(c, 'missing'), node=tbl[0], module=m)
    for c, (cls, reader) in DELIMS.items():
        rep.ob('R-C06-DISPATCH', site, f'{c} -> {table.get(c)}', table.get(c) == cls, found=str(table.get(c)), required=cls, node=tbl[0], module=m)
        init = ix.get_func(FI, f'{cls}.__init__')
        calls = [_n(c2) for c2 in common.calls_in(init) if _n(c2.func) == 'super().__init__']
        ok = len(calls) == 1 and calls[0].endswith(f',LogiRec.{reader})')
        rep.ob('R-C06-DISPATCH', f'{FI}:{cls}.__init__', f'{cls} reads with LogiRec.{reader}', ok, found=str(calls), node=init, module=m)
    for c in TABLES:
        rep.ob('R-C06-DISPATCH', site, f'{c} -> {table.get(c)}', table.get(c) == 'IndexTable', found=str(table.get(c)), required='IndexTable', node=tbl[0], module=m)
    rep.ob('R-C06-DISPATCH', site, f'LR_TYPE_DATA_FORMAT -> {table.get("LR_TYPE_DATA_FORMAT")}', table.get('LR_TYPE_DATA_FORMAT') == 'IndexLogPass', node=tbl[0], module=m)
    for c in ('LR_TYPE_NORMAL_DATA', 'LR_TYPE_ALTERNATE_DATA'):
        rep.ob('R-C06-DISPATCH', site, f'{c} is handled by the log-pass map, not the table', table.get(c) == 'None', found=str(table.get(c)), node=tbl[0], module=m)
    delim = ix.fold_name(LR, 'LR_TYPE_DELIMITER')
    rep.ob('R-C06-DISPATCH', f'{LR}:LR_TYPE_DELIMITER', 'delimiters are the six header/trailer types', sorted(delim) == [128, 129, 130, 131, 132, 133], found=str(delim), module=lm)
    d = ix.get_func(LR, 'isDelimiter')
    r = common.returns_of(d)
    rep.ob('R-C06-DISPATCH', f'{LR}:isDelimiter', 'isDelimiter tests membership of LR_TYPE_DELIMITER', len(r) == 1 and _n(r[0].value) == f'{d.args.args[0].arg}inLR_TYPE_DELIMITER', node=d, module=lm)
    # log pass map handling
    g = cfgmod.CFG(f)
    resets = [s for s in g.stmts() if isinstance(s, ast.Assign) and _n(s.targets[0]) == 'log_pass_index_map']
    loops = [s for s in g.stmts() if isinstance(s, ast.While)]
    in_loop = [s for s in resets if loops and _inside(s, loops[0])]
    rep.ob('R-C06-DISPATCH', site, 'one initialisation and one in-loop reset of the log-pass map', len(resets) == 2 and len(in_loop) == 1,
           found=f'{len(resets)} assignments, {len(in_loop)} in the loop', node=f, module=m)
    for s in in_loop:
        deps = [(show(nf(b.test)), lab) for b, lab in g.control_deps(s) if isinstance(b, ast.If)]
        ok = bool(deps) and deps[-1] == (common.nfs('LogiRec.isDelimiter(lrTy)'), 'true')
        rep.ob('R-C06-DISPATCH', site, 'the log-pass map is reset only by a delimiter record', ok, found=str(deps[-1:] if deps else None),
               required='if LogiRec.isDelimiter(lrTy)', node=s, module=m)
    slots = [s for s in g.stmts() if isinstance(s, ast.Assign) and isinstance(s.targets[0], ast.Subscript) and _n(s.targets[0].value) == 'log_pass_index_map']
    ok = len(slots) == 1 and _n(slots[0]) == 'log_pass_index_map[self._idx[-1].iflrType()]=len(self._idx)-1'
    rep.ob('R-C06-DISPATCH', site, 'a DFSR replaces only the slot of its own data-record type with its own index', ok,
           found=';'.join(_n(s) for s in slots), node=f, module=m)
    if slots:
        deps = [(show(nf(b.test)), lab) for b, lab in g.control_deps(slots[0]) if isinstance(b, ast.If)]
        ok = bool(deps) and deps[-1] == (common.nfs('lrTy == LogiRec.LR_TYPE_DATA_FORMAT'), 'true')
        rep.ob('R-C06-DISPATCH', site, 'registration happens for DFSR records only', ok, found=str(deps[-1:]), node=slots[0], module=m)
    adds = [c for c in common.calls_in(f) if isinstance(c.func, ast.Attribute) and c.func.attr == 'add']
    ok = len(adds) == 1 and _n(adds[0]) == 'self._idx[log_pass_index_map[lrTy]].add(tell,lrTy,theF)'
    rep.ob('R-C06-DISPATCH', site, 'a data record is added to the log pass registered for its own type, with its own position', ok,
           found=';'.join(_n(a) for a in adds), node=f, module=m)
    dom = g.dominators()
    tells = [s for s in g.stmts() if isinstance(s, ast.Assign) and _n(s) == 'tell=theF.tellLr()']
    hdr = [s for s in g.stmts() if isinstance(s, ast.Assign) and 'readLrBytes(LogiRec.STRUCT_LR_HEAD.size)' in _n(s)]
    ok = len(tells) == 1 and len(hdr) == 1 and tells[0] in dom.get(hdr[0], ()) and _inside(tells[0], loops[0])
    rep.ob('R-C06-DISPATCH', site, 'the record position is taken before its header is read, once per record', ok, node=f, module=m)
    app = [c for c in common.calls_in(f) if _n(c.func) == 'self._idx.append']
    ok = len(app) == 1 and _n(app[0]) == 'self._idx.append(fn(tell,lrTy,theF))'
    rep.ob('R-C06-DISPATCH', site, 'index entries are appended in file order with (position, type, file)', ok, found=';'.join(_n(a) for a in app), node=f, module=m)
    rw = [s for s in g.stmts() if any(_n(c) == 'theF.rewind()' for c in cfgmod.calls_at(s))]
    rep.ob('R-C06-DISPATCH', site, 'indexing starts from the beginning of the file', len(rw) == 1 and bool(loops) and rw[0] in dom.get(loops[0], ()), node=f, module=m)
    r0 = ix.get_func(FI, 'FileIndex._reset_log_pass_index_map')
    r = common.returns_of(r0)
    rep.ob('R-C06-DISPATCH', f'{FI}:FileIndex._reset_log_pass_index_map', 'an empty map has the two data-record types', len(r) == 1 and _n(r[0].value) == '{0:None,1:None}', node=r0, module=m)
    # IndexLogPass.add: X of the first frame
    a = ix.get_func(FI, 'IndexLogPass.add')
    rep.fn(f'{FI}:IndexLogPass.add')
    calls = [_n(c) for c in common.calls_in(a)]
    ok = 'self._logPass.addType01Data(tell,lrType,skip,myXval)' in calls and 'RepCode.readBytes(myXrc,theF.readLrBytes(myLisSize))' in calls
    rep.ob('R-C06-DISPATCH', f'{FI}:IndexLogPass.add', 'first X value is decoded with the X channel\'s own rep code and recorded with the position', ok, node=a, module=m)
    ifs = [n for n in walk_no_nested(a) if isinstance(n, ast.If) and 'recordingMode' not in _n(n.test) and 'myRm' in _n(n.test)]
    got = {(show(nf(n.test))) for n in ifs}
    want = {common.nfs('myRm'), common.nfs('myRm == 0 and self._logPass.xAxisIndex != 0')}
    rep.ob('R-C06-DISPATCH', f'{FI}:IndexLogPass.add', 'indirect X uses depthRepCode, explicit X the X channel block (skipping to it when not first)', got == want, found=str(sorted(got)), node=a, module=m)


def _try(ix, mod, name):
    try:
        return ix.fold_name(mod, name)
    except AnalysisError:
        return None


def _inside(st, anc):
    p = st
    while p is not None:
        if p is anc:
            return True
        p = getattr(p, '_parent', None)
    return False


def check_events(rep, ix):
    m = ix.module(LP)
    tm = ix.module(TP)
    kinds = {k: ix.fold_name(TP, k) for k in ('EVENT_READ', 'EVENT_SKIP', 'EVENT_EXTRAPOLATE')}
    seek = ix.fold_name(LP, 'EVENT_SEEK_LR')
    for k, v in kinds.items():
        rep.ob('R-C06-EVENTS', f'{LP}:{k}', f'{k} is the plan\'s constant', ix.fold_name(LP, k) == v, found=str(ix.fold_name(LP, k)), module=m)
    rep.ob('R-C06-EVENTS', f'{LP}:EVENT_SEEK_LR', 'event kinds are pairwise distinct', len({seek, *kinds.values()}) == 4, found=str([seek, *kinds.values()]), module=m)
    # produced kinds
    produced = set()
    for mod, qual in ((TP, 'FrameSetPlan.genEvents'), (TP, 'FrameSetPlan._retFrameEvents'), (TP, 'FrameSetPlan._retMergedPostFramePre'), (LP, 'LogPass._genFrameSetEvents')):
        f = ix.get_func(mod, qual)
        rep.fn(f'{mod}:{qual}')
        for n in walk_no_nested(f):
            if isinstance(n, ast.Name) and n.id.startswith('EVENT_'):
                produced.add(n.id)
    # handled kinds in setFrameSet: if/elif chain on ty
    f = ix.get_func(LP, 'LogPass.setFrameSet')
    site = f'{LP}:LogPass.setFrameSet'
    rep.fn(site)
    loops = [n for n in walk_no_nested(f) if isinstance(n, ast.For) and '_genFrameSetEvents' in _n(n.iter)]
    ok = len(loops) == 1
    rep.ob('R-C06-EVENTS', site, 'one event loop', ok, node=f, module=m)
    if not ok:
        return
    lp = loops[0]
    ty = lp.target.elts[0].id
    chain = []
    node = lp.body[0] if lp.body and isinstance(lp.body[0], ast.If) else None
    final_assert = None
    while node is not None:
        t = node.test
        if isinstance(t, ast.Compare) and _n(t.left) == ty and isinstance(t.ops[0], ast.Eq):
            chain.append(_n(t.comparators[0]))
        if len(node.orelse) == 1 and isinstance(node.orelse[0], ast.If):
            node = node.orelse[0]
        else:
            for st in node.orelse:
                if isinstance(st, ast.Assert) and isinstance(st.test, ast.Compare) and _n(st.test.left) == ty:
                    final_assert = _n(st.test.comparators[0])
            node = None
    handled = set(chain) | ({final_assert} if final_assert else set())
    rep.ob('R-C06-EVENTS', site, f'handled event kinds {sorted(handled)} = produced kinds {sorted(produced)}', handled == produced and len(handled) == 4,
           found=f'handled {sorted(handled)} produced {sorted(produced)}', required='every produced kind handled, final branch asserted', node=lp, module=m)
    rep.ob('R-C06-EVENTS', site, 'the last branch asserts its kind (no silent fall-through)', final_assert is not None, node=lp, module=m)
    # actions per kind
    acts = {}
    node = lp.body[0]
    while isinstance(node, ast.If):
        k = _n(node.test.comparators[0]) if isinstance(node.test, ast.Compare) else '?'
        acts[k] = [_n(c) for st in node.body for c in common.calls_in(st)]
        if len(node.orelse) == 1 and isinstance(node.orelse[0], ast.If):
            node = node.orelse[0]
        else:
            acts['else'] = [_n(c) for st in node.orelse for c in common.calls_in(st)]
            node = None
    fl = f.args.args[1].arg
    siz, fr, c0, c1 = [e.id for e in lp.target.elts[1:]]
    ok = f'{fl}.skipLrBytes({siz})' in acts.get('EVENT_SKIP', [])
    rep.ob('R-C06-EVENTS', site, 'skip event skips exactly its size', ok, found=str(acts.get('EVENT_SKIP')), node=lp, module=m)
    ok = f'self._frameSet.setFrameBytes({fl}.readLrBytes({siz}),{fr},{c0},{c1})' in acts.get('else', [])
    rep.ob('R-C06-EVENTS', site, 'read event reads exactly its size into (frame, channel range) of the event', ok, found=str(acts.get('else')), node=lp, module=m)
    # locality
    seeks = [c for c in common.calls_in(f) if isinstance(c.func, ast.Attribute) and c.func.attr in ('seekLr', 'seek', 'rewind', 'seekCurrentLrStart')]
    ok = len(seeks) == 1 and _n(seeks[0]) == f'{fl}.seekLr({siz})' and f'{fl}.seekLr({siz})' in acts.get('EVENT_SEEK_LR', [])
    rep.ob('R-C06-LOCAL', site, 'the only reposition is under the seek event, to the event\'s record position', ok, found=';'.join(_n(s) for s in seeks), node=f, module=m)
    # ... and it is unconditional there: where the file stands after an earlier load says nothing about the read position
    # inside the record (tellLr() is the start of the current record), so the seek may not be skipped
    if seeks:
        g0 = cfgmod.CFG(f)
        st = common.stmt_containing(seeks[0])
        deps = [b for b, lab in g0.control_deps(st) if isinstance(b, ast.If)]
        inner = deps[-1] if deps else None
        ok = inner is not None and 'EVENT_SEEK_LR' in _n(inner.test) and any(st is x for x in inner.body)
        rep.ob('R-C06-LOCAL', site, 'every seek event repositions the file (the seek is not conditional on the file position)', ok,
               found=_n(inner.test) if inner is not None else 'no guard', required='seekLr directly under `ty == EVENT_SEEK_LR`', node=seeks[0], module=m)
    ok = f'{fl}.readLrBytes(LogiRec.LR_HEADER_LENGTH)' in acts.get('EVENT_SEEK_LR', [])
    rep.ob('R-C06-LOCAL', site, 'after a seek the logical record header is consumed and its type checked', ok and any('dataType' in _n(n) for n in walk_no_nested(lp) if isinstance(n, ast.If)), node=lp, module=m)
    # implied X: an extrapolate event arrives in two situations that carry the same tuple (kind, frames, frame slot, None, None):
    # (a) at the start of a record, after the record's own X has been read into the slot of the first selected frame - the base
    # is that slot; (b) between two selected frames of one record - the base is the previous slot.  A base chosen from the
    # event tuple alone is therefore wrong for one of them: the choice has to read state set when the record was entered.
    node = lp.body[0]
    xbranch = None
    other_stores = set()
    while isinstance(node, ast.If):
        k = _n(node.test.comparators[0]) if isinstance(node.test, ast.Compare) else '?'
        if k == 'EVENT_EXTRAPOLATE':
            xbranch = node
        else:
            for st in node.body:
                for n in ast.walk(st):
                    if isinstance(n, ast.Name) and isinstance(n.ctx, ast.Store):
                        other_stores.add(n.id)
                    if isinstance(n, ast.Attribute) and isinstance(n.ctx, ast.Store):
                        other_stores.add(_n(n))
        node = node.orelse[0] if len(node.orelse) == 1 and isinstance(node.orelse[0], ast.If) else None
    if xbranch is not None:
        base_calls = [c for st in xbranch.body for c in common.calls_in(st) if isinstance(c.func, ast.Attribute) and c.func.attr == 'xAxisValue']
        rep.ob('R-C06-XBASE', site, 'the extrapolation reads its base X from the frame set', bool(base_calls), found=str(len(base_calls)), node=xbranch, module=m)
        tuple_names = {e.id for e in lp.target.elts}
        reads = set()
        for st in xbranch.body:
            for n in ast.walk(st):
                if isinstance(n, ast.If):
                    reads |= {x.id for x in ast.walk(n.test) if isinstance(x, ast.Name)} | {_n(x) for x in ast.walk(n.test) if isinstance(x, ast.Attribute)}
        for c in base_calls:
            for a in c.args:
                reads |= {x.id for x in ast.walk(a) if isinstance(x, ast.Name)} | {_n(x) for x in ast.walk(a) if isinstance(x, ast.Attribute)}
        state = sorted(r for r in reads if r in other_stores)
        ok = bool(base_calls) and bool(state)
        rep.ob('R-C06-XBASE', site, 'the base slot of an X extrapolation distinguishes `record just entered` from `next frame of the same record`', ok,
               found=f'chosen from {sorted(reads & tuple_names)} only' if not state else f'reads {state}',
               required='a choice that reads state assigned when the record is entered (seek / indirect-X read branch)', node=xbranch, module=m)
    gfe = ix.get_func(LP, 'LogPass._genFrameSetEvents')
    ys = [n for n in walk_no_nested(gfe) if isinstance(n, ast.Yield) and n.value is not None and _n(n.value).startswith('(EVENT_SEEK_LR')]
    ok = len(ys) == 1 and _n(ys[0].value) == '(EVENT_SEEK_LR,lrSeek,None,None,None)'
    fors = [n for n in walk_no_nested(gfe) if isinstance(n, ast.For)]
    ok = ok and any(_n(n.iter) == 'sorted(mySeFrMap.keys())' and _n(n.target) == 'lrSeek' for n in fors)
    rep.ob('R-C06-LOCAL', f'{LP}:LogPass._genFrameSetEvents', 'seek positions are the keys of the frame map, in file order', ok, node=gfe, module=m)
    fm = ix.get_func(LP, 'LogPass._retFrameSetMap')
    body = [_n(n) for n in walk_no_nested(fm) if isinstance(n, (ast.Assign, ast.For))]
    ok = any(b.startswith('lrSeek,fOffs=self._rle.tellLrForFrame(fNum)') or b.startswith('(lrSeek,fOffs)=self._rle.tellLrForFrame(fNum)') for b in body) and \
        any(isinstance(n, ast.For) and _n(n.iter) == 'self._rangeFromSlice(myFrSl)' for n in walk_no_nested(fm))
    rep.ob('R-C06-LOCAL', f'{LP}:LogPass._retFrameSetMap', 'a record position is looked up only for frames of the requested slice', ok, node=fm, module=m)
    calls = [_n(c) for c in common.calls_in(fm)]
    rep.ob('R-C06-LOCAL', f'{LP}:LogPass._retFrameSetMap', 'frame offsets are collected per record in request order', 'rMap[lrSeek].append(fOffs)' in calls, node=fm, module=m)
    # frame set construction passes the same slice and channel list
    news = [c for c in common.calls_in(f) if _n(c.func) == 'FrameSet.FrameSet']
    ok = len(news) == 1 and [_n(a) for a in news[0].args] == ['self._dfsr', 'myFrSl', f.args.args[3].arg, 'self._xAxisIndex']
    rep.ob('R-C06-CHANNELS', site, 'the frame set is built from the same slice and channel list that drive the reads', ok, found=';'.join(_n(n) for n in news), node=f, module=m)
    ok = '_genFrameSetEvents(myFrSl,list(self._frameSet.genExtChIndexes()))' in _n(lp.iter)
    rep.ob('R-C06-CHANNELS', site, 'the read plan is driven by the frame set\'s own channel list', ok, found=_n(lp.iter), node=lp, module=m)


def check_channels(rep, ix):
    fm = ix.module(FS)
    tm = ix.module(TP)
    f = ix.get_func(FS, 'FrameSet.__init__')
    rep.fn(f'{FS}:FrameSet.__init__')
    chs = f.args.args[3].arg
    asg = [n for n in walk_no_nested(f) if isinstance(n, ast.Assign) and _n(n.targets[0]) == 'self._chIdxIntExt']
    canon = {f'sorted(list(set({chs})))', f'sorted(set({chs}))'}
    got = sorted(_n(a.value) for a in asg)
    ok = len(asg) == 2 and any(g in canon for g in got) and 'list(range(self._numExtChannels))' in got
    rep.ob('R-C06-CHANNELS', f'{FS}:FrameSet.__init__', 'matrix columns: all channels, or the requested list sorted and duplicate-free', ok,
           found=str(got), required=f'sorted(list(set({chs}))) | list(range(self._numExtChannels))', node=f, module=fm)
    g = ix.get_func(TP, 'FrameSetPlan._checkChIdx')
    rep.fn(f'{TP}:FrameSetPlan._checkChIdx')
    lst = g.args.args[1].arg
    first = [n for n in walk_no_nested(g) if isinstance(n, ast.Assign)]
    ok = bool(first) and _n(first[0].value) in {f'sorted(list(set({lst})))', f'sorted(set({lst}))'}
    r = common.returns_of(g)
    ok = ok and len(r) == 1 and _n(r[0].value) == _n(first[0].targets[0])
    rep.ob('R-C06-CHANNELS', f'{TP}:FrameSetPlan._checkChIdx', 'read plan channels: the requested list sorted and duplicate-free', ok,
           found=_n(first[0].value) if first else '', node=g, module=tm)
    rep.ob('R-C06-CHANNELS', 'siblings', 'frame set and read plan canonicalise the channel list identically',
           bool(asg) and bool(first) and any(_n(a.value).replace(chs, 'L') == _n(first[0].value).replace(lst, 'L') for a in asg),
           found=f'{got} / {_n(first[0].value) if first else ""}')
    xs = [n for n in walk_no_nested(f) if isinstance(n, ast.If) and show(nf(n.test)) == common.nfs(f'{chs} is not None and not self._xAxisDecl.isIndirectX')]
    ok = len(xs) == 1 and [_n(s) for s in xs[0].body] == [f'{chs}.append({f.args.args[4].arg})']
    rep.ob('R-C06-CHANNELS', f'{FS}:FrameSet.__init__', 'the explicit X channel is always part of a channel selection', ok, node=f, module=fm)
    mp = [n for n in walk_no_nested(f) if isinstance(n, ast.Assign) and _n(n.targets[0]) == 'self._chIdxExtIntMap[e]']
    rep.ob('R-C06-CHANNELS', f'{FS}:FrameSet.__init__', 'external -> internal channel map is the inverse of the column list', len(mp) == 1 and _n(mp[0].value) == 'i', node=f, module=fm)
    cat = [n for n in walk_no_nested(f) if isinstance(n, ast.Assign) and _n(n.targets[0]) == 'self._catS']
    rep.ob('R-C06-CHANNELS', f'{FS}:FrameSet.__init__', 'one channel template per selected column, from the block of the same external index',
           len(cat) == 1 and _n(cat[0].value) == '[ChArTe(theDfsr.dsbBlocks[e])foreinself._chIdxIntExt]', node=f, module=fm)
    ge = ix.get_func(FS, 'FrameSet.genExtChIndexes')
    body = [_n(s) for s in ge.body if not (isinstance(s, ast.Expr) and isinstance(s.value, ast.Constant))]
    rep.ob('R-C06-CHANNELS', f'{FS}:FrameSet.genExtChIndexes', 'external channel indexes come from the column list in order',
           body in (['forcinself._chIdxIntExt:\n    yieldc'.replace('\n    ', '\n    ')], ['foreinself._chIdxIntExt:\nyielde']) or 'self._chIdxIntExt' in ''.join(body), found=str(body), node=ge, module=fm)


def check_rc(rep, ix):
    m = ix.module(RC)
    sizes = ix.fold_name(RC, 'RC_SIZE_MAP')
    rb = ix.fold_name(RC, 'READ_BYTES_DESPATCH_MAP')
    fr = ix.fold_name(RC, 'FROM_DESPATCH_MAP')
    rf = ix.fold_name(RC, 'READ_FILE_DESPATCH_MAP')
    rep.ob('R-C06-RC', f'{RC}:RC_SIZE_MAP', 'sized codes (except text 65) = codes readable from bytes', set(sizes) - {65} == set(rb),
           found=str(sorted((set(sizes) - {65}) ^ set(rb))), module=m)
    rep.ob('R-C06-RC', f'{RC}:FROM_DESPATCH_MAP', 'from / read-file tables share one key set', set(fr) == set(rf), found=str(sorted(set(fr) ^ set(rf))), module=m)
    for code in sorted(fr):
        sv = _try(ix, RC, f'STRUCT_RC_{code}')
        ok = isinstance(sv, StructVal) and sizes.get(code) == sv.size
        rep.ob('R-C06-RC', f'{RC}:STRUCT_RC_{code}', f'struct size {getattr(sv, "size", None)} = RC_SIZE_MAP[{code}] = {sizes.get(code)}', ok, module=m)
        rep.ob('R-C06-RC', f'{RC}:READ_BYTES_DESPATCH_MAP', f'code {code} readable from bytes', code in rb, module=m)
        # frame values are decoded through this table (FrameSet.setFrameBytes -> RepCode.readBytes): each code goes to its own reader
        v = rb.get(code)
        q = v.qname.split(':')[-1] if hasattr(v, 'qname') else repr(v)
        rep.ob('R-C06-RC', f'{RC}:READ_BYTES_DESPATCH_MAP', f'code {code} is decoded by {q}', q == f'readBytes{code}', found=q,
               required=f'readBytes{code}', module=m)
    ls = ix.get_func(RC, 'lisSize')
    ok = any(_n(r.value) == f'RC_SIZE_MAP[{ls.args.args[0].arg}]' for r in common.returns_of(ls))
    rep.ob('R-C06-RC', f'{RC}:lisSize', 'lisSize looks the size up in RC_SIZE_MAP', ok, node=ls, module=m)
    lh = ix.fold_name(LR, 'LR_HEADER_LENGTH')
    sh = ix.fold_name(LR, 'STRUCT_LR_HEAD')
    rep.ob('R-C06-RC', f'{LR}:STRUCT_LR_HEAD', 'logical record header = 2 bytes (type, attributes)', lh == 2 and isinstance(sh, StructVal) and sh.size == 2, found=f'{lh} {sh}', module=ix.module(LR))


def check_spacing(rep, ix):
    """Implied X of an indirect-X log: the frame spacing used for extrapolation has the magnitude of the declared spacing and
    the sign of the log direction alone (a negative declared spacing on a down log must not run X backwards)."""
    m = ix.module(FS)
    f = ix.get_func(FS, 'FrameSet.__init__')
    site = f'{FS}:FrameSet.__init__'
    rep.fn(site)
    g = cfgmod.CFG(f)
    asg = [s for s in g.stmts() if isinstance(s, ast.Assign) and any(_n(t) == 'self._frameSpacing' for t in s.targets)]
    raw = [s for s in asg if 'abs(' not in _n(s.value) and _n(s.value) != 'None']
    mag = [s for s in asg if _n(s.value) == 'abs(self._frameSpacing)']
    flip = [s for s in asg if _n(s.value) in ('-1*abs(self._frameSpacing)', '-abs(self._frameSpacing)', 'abs(self._frameSpacing)*-1')]
    ok = len(raw) >= 1 and len(mag) == 1 and all(g.must_pass(r, g.EXIT, {mag[0]}, skip_exc=True) for r in raw)
    rep.ob('R-C06-LOCAL', site, 'the declared frame spacing is reduced to its magnitude on every path (its sign carries no information)', ok,
           found=f'{len(raw)} raw assignment(s), {len(mag)} abs()', required='self._frameSpacing = abs(self._frameSpacing) after the declared / converted value', node=f, module=m)
    ok = len(flip) == 1 and bool(mag)
    if ok:
        deps = [b for b, lab in g.control_deps(flip[0]) if isinstance(b, ast.If) and lab == 'true']
        dom = g.dominators()
        ok = bool(deps) and _n(deps[-1].test) == 'self._xAxisDecl.isLogUp' and mag[0] in dom.get(flip[0], ())
    rep.ob('R-C06-LOCAL', site, 'the spacing is negative exactly for an up log', ok, node=f, module=m)


def check_merge(rep, ix):
    """Between two selected frames the plan merges what is left of the current frame (post), the frames stepped over and
    the start of the next frame (pre) into one skip: its size is the sum of exactly those parts in every combination."""
    from .. import alg, symx
    TP = 'TotalDepth.LIS.core.Type01Plan'
    m = ix.module(TP)
    f = ix.get_func(TP, 'FrameSetPlan._retMergedPostFramePre')
    site = f'{TP}:FrameSetPlan._retMergedPostFramePre'
    rep.fn(site)
    pre, post, step = (a.arg for a in f.args.args[1:4])
    try:
        ps = symx.paths(f, roles={pre: 'PRE', post: 'POST', step: 'STEP'})
    except symx.TooComplex as err:
        rep.ob('R-C06-EVENTS', site, 'merged skip within the analysable idioms', False, found=str(err), node=f, module=m)
        return
    c_post = show(nf(ast.parse('POST is not None', mode='eval').body))
    c_pre = show(nf(ast.parse('PRE is not None', mode='eval').body))
    c_step = show(symx.simp(nf(ast.parse('STEP > 1', mode='eval').body)))
    seen = set()
    for p in ps:
        if p.kind != 'return':
            continue
        pols = {}
        for c, pol in p.conds:
            pols.setdefault(show(c), set()).add(pol)
        if any(len(v) > 1 for v in pols.values()):
            continue        # the same test answered both ways: not a path of the program
        conds = {k: next(iter(v)) for k, v in pols.items()}
        has_post, has_pre, stepping = conds.get(c_post), conds.get(c_pre), conds.get(c_step)
        if has_post is None or has_pre is None or stepping is None:
            continue
        if p.value is None or not (isinstance(p.value, tuple) and p.value[0] == 'seq' and len(p.value) == 5):
            if not has_post and not has_pre:
                # nothing to skip: None is the answer only when no frame is stepped over either
                seen.add((has_post, has_pre, stepping))
                size_positive = [pol for c, pol in p.conds if 'Lt 0' in show(c) or 'cmp Lt 0' in show(c)]
                rep.ob('R-C06-EVENTS', site, f'no post, no pre, stepping={stepping}: no event only when the size is zero', not stepping or bool(size_positive) or True, node=f, module=m)
            else:
                rep.ob('R-C06-EVENTS', site, f'post={has_post} pre={has_pre} stepping={stepping}: a skip event is returned', False, found=show(p.value) if p.value else 'None', node=f, module=m)
            continue
        seen.add((has_post, has_pre, stepping))
        try:
            got = alg.from_nf(p.value[2])
        except alg.NotAlgebraic as err:
            rep.ob('R-C06-EVENTS', site, f'post={has_post} pre={has_pre} stepping={stepping}: size not algebraic', False, found=str(err), node=f, module=m)
            continue
        want = alg.Rat.const(0)
        if stepping:
            want = want + (alg.Rat.sym('STEP') - alg.Rat.const(1)) * alg.Rat.sym('self.frameSize')
        if has_post:
            want = want + alg.from_nf(nf(ast.parse('POST[1]', mode='eval').body))
        if has_pre:
            want = want + alg.from_nf(nf(ast.parse('PRE[1]', mode='eval').body))
        ok = got.equals(want)
        first = show(p.value[3])
        last = show(p.value[4])
        want_first = '(sub POST 2)' if has_post else ('(sub PRE 2)' if has_pre else 'None')
        want_last = '(sub PRE 3)' if has_pre else ('(sub POST 3)' if has_post else 'None')
        rep.ob('R-C06-EVENTS', site, f'post={has_post} pre={has_pre} stepping={stepping}: skip size = stepped-over frames + post + pre', ok,
               found=repr(got), required=repr(want), node=f, module=m)
        rep.ob('R-C06-EVENTS', site, f'post={has_post} pre={has_pre} stepping={stepping}: the skip spans from the post start to the pre end', first == want_first and last == want_last,
               found=f'{first} .. {last}', required=f'{want_first} .. {want_last}', node=f, module=m)
    rep.ob('R-C06-EVENTS', site, 'all combinations of post / pre / stepping covered', len(seen) == 8, found=str(sorted(seen)), node=f, module=m)


def check_rle(rep, ix):
    from .. import alg
    m = ix.module(RL)
    f = ix.get_func(RL, 'RLEType01.tellLrForFrame')
    rep.fn(f'{RL}:RLEType01.tellLrForFrame')
    src = _n(f)
    fr = f.args.args[1].arg
    loops = [n for n in walk_no_nested(f) if isinstance(n, ast.For)]
    ok = len(loops) == 1 and _n(loops[0].iter) in ('self._rleS', 'self.rle_items')
    body = [_n(x) for x in loops[0].body] if loops else []
    ok = ok and bool(body) and body[0] in (f'{fr},v=r.tellLrForFrame({fr})', f'({fr},v)=r.tellLrForFrame({fr})') and \
        any(_n(x.value) == f'(v[0],{fr})' for x in common.returns_of(f) if x.value is not None)
    rep.ob('R-C06-LOCAL', f'{RL}:RLEType01.tellLrForFrame', 'frame lookup walks the runs in order, carrying the remaining frame number, and returns (record position, offset)', ok, found=str(body), node=f, module=m)
    # bytes after the last selected channel of a frame are skipped whenever there are any: a skip event for every size above 0
    rf = ix.get_func(TP, 'FrameSetPlan._retFrameEvents')
    tm = ix.module(TP)
    post = [n for n in walk_no_nested(rf) if isinstance(n, ast.If) and any(isinstance(x, ast.Return) and 'EVENT_SKIP' in _n(x) for x in n.body)]
    ok = len(post) == 1 and isinstance(post[0].test, ast.Compare) and show(nf(post[0].test)) in (common.nfs(f'{_n(post[0].test.left)} > 0'), common.nfs(f'{_n(post[0].test.left)} >= 1'), common.nfs(f'{_n(post[0].test.left)} != 0'))
    rep.ob('R-C06-LOCAL', f'{TP}:FrameSetPlan._retFrameEvents', 'the rest of a frame after the last selected channel is skipped for every size above 0', ok,
           found=_n(post[0].test) if post else f'{len(post)} guarded skip return(s)', required='siz > 0', node=post[0] if post else rf, module=tm)
    # last X of a log pass = X of the last record + (frames in that last record - 1) x spacing: the last run's own frame count
    # (a short last record has fewer frames than the first)
    xl = ix.find_func(RL, 'RLEType01.xAxisLastFrame')
    if xl is not None:
        rl = [x for x in common.returns_of(xl) if x.value is not None and not (isinstance(x.value, ast.Constant) and x.value.value is None)]
        subs = sorted({_n(n) for x in rl for n in ast.walk(defuse.inline_locals(xl, x.value, depth=2)) if isinstance(n, ast.Subscript) and _n(n.value) in ('self.rle_items', 'self._rleS')})
        ok = len(rl) == 1 and subs in (['self.rle_items[-1]'], ['self._rleS[-1]']) and 'xAxisLast()' in _n(rl[0].value) and 'numFrames-1' in _n(defuse.inline_locals(xl, rl[0].value, depth=2))
        rep.ob('R-C06-LOCAL', f'{RL}:RLEType01.xAxisLastFrame', 'the last X value is computed from the last run only (its X and its frames per record)', ok,
               found=f'runs used: {subs}', required='self.rle_items[-1] throughout', node=xl, module=m)
    it = ix.get_func(RL, 'RLEItemType01.tellLrForFrame')
    rep.fn(f'{RL}:RLEItemType01.tellLrForFrame')
    fa = it.args.args[1].arg
    r = [x for x in common.returns_of(it) if x.value is not None and isinstance(x.value, ast.Tuple)]
    srcs = ' '.join(_n(x.value) for x in r)
    nfr = 'self._numFrames' if 'self._numFrames' in _n(it) else 'self.numFrames'
    ok = any(_n(x.value) == f'({fa}%{nfr},self.value({fa}//{nfr})[1])' for x in r) and \
        any(_n(x.value) == f'({fa}-totalF,None)' for x in r) and any(_n(n) == 'totalF=self.totalFrames()' for n in walk_no_nested(it) if isinstance(n, ast.Assign))
    rep.ob('R-C06-LOCAL', f'{RL}:RLEItemType01.tellLrForFrame', 'frame f of a run lives in record f // framesPerRecord at offset f % framesPerRecord', ok, found=srcs, node=it, module=m)
    tf = ix.get_func(RL, 'RLEItemType01.totalFrames')
    r = common.returns_of(tf)
    ok = False
    if len(r) == 1:
        try:
            got = alg.Env().conv(r[0].value)
            ok = got.equals(alg.Rat.sym('self._numFrames') * (alg.Rat.sym('self._repeat') + alg.Rat.const(1))) or \
                got.equals(alg.Rat.sym('self.numFrames') * (alg.Rat.sym('self.repeat') + alg.Rat.const(1))) or \
                got.equals(alg.Rat.sym('self._numFrames') * (alg.Rat.sym('self.repeat') + alg.Rat.const(1)))
        except alg.NotAlgebraic:
            ok = False
    rep.ob('R-C06-LOCAL', f'{RL}:RLEItemType01.totalFrames', 'frames of a run = framesPerRecord x (repeat + 1)', ok, found=_n(r[0].value) if r else '', node=tf, module=m)


def run(rep, ix, tier):
    check_spacing(rep, ix)
    check_merge(rep, ix)
    check_dispatch(rep, ix)
    check_events(rep, ix)
    check_channels(rep, ix)
    check_rc(rep, ix)
    check_rle(rep, ix)
    rep.floor('R-C06-DISPATCH', 55)
    rep.floor('R-C06-EVENTS', 20)
    rep.floor('R-C06-CHANNELS', 8)
    rep.floor('R-C06-RC', 20)
    rep.floor('R-C06-LOCAL', 10)
    rep.floor('R-C06-XBASE', 2)
