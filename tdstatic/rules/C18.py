"""C18 Generated XML, XHTML and SVG are well-formed and carry the data unchanged."""
import ast
import re

from .. import cfg as cfgmod
from ..loader import AnalysisError, Unfoldable, walk_no_nested, enclosing_function, enclosing_class
from ..norm import nf, show, attr_chain
from . import common, C16

EXPLANATION = (
    'Clause checks over the one writer every document goes through. (1) R-C18-ENCODE: XmlStream._encode is interpreted '
    'abstractly over a partition of the code-point space (split further by the keys of ENTITY_MAP and by every comparison '
    'in the function); for each class the emitted form (entity, numeric reference, raw character, constant) must be legal '
    'XML 1.0 and denote the same character, or be a legal replacement where XML has no representation. (2) R-C18-SINK: '
    'every write to the underlying file inside the XmlStream class family is classified; data may reach the file raw only '
    'through the named channels (element / attribute names, literal(), script text, encoding name), and every call site '
    'of those channels in the repository passes constants (names match the XML Name production, literal text has no bare '
    '< or &); attribute values, text, comments and PIs pass through _encode; comments have -- neutralised. '
    '(3) R-C18-NEST: the close tag is the popped stack entry, a pending start tag is closed before any content, __exit__ '
    'closes what is open, Element pairs start/end and does not swallow exceptions. (4) R-C18-INDENT: white space is '
    'injected only when no open element has character content or preserved space. (5) R-C18-INDEX: the RP66V1 XML index '
    'writes one EFLR element per table and one FrameArray per frame type with frame numbers, record positions and X '
    'values run-length encoded from the in-memory index; the run-length rules of C16 are re-checked here.')
NOT_DECIDED = ('that whole documents produced from real files parse; balance of explicit startElement/endElement pairs driven by '
               'run-time table events (enforced dynamically by endElement name check and __exit__).')
ASSUMPTIONS = ['file-like objects write what they are given', 'str iteration yields code points']
TECHNIQUE = 'static analysis: abstract interpretation of the encoder over character classes, sink/def-use classification of writes, call-site constant rules, CFG dominance'

XW = 'TotalDepth.util.XmlWrite'
IXM = 'TotalDepth.RP66V1.IndexXML'
NAME_RE = re.compile(r'[A-Za-z_:][A-Za-z0-9_:.\-]*\Z')
MAXCP = 0x10FFFF
# XML 1.0 Char production
XML_CHAR = [(9, 10), (13, 13), (0x20, 0xD7FF), (0xE000, 0xFFFD), (0x10000, MAXCP)]
PREDEFINED = {'<': '&lt;', '>': '&gt;', '&': '&amp;', "'": '&apos;', '"': '&quot;'}
# a raw (unescaped) character is legal in both text and a "-quoted attribute value, and is recovered unchanged, when it
# is printable ASCII other than these; raw TAB/LF/CR are altered by attribute-value / line-end normalisation
RAW_FORBIDDEN = {'<': 'starts markup', '&': 'starts a reference', '"': 'ends the attribute value', '>': 'would allow ]]> in text'}


def _n(e):
    return ast.unparse(e).replace(' ', '')


def _in(iv, sets):
    lo, hi = iv
    return any(a <= lo and hi <= b for a, b in sets)


def _disjoint(iv, sets):
    lo, hi = iv
    return all(hi < a or b < lo for a, b in sets)


def _split(iv, cuts):
    """split interval iv at the borders of the intervals `cuts`"""
    pts = {iv[0], iv[1] + 1}
    for a, b in cuts:
        for p in (a, b + 1):
            if iv[0] < p <= iv[1]:
                pts.add(p)
    pts = sorted(pts)
    return [(pts[i], pts[i + 1] - 1) for i in range(len(pts) - 1)]


def _cp(iv):
    return f'U+{iv[0]:04X}' if iv[0] == iv[1] else f'U+{iv[0]:04X}..U+{iv[1]:04X}'


class NotAnalysable(Exception):
    pass


class EncodeInterp:
    """Abstract interpretation of the per-character body of _encode: the state is a set of code-point intervals; every
    comparison on ord(c) / membership test splits it; every append records (interval, emission)."""

    def __init__(self, ix, mod, cls, func):
        self.ix, self.mod, self.cls, self.func = ix, mod, cls, func
        self.out = []          # (interval, emission kind, detail, node)
        self.cvar = None
        self.lst = None

    def fold(self, e):
        if isinstance(e, ast.Call) and isinstance(e.func, ast.Name) and e.func.id == 'ord' and len(e.args) == 1:
            v = self.fold(e.args[0])
            if isinstance(v, str) and len(v) == 1:
                return ord(v)
            raise NotAnalysable(ast.unparse(e))
        if isinstance(e, ast.Attribute) and isinstance(e.value, ast.Name) and e.value.id == 'self':
            try:
                return self.ix.fold_class_attr(self.mod, self.cls.name, e.attr)
            except (Unfoldable, AnalysisError, KeyError) as err:
                raise NotAnalysable(f'{ast.unparse(e)}: {err}')
        try:
            return self.ix.fold(self.mod, e)
        except Unfoldable as err:
            raise NotAnalysable(f'{ast.unparse(e)}: {err}')

    def run(self):
        f = self.func
        params = [a.arg for a in f.args.args]
        if len(params) != 2:
            raise NotAnalysable('signature')
        loops = [s for s in f.body if isinstance(s, ast.For)]
        if len(loops) != 1 or not (isinstance(loops[0].iter, ast.Name) and loops[0].iter.id == params[1] and isinstance(loops[0].target, ast.Name)):
            raise NotAnalysable('expected one loop over the characters of the argument')
        self.cvar = loops[0].target.id
        inits = [s for s in f.body if isinstance(s, ast.Assign) and isinstance(s.value, ast.List) and not s.value.elts and isinstance(s.targets[0], ast.Name)]
        if len(inits) != 1:
            raise NotAnalysable('expected one result list')
        self.lst = inits[0].targets[0].id
        rets = common.returns_of(f)
        if len(rets) != 1 or _n(rets[0].value) != f"''.join({self.lst})":
            raise NotAnalysable("expected return ''.join(<result list>)")
        others = [s for s in f.body if s not in loops and s not in inits and s not in rets and not (isinstance(s, ast.Expr) and isinstance(s.value, ast.Constant))]
        if others:
            raise NotAnalysable(f'statement outside the loop: {ast.unparse(others[0])[:60]}')
        rest = self.block(loops[0].body, [(0, MAXCP)])
        for iv in rest:
            self.out.append((iv, 'nothing', 'character dropped', loops[0]))
        return self.out

    def is_c(self, e):
        return isinstance(e, ast.Name) and e.id == self.cvar

    def is_ord_c(self, e):
        return isinstance(e, ast.Call) and isinstance(e.func, ast.Name) and e.func.id == 'ord' and len(e.args) == 1 and self.is_c(e.args[0])

    def block(self, stmts, ivs):
        """returns the intervals that fall through WITHOUT having emitted (an emission ends the iteration's work for
        that class; a second emission for the same class is recorded too)."""
        live = list(ivs)
        for st in stmts:
            if not live:
                break
            live = self.stmt(st, live)
        return live

    def stmt(self, st, ivs):
        if isinstance(st, ast.Try):
            # try: <emit MAP[c]>  except KeyError: <handler>
            if len(st.body) == 1 and len(st.handlers) == 1 and st.handlers[0].type is not None and _n(st.handlers[0].type) == 'KeyError' and not st.orelse and not st.finalbody:
                m = self.map_lookup(st.body[0])
                if m is not None:
                    keys = self.keyset(m)
                    miss = []
                    for iv in ivs:
                        for piece in _split(iv, [(k, k) for k in keys]):
                            if piece[0] == piece[1] and piece[0] in keys:
                                self.out.append((piece, 'const', keys[piece[0]], st.body[0]))
                            else:
                                miss.append(piece)
                    return self.block(st.handlers[0].body, miss)
            raise NotAnalysable(f'try statement: {ast.unparse(st)[:60]}')
        if isinstance(st, ast.If):
            t, f = [], []
            for iv in ivs:
                a, b = self.cond(st.test, iv)
                t += a
                f += b
            return self.block(st.body, t) + self.block(st.orelse, f)
        if isinstance(st, ast.Expr) and isinstance(st.value, ast.Call) and _n(st.value.func) == f'{self.lst}.append' and len(st.value.args) == 1:
            e = st.value.args[0]
            for iv in ivs:
                self.emit(e, iv, st)
            return []
        if isinstance(st, ast.Continue):
            for iv in ivs:
                self.out.append((iv, 'nothing', 'character dropped', st))
            return []
        if isinstance(st, ast.Pass) or (isinstance(st, ast.Expr) and isinstance(st.value, ast.Constant)):
            return ivs
        raise NotAnalysable(f'statement {ast.unparse(st)[:60]}')

    def map_lookup(self, st):
        if isinstance(st, ast.Expr) and isinstance(st.value, ast.Call) and _n(st.value.func) == f'{self.lst}.append' and len(st.value.args) == 1:
            e = st.value.args[0]
            if isinstance(e, ast.Subscript) and self.is_c(e.slice):
                return e.value
        return None

    def keyset(self, mapexpr):
        m = self.fold(mapexpr)
        if not isinstance(m, dict) or not all(isinstance(k, str) and len(k) == 1 and isinstance(v, str) for k, v in m.items()):
            raise NotAnalysable('entity map is not a dict of single characters to strings')
        return {ord(k): v for k, v in m.items()}

    def cond(self, test, iv):
        """-> (true pieces, false pieces)"""
        if isinstance(test, ast.UnaryOp) and isinstance(test.op, ast.Not):
            a, b = self.cond(test.operand, iv)
            return b, a
        if isinstance(test, ast.BoolOp):
            if isinstance(test.op, ast.And):
                t, f = [iv], []
                for v in test.values:
                    nt = []
                    for p in t:
                        a, b = self.cond(v, p)
                        nt += a
                        f += b
                    t = nt
                return t, f
            t, f = [], [iv]
            for v in test.values:
                nf_ = []
                for p in f:
                    a, b = self.cond(v, p)
                    t += a
                    nf_ += b
                f = nf_
            return t, f
        if isinstance(test, ast.Compare) and len(test.ops) == 1:
            l, op, r = test.left, test.ops[0], test.comparators[0]
            if isinstance(op, (ast.In, ast.NotIn)) and self.is_c(l):
                v = self.fold(r)
                if isinstance(v, dict):
                    v = list(v.keys())
                if not all(isinstance(x, str) and len(x) == 1 for x in v):
                    raise NotAnalysable(ast.unparse(test))
                pts = sorted({ord(x) for x in v})
                t, f = [], []
                for p in _split(iv, [(k, k) for k in pts]):
                    (t if p[0] == p[1] and p[0] in pts else f).append(p)
                return (t, f) if isinstance(op, ast.In) else (f, t)
            flip = {ast.Lt: ast.Gt, ast.Gt: ast.Lt, ast.LtE: ast.GtE, ast.GtE: ast.LtE, ast.Eq: ast.Eq, ast.NotEq: ast.NotEq}
            opt = type(op)
            if not (self.is_ord_c(l) or self.is_c(l)):
                l, r = r, l
                opt = flip.get(opt)
            if opt is None or not (self.is_ord_c(l) or self.is_c(l)):
                raise NotAnalysable(ast.unparse(test))
            k = self.fold(r)
            if self.is_c(l):
                if not (isinstance(k, str) and len(k) == 1):
                    raise NotAnalysable(ast.unparse(test))
                k = ord(k)
            if not isinstance(k, int):
                raise NotAnalysable(ast.unparse(test))
            truth = {ast.Lt: (0, k - 1), ast.LtE: (0, k), ast.Gt: (k + 1, MAXCP), ast.GtE: (k, MAXCP), ast.Eq: (k, k)}
            if opt is ast.NotEq:
                a, b = self.cond(ast.Compare(left=l, ops=[ast.Eq()], comparators=[r]), iv)
                return b, a
            tr = truth[opt]
            t, f = [], []
            for p in _split(iv, [tr]) if tr[0] <= tr[1] else [iv]:
                (t if tr[0] <= p[0] and p[1] <= tr[1] else f).append(p)
            return t, f
        raise NotAnalysable(f'condition {ast.unparse(test)[:60]}')

    def emit(self, e, iv, node):
        if self.is_c(e):
            self.out.append((iv, 'raw', '', node))
            return
        if isinstance(e, ast.Constant) and isinstance(e.value, str):
            self.out.append((iv, 'const', e.value, node))
            return
        if isinstance(e, ast.Subscript) and self.is_c(e.slice):
            keys = self.keyset(e.value)
            for p in _split(iv, [(k, k) for k in keys]):
                if p[0] == p[1] and p[0] in keys:
                    self.out.append((p, 'const', keys[p[0]], node))
                else:
                    self.out.append((p, 'crash', 'KeyError', node))
            return
        if isinstance(e, ast.JoinedStr):
            parts = e.values
            if len(parts) == 3 and all(isinstance(parts[i], ast.Constant) for i in (0, 2)) and isinstance(parts[1], ast.FormattedValue) and self.is_ord_c(parts[1].value) and parts[2].value == ';':
                spec = ''
                if parts[1].format_spec is not None:
                    spec = ''.join(v.value for v in parts[1].format_spec.values if isinstance(v, ast.Constant))
                if parts[0].value == '&#' and re.fullmatch(r'0?\d*d?', spec):
                    self.out.append((iv, 'decref', spec, node))
                    return
                if parts[0].value == '&#x' and re.fullmatch(r'0?\d*[xX]', spec):
                    self.out.append((iv, 'hexref', spec, node))
                    return
        if isinstance(e, ast.BinOp) and isinstance(e.op, ast.Mod) and isinstance(e.left, ast.Constant) and self.is_ord_c(e.right):
            if re.fullmatch(r'&#%0?\d*d;', e.left.value):
                self.out.append((iv, 'decref', e.left.value, node))
                return
            if re.fullmatch(r'&#x%0?\d*[xX];', e.left.value):
                self.out.append((iv, 'hexref', e.left.value, node))
                return
        # c.encode('ascii', 'xmlcharrefreplace').decode(...)
        if isinstance(e, ast.Call) and isinstance(e.func, ast.Attribute) and e.func.attr == 'decode' and isinstance(e.func.value, ast.Call):
            inner = e.func.value
            if isinstance(inner.func, ast.Attribute) and inner.func.attr == 'encode' and self.is_c(inner.func.value) and len(inner.args) == 2 and \
                    all(isinstance(a, ast.Constant) for a in inner.args) and inner.args[0].value.lower() in ('ascii', 'us-ascii') and inner.args[1].value == 'xmlcharrefreplace':
                for p in _split(iv, [(0, 127)]):
                    self.out.append((p, 'raw' if p[1] <= 127 else 'decref', 'via xmlcharrefreplace', node))
                return
        raise NotAnalysable(f'emitted expression {ast.unparse(e)[:70]}')


def check_encode(rep, ix):
    m = ix.module(XW)
    cls = ix.get_class(XW, 'XmlStream')
    f = ix.get_func(XW, 'XmlStream._encode')
    site = f'{XW}:XmlStream._encode'
    rep.fn(site)
    try:
        out = EncodeInterp(ix, XW, cls, f).run()
    except NotAnalysable as err:
        rep.ob('R-C18-ENCODE', site, 'encoder within the analysable idioms', False, found=str(err), node=f, module=m)
        return
    # refine the result by the reference partition so that verdicts are per class of XML legality
    ref = [(0, 8), (9, 9), (10, 10), (11, 12), (13, 13), (14, 31), (32, 126), (127, 127), (128, 0xD7FF), (0xD800, 0xDFFF), (0xE000, 0xFFFD), (0xFFFE, 0xFFFF), (0x10000, MAXCP)]
    pieces = []
    for iv, kind, detail, node in out:
        for p in _split(iv, ref):
            pieces.append((p, kind, detail, node))
    # merge adjacent pieces with the same emission inside one reference class (keeps obligation keys stable)
    pieces.sort(key=lambda x: x[0])
    merged = []
    for p, kind, detail, node in pieces:
        if merged and merged[-1][1:3] == (kind, detail) and merged[-1][0][1] + 1 == p[0] and any(a <= merged[-1][0][0] and p[1] <= b for a, b in ref) \
                and not (kind == 'raw' and any(ord(ch) in range(merged[-1][0][0], p[1] + 1) for ch in RAW_FORBIDDEN)):
            merged[-1] = ((merged[-1][0][0], p[1]), kind, detail, node)
        else:
            merged.append((p, kind, detail, node))
    covered = 0
    for iv, kind, detail, node in merged:
        covered += iv[1] - iv[0] + 1
        representable = _in(iv, XML_CHAR)
        if not representable and not _disjoint(iv, XML_CHAR):
            raise AnalysisError('partition not aligned with the XML Char production')
        label = f'{_cp(iv)} -> '
        if kind == 'const':
            ch = chr(iv[0]) if iv[0] == iv[1] else None
            if representable:
                ok = ch is not None and PREDEFINED.get(ch) == detail
                why = 'a constant stands for the character only if it is that character\'s predefined entity'
            else:
                ok = all(_in((ord(x), ord(x)), XML_CHAR) for x in detail) and not any(x in detail for x in '<&') or re.fullmatch(r'&(lt|gt|amp|apos|quot|#[0-9]+|#x[0-9A-Fa-f]+);', detail) is not None
                why = 'replacement text for a character XML cannot represent must itself be legal'
            rep.ob('R-C18-ENCODE', site, label + f'constant {detail!r}', ok, found=detail, required=why, node=node, module=m)
        elif kind in ('decref', 'hexref'):
            rep.ob('R-C18-ENCODE', site, label + ('decimal' if kind == 'decref' else 'hexadecimal') + ' character reference', representable,
                   found=f'&#{"x" if kind == "hexref" else ""}N; for N in {_cp(iv)}', required='a character reference must denote a character of the XML Char production (#x9 | #xA | #xD | [#x20-#xD7FF] | [#xE000-#xFFFD] | [#x10000-#x10FFFF])', node=node, module=m)
        elif kind == 'raw':
            bad = [c for c in RAW_FORBIDDEN if iv[0] <= ord(c) <= iv[1]]
            ok = representable and iv[1] <= 126 and iv[0] >= 32 and not bad or iv == (127, 127)
            rep.ob('R-C18-ENCODE', site, label + 'written as is', ok, found=', '.join(f'{c!r} {RAW_FORBIDDEN[c]}' for c in bad) or ('outside printable ASCII' if not (32 <= iv[0] and iv[1] <= 127) else ''),
                   required='only printable ASCII without < & " > may be written unescaped (others are altered by normalisation, depend on the file encoding or are illegal)', node=node, module=m)
        else:
            rep.ob('R-C18-ENCODE', site, label + f'{kind}: {detail}', not representable and kind == 'nothing', found=detail,
                   required='a representable character must be carried', node=node, module=m)
    rep.ob('R-C18-ENCODE', site, 'every code point is classified', covered == MAXCP + 1, found=str(covered), node=f, module=m)


# ---------------------------------------------------------------------------------------------- sinks
RAW_CHANNELS = {
    ('startElement', 'name'): 'element name: every call site passes a constant XML Name (R-C18-NAME)',
    ('startElement', 'k'): 'attribute name: keys of the attribute dictionaries are constant XML Names (R-C18-NAME)',
    ('endElement', 'name'): 'the name popped from the element stack (pushed by startElement)',
    ('literal', 'theString'): 'documented unencoded channel: every call site passes constant text (R-C18-RAW)',
    ('writeECMAScript', 'theScript'): 'script text inside CDATA: call sites pass constants (R-C18-RAW)',
    ('__enter__', 'self._enc'): 'encoding name given to the constructor: call sites pass none or a constant (R-C18-RAW)',
}


def _stream_classes(ix):
    out = []
    for mn in ix.module_names():
        if not mn.startswith('TotalDepth'):
            continue
        try:
            mod = ix.module(mn)
        except AnalysisError:
            continue
        for n in mod.tree.body:
            if isinstance(n, ast.ClassDef):
                try:
                    if n.name == 'XmlStream' and mn == XW or (n.bases and ix.derives_from(mn, n, ('XmlStream',))):
                        out.append((mn, n))
                except AnalysisError:
                    pass
    return out


def _raw_parts(e, encoded_ok):
    """names / expressions that reach the written string without passing _encode"""
    if isinstance(e, ast.Constant):
        return []
    if isinstance(e, ast.Call) and _n(e.func) == 'self._encode':
        return []
    if isinstance(e, ast.Call) and _n(e.func) == 're.sub' and len(e.args) == 3:
        return _raw_parts(e.args[2], encoded_ok)
    if isinstance(e, ast.BinOp) and isinstance(e.op, ast.Mod) and isinstance(e.left, ast.Constant):
        rs = e.right.elts if isinstance(e.right, ast.Tuple) else [e.right]
        return [x for r in rs for x in _raw_parts(r, encoded_ok)]
    if isinstance(e, ast.BinOp) and isinstance(e.op, ast.Mult):
        return [x for x in _raw_parts(e.left, encoded_ok) if not (isinstance(e.left, ast.Attribute) and e.left.attr == 'INDENT_STR')]
    if isinstance(e, ast.BinOp) and isinstance(e.op, ast.Add):
        return _raw_parts(e.left, encoded_ok) + _raw_parts(e.right, encoded_ok)
    if isinstance(e, ast.JoinedStr):
        return [x for v in e.values if isinstance(v, ast.FormattedValue) for x in _raw_parts(v.value, encoded_ok)]
    return [_n(e)]


def check_sinks(rep, ix):
    classes = _stream_classes(ix)
    n_writes = 0
    seen_channels = set()
    for mn, cls in classes:
        mod = ix.module(mn)
        for f in cls.body:
            if not isinstance(f, ast.FunctionDef):
                continue
            site = f'{mn}:{cls.name}.{f.name}'
            for c in common.calls_in(f):
                fn = _n(c.func)
                if fn == 'self._file.write' and len(c.args) == 1:
                    rep.fn(site)
                    n_writes += 1
                    raws = _raw_parts(c.args[0], None)
                    if not raws:
                        rep.ob('R-C18-SINK', site, f'write of {ast.unparse(c.args[0])[:50]!r}: constant text and encoded data only', True, node=c, module=mod)
                    for r in raws:
                        key = (f.name, r)
                        ok = key in RAW_CHANNELS
                        seen_channels.add(key)
                        rep.ob('R-C18-SINK', site, f'`{r}` reaches the file unencoded', ok,
                               found=ast.unparse(c)[:90], required='data is written through self._encode(); raw channels are ' + ', '.join(f'{a}.{b}' for a, b in RAW_CHANNELS),
                               note=RAW_CHANNELS.get(key, ''), node=c, module=mod)
                elif fn.endswith('_file.write') or fn.endswith('_file.writelines'):
                    rep.ob('R-C18-SINK', site, f'unrecognised write {fn}', False, node=c, module=mod)
    rep.ob('R-C18-SINK', f'{XW}:XmlStream', 'writes inside the stream classes found', n_writes >= 15, found=str(n_writes))
    # INDENT_STR is white space
    try:
        ind = ix.fold_class_attr(XW, 'XmlStream', 'INDENT_STR')
    except (Unfoldable, AnalysisError, KeyError):
        ind = None
    rep.ob('R-C18-SINK', f'{XW}:XmlStream', 'the indentation string is white space', isinstance(ind, str) and ind.strip(' \t') == '', found=repr(ind))
    # nobody else writes to a stream's file
    n_mod = 0
    for mn in ix.module_names():
        if not mn.startswith('TotalDepth'):
            continue
        try:
            mod = ix.module(mn)
        except AnalysisError:
            continue
        n_mod += 1
        for n in ast.walk(mod.tree):
            if isinstance(n, ast.Attribute) and n.attr == '_file' and not (isinstance(n.value, ast.Name) and n.value.id == 'self'):
                rep.ob('R-C18-SINK', f'{mn}', f'the file of a stream is touched from outside: {ast.unparse(n)}', False, node=n, module=mod)
    rep.ob('R-C18-SINK', 'scan', 'modules scanned for access to a stream\'s file from outside', n_mod >= 100, found=str(n_mod))
    # the data-carrying methods encode
    m = ix.module(XW)
    for meth, pat in (('characters', 'self._file.write(self._encode(theString))'),):
        f = ix.get_func(XW, f'XmlStream.{meth}')
        p = f.args.args[1].arg
        ok = any(_n(c) == f'self._file.write(self._encode({p}))' for c in common.calls_in(f))
        rep.ob('R-C18-SINK', f'{XW}:XmlStream.{meth}', 'text is written encoded', ok, node=f, module=m)
    f = ix.get_func(XW, 'XmlStream.startElement')
    ok = False
    for n in walk_no_nested(f):
        if isinstance(n, ast.For) and isinstance(n.target, ast.Name):
            k = n.target.id
            attrs = f.args.args[2].arg
            ok = any(_n(c) == f"self._file.write('%s=\"%s\"'%({k},self._encode({attrs}[{k}])))" and c.args[0].left.value == ' %s="%s"' for c in common.calls_in(n))
            src = _n(n.iter)
            ok = ok and (src == f'sorted({attrs}.keys())' or src == f'sorted({attrs})' or src == f'{attrs}.keys()' or src == attrs or
                         (isinstance(n.iter, ast.Name) and any(isinstance(s, ast.Assign) and _n(s.targets[0]) == n.iter.id and _n(s.value) in (f'sorted({attrs}.keys())', f'sorted({attrs})') for s in f.body)))
    rep.ob('R-C18-SINK', f'{XW}:XmlStream.startElement', 'each attribute is written once as  name="encoded value"  (double-quoted)', ok, node=f, module=m)
    # comment: encoded and hyphen pairs neutralised
    f = ix.get_func(XW, 'XmlStream.comment')
    p = f.args.args[1].arg
    okc = False
    found = ''
    for c in common.calls_in(f):
        if _n(c.func) == 'self._file.write' and len(c.args) == 1:
            a = c.args[0]
            found = ast.unparse(a)
            if isinstance(a, ast.BinOp) and isinstance(a.op, ast.Mod) and isinstance(a.left, ast.Constant) and a.left.value == '<!--%s-->':
                okc = _comment_safe(ix, a.right, p)
    rep.ob('R-C18-SINK', f'{XW}:XmlStream.comment', 'comment text is encoded and cannot contain -- or end with -', okc, found=found,
           required="<!--%s--> % re.sub(<hyphen followed by hyphen or end>, '- ', self._encode(text)) or an equivalent neutraliser", node=f, module=m)
    f = ix.get_func(XW, 'XmlStream.pI')
    p = f.args.args[1].arg
    ok = any(_n(c) == f"self._file.write('<?%s?>'%self._encode({p}))" for c in common.calls_in(f))
    rep.ob('R-C18-SINK', f'{XW}:XmlStream.pI', 'processing instruction text is encoded (so it cannot contain ?>)', ok, node=f, module=m)


def _comment_safe(ix, e, param):
    """re.sub(P, R, self._encode(param)) where P = '-' followed by a lookahead for '-' or the end, R = '-' + non-hyphen;
    or .replace('-', R) with R free of adjacent/trailing hyphens."""
    import re._parser as sp
    import re._constants as sc
    if isinstance(e, ast.Call) and _n(e.func) == 're.sub' and len(e.args) == 3 and _n(e.args[2]) == f'self._encode({param})':
        if not all(isinstance(a, ast.Constant) and isinstance(a.value, str) for a in e.args[:2]):
            return False
        try:
            t = list(sp.parse(e.args[0].value))
        except Exception:
            return False
        if len(t) != 2 or t[0] != (sc.LITERAL, ord('-')) or t[1][0] is not sc.ASSERT or t[1][1][0] != 1:
            return False
        look = list(t[1][1][1])
        alts = []
        if len(look) == 1 and look[0][0] is sc.BRANCH:
            alts = [list(x) for x in look[0][1][1]]
        else:
            alts = [look]
        has_hy = any(a == [(sc.LITERAL, ord('-'))] for a in alts)
        has_end = any(a == [(sc.AT, sc.AT_END_STRING)] for a in alts)
        r = e.args[1].value
        return has_hy and has_end and len(r) >= 2 and r[0] == '-' and '-' not in r[1:] and '\\' not in r
    if isinstance(e, ast.Call) and isinstance(e.func, ast.Attribute) and e.func.attr == 'replace' and _n(e.func.value) == f'self._encode({param})' and len(e.args) == 2:
        if all(isinstance(a, ast.Constant) for a in e.args) and e.args[0].value == '-':
            r = e.args[1].value
            return isinstance(r, str) and '--' not in r and not r.endswith('-') and (not r.startswith('-') or len(r) > 1)
    return False


# ---------------------------------------------------------------------------------------------- call sites
def _element_classes(ix):
    """(modname, ClassDef) of XmlWrite.Element and everything deriving from it"""
    out = []
    for mn in ix.module_names():
        if not mn.startswith('TotalDepth'):
            continue
        try:
            mod = ix.module(mn)
        except AnalysisError:
            continue
        for n in mod.tree.body:
            if isinstance(n, ast.ClassDef):
                try:
                    if (n.name == 'Element' and mn == XW) or (n.bases and ix.derives_from(mn, n, ('Element',)) and _derives_xw_element(ix, mn, n)):
                        out.append((mn, n))
                except AnalysisError:
                    pass
    return out


def _derives_xw_element(ix, mn, cls):
    seen, _ = ix.class_bases(mn, cls)
    return any(m_ == XW and c.name == 'Element' for m_, c in seen)


class KeyFlow:
    """Derives the set of attribute names (dictionary keys) an expression can carry, following local assignments,
    subscript stores, update() calls, helper functions' returns and (for parameters) the call sites of the function."""

    def __init__(self, ix, callers):
        self.ix = ix
        self.callers = callers     # qualified function -> list of (modname, func, call)
        self.problems = []

    def keys(self, mn, func, e, depth=0, seen=None):
        seen = seen or set()
        if depth > 6:
            self.problems.append((mn, e, 'flow too deep'))
            return set()
        if e is None or (isinstance(e, ast.Constant) and e.value is None):
            return set()
        if isinstance(e, ast.Dict):
            out = set()
            for k, v in zip(e.keys, e.values):
                if k is None:
                    out |= self.keys(mn, func, v, depth + 1, seen)
                elif isinstance(k, ast.Constant) and isinstance(k.value, str):
                    out.add(k.value)
                else:
                    self.problems.append((mn, k, f'attribute name is not a constant: {ast.unparse(k)[:40]}'))
            return out
        if isinstance(e, ast.BoolOp):
            out = set()
            for v in e.values:
                out |= self.keys(mn, func, v, depth + 1, seen)
            return out
        if isinstance(e, ast.IfExp):
            return self.keys(mn, func, e.body, depth + 1, seen) | self.keys(mn, func, e.orelse, depth + 1, seen)
        if isinstance(e, ast.Call) and isinstance(e.func, ast.Name) and e.func.id == 'dict' and not e.args:
            return {k.arg for k in e.keywords if k.arg}
        if isinstance(e, ast.Name) and func is not None:
            key = (id(func), e.id)
            if key in seen:
                return set()
            seen = seen | {key}
            out = set()
            params = [a.arg for a in func.args.args + func.args.kwonlyargs]
            found = False
            for n in walk_no_nested(func):
                if isinstance(n, ast.Assign) and any(isinstance(t, ast.Name) and t.id == e.id for t in n.targets):
                    found = True
                    out |= self.keys(mn, func, n.value, depth + 1, seen)
                elif isinstance(n, ast.AnnAssign) and isinstance(n.target, ast.Name) and n.target.id == e.id and n.value is not None:
                    found = True
                    out |= self.keys(mn, func, n.value, depth + 1, seen)
                elif isinstance(n, ast.Assign) and any(isinstance(t, ast.Subscript) and isinstance(t.value, ast.Name) and t.value.id == e.id for t in n.targets):
                    for t in n.targets:
                        if isinstance(t, ast.Subscript) and isinstance(t.value, ast.Name) and t.value.id == e.id:
                            if isinstance(t.slice, ast.Constant) and isinstance(t.slice.value, str):
                                out.add(t.slice.value)
                            else:
                                self.problems.append((mn, t, f'attribute name is not a constant: {ast.unparse(t)[:40]}'))
                elif isinstance(n, ast.Call) and isinstance(n.func, ast.Attribute) and n.func.attr == 'update' and isinstance(n.func.value, ast.Name) and n.func.value.id == e.id:
                    for a in n.args:
                        out |= self.keys(mn, func, a, depth + 1, seen)
                    out |= {k.arg for k in n.keywords if k.arg}
            if func.args.kwarg is not None and func.args.kwarg.arg == e.id:
                found = True
                for cm, cf, call in self.callers.get(id(func), []):
                    known = set(params)
                    out |= {k.arg for k in call.keywords if k.arg and k.arg not in known}
                    for k in call.keywords:
                        if k.arg is None:
                            out |= self.keys(cm, cf, k.value, depth + 1, seen)
            if e.id in params:
                found = True
                idx = params.index(e.id)
                off = 1 if params and params[0] in ('self', 'cls') else 0
                for cm, cf, call in self.callers.get(id(func), []):
                    arg = None
                    pos = idx - off if _is_method_call(call, func) else idx
                    if 0 <= pos < len(call.args):
                        arg = call.args[pos]
                    for k in call.keywords:
                        if k.arg == e.id:
                            arg = k.value
                    if arg is not None:
                        out |= self.keys(cm, cf, arg, depth + 1, seen)
            if not found:
                self.problems.append((mn, e, f'source of `{e.id}` not found'))
            return out
        if isinstance(e, ast.Call):
            tgt = _resolve_callee(self.ix, mn, func, e)
            if tgt is not None:
                tm, tf = tgt
                out = set()
                rets = common.returns_of(tf)
                if not rets:
                    self.problems.append((mn, e, f'{tf.name} returns nothing'))
                for r in rets:
                    out |= self.keys(tm, tf, r.value, depth + 1, seen)
                # keyword arguments flowing into **kwargs of the callee are handled via callers map
                return out
        if isinstance(e, ast.Attribute) and _n(e) in ('self._attrs', 'self._rootAttrs'):
            return set()       # constructor parameter: followed at the constructor's call sites
        if isinstance(e, ast.Name):
            try:
                v = self.ix.fold(mn, e)
            except Exception:
                v = None
            if v is None:
                return set()
            if isinstance(v, dict) and all(isinstance(k, str) for k in v):
                return set(v)
        if isinstance(e, ast.Attribute) and isinstance(e.value, ast.Name):
            # field of a namedtuple built from module constants: union over every construction in the module
            r = self._namedtuple_field(mn, e.attr, depth, seen)
            if r is not None:
                return r
        self.problems.append((mn, e, f'attribute dictionary of unrecognised form: {ast.unparse(e)[:50]}'))
        return set()


def _nt_field(self, mn, field, depth, seen):
    mod = self.ix.module(mn)
    out = None
    for st in mod.tree.body:
        if isinstance(st, ast.Assign) and isinstance(st.value, ast.Call) and _n(st.value.func) in ('collections.namedtuple', 'namedtuple') and len(st.value.args) == 2 \
                and isinstance(st.value.args[1], ast.Constant) and isinstance(st.targets[0], ast.Name):
            fields = st.value.args[1].value.replace(',', ' ').split()
            if field not in fields:
                continue
            idx = fields.index(field)
            tname = st.targets[0].id
            out = set() if out is None else out
            n = 0
            for c in ast.walk(mod.tree):
                if isinstance(c, ast.Call) and isinstance(c.func, ast.Name) and c.func.id == tname:
                    n += 1
                    arg = c.args[idx] if idx < len(c.args) else None
                    for k in c.keywords:
                        if k.arg == field:
                            arg = k.value
                    if arg is None:
                        self.problems.append((mn, c, f'{tname}.{field} not given'))
                    else:
                        out |= self.keys(mn, None, arg, depth + 1, seen)
            if n == 0:
                self.problems.append((mn, st, f'no construction of {tname} found'))
    return out


KeyFlow._namedtuple_field = _nt_field


def _is_method_call(call, func):
    return isinstance(call.func, ast.Attribute)


def _resolve_callee(ix, mn, func, call):
    """Resolve a call to a repository FunctionDef: module functions, self.method, Class.method / static methods."""
    f = call.func
    if isinstance(f, ast.Attribute) and isinstance(f.value, ast.Name) and f.value.id == 'self' and func is not None:
        cls = enclosing_class(func)
        if cls is not None:
            r = ix.class_attr(mn, cls, f.attr)
            if r and r[0] == 'def' and isinstance(r[2], ast.FunctionDef):
                return r[1], r[2]
    if attr_chain(f):
        r = ix.resolve_dotted(mn, f)
        if r and r[0] == 'def' and isinstance(r[2], ast.FunctionDef):
            return r[1], r[2]
    if isinstance(f, ast.Attribute):
        # method by unique name across the repository (e.g. event.html_attrs())
        cands = _methods_named(ix, f.attr)
        if len(cands) == 1:
            return cands[0]
    return None


_METHODS = {}


def _methods_named(ix, name):
    if not _METHODS:
        for mn in ix.module_names():
            if not mn.startswith('TotalDepth'):
                continue
            try:
                mod = ix.module(mn)
            except AnalysisError:
                continue
            for n in mod.tree.body:
                if isinstance(n, ast.ClassDef):
                    for g in n.body:
                        if isinstance(g, ast.FunctionDef):
                            _METHODS.setdefault(g.name, []).append((mn, g))
    return _METHODS.get(name, [])


def check_callsites(rep, ix):
    elem_classes = _element_classes(ix)
    elem_ids = {id(c): (mn, c) for mn, c in elem_classes}
    stream_classes = _stream_classes(ix)
    stream_ids = {id(c): (mn, c) for mn, c in stream_classes}
    # index all calls
    calls = []      # (modname, enclosing func or None, call)
    callers = {}    # id(FunctionDef) -> [(mn, func, call)]
    for mn in ix.module_names():
        if not mn.startswith('TotalDepth'):
            continue
        try:
            mod = ix.module(mn)
        except AnalysisError:
            continue
        for n in ast.walk(mod.tree):
            if isinstance(n, ast.Call):
                func = enclosing_function(n)
                calls.append((mn, func, n))
    for mn, func, c in calls:
        tgt = None
        if attr_chain(c.func):
            try:
                r = ix.resolve_dotted(mn, c.func)
            except Exception:
                r = None
            if r and r[0] == 'def':
                if isinstance(r[2], ast.FunctionDef):
                    tgt = r[2]
                elif isinstance(r[2], ast.ClassDef):
                    init = ix.class_attr(r[1], r[2], '__init__')
                    if init and init[0] == 'def':
                        tgt = init[2]
        if tgt is None and isinstance(c.func, ast.Attribute) and isinstance(c.func.value, ast.Name) and c.func.value.id == 'self' and func is not None:
            cls = enclosing_class(func)
            if cls is not None:
                r = ix.class_attr(mn, cls, c.func.attr)
                if r and r[0] == 'def' and isinstance(r[2], ast.FunctionDef):
                    tgt = r[2]
        if tgt is None and isinstance(c.func, ast.Attribute) and isinstance(c.func.value, ast.Call) and _n(c.func.value.func) == 'super' and c.func.attr == '__init__' and func is not None:
            cls = enclosing_class(func)
            if cls is not None:
                seen, _ = ix.class_bases(mn, cls)
                for bm, bc in seen[1:]:
                    init = [g for g in bc.body if isinstance(g, ast.FunctionDef) and g.name == '__init__']
                    if init:
                        tgt = init[0]
                        break
        if tgt is None and isinstance(c.func, ast.Attribute) and not (isinstance(c.func.value, ast.Name) and c.func.value.id == 'self'):
            cands = _methods_named(ix, c.func.attr)
            if len(cands) == 1:
                tgt = cands[0][1]
        if tgt is not None:
            callers.setdefault(id(tgt), []).append((mn, func, c))
    kf = KeyFlow(ix, callers)

    def name_ok(v):
        return isinstance(v, str) and NAME_RE.match(v) is not None

    def const_names(mn, func, e, depth=0):
        """set of constant strings an element-name expression can be, or None"""
        if isinstance(e, ast.Constant):
            return {e.value}
        try:
            v = ix.fold(mn, e)
            if isinstance(v, str):
                return {v}
        except Exception:
            pass
        if isinstance(e, ast.Name) and func is not None and depth < 4:
            params = [a.arg for a in func.args.args]
            if e.id in params:
                idx = params.index(e.id)
                off = 1 if params[0] in ('self', 'cls') else 0
                out = set()
                sites = callers.get(id(func), [])
                if not sites:
                    return None
                for cm, cf, call in sites:
                    arg = None
                    pos = idx - off if (isinstance(call.func, ast.Attribute) or func.name == '__init__') else idx
                    if 0 <= pos < len(call.args):
                        arg = call.args[pos]
                    for k in call.keywords:
                        if k.arg == e.id:
                            arg = k.value
                    if arg is None:
                        return None
                    r = const_names(cm, cf, arg, depth + 1)
                    if r is None:
                        return None
                    out |= r
                return out
        return None

    n_name = n_attr = n_raw = 0
    elem_init = {}
    for mn_, c_ in elem_classes:
        init = ix.class_attr(mn_, c_, '__init__')
        if init and init[0] == 'def':
            elem_init[id(c_)] = init[2]
    base_init = ix.get_func(XW, 'Element.__init__')
    for mn, func, c in calls:
        mod = ix.module(mn)
        where = f'{mn}:{func.name if func else "<module>"}'
        fn = c.func
        # --- Element(stream, name, attrs) and super().__init__(stream, name, attrs) reaching Element.__init__
        is_elem_ctor = False
        if attr_chain(fn):
            try:
                r = ix.resolve_dotted(mn, fn)
            except Exception:
                r = None
            if r and r[0] == 'def' and isinstance(r[2], ast.ClassDef) and id(r[2]) in elem_ids:
                is_elem_ctor = elem_init.get(id(r[2])) is base_init
        if not is_elem_ctor and isinstance(fn, ast.Attribute) and fn.attr == '__init__' and isinstance(fn.value, ast.Call) and _n(fn.value.func) == 'super' and func is not None:
            cls = enclosing_class(func)
            if cls is not None and id(cls) in elem_ids:
                seen, _ = ix.class_bases(mn, cls)
                for bm, bc in seen[1:]:
                    init = [g for g in bc.body if isinstance(g, ast.FunctionDef) and g.name == '__init__']
                    if init:
                        is_elem_ctor = init[0] is base_init
                        break
        name_e = attrs_e = None
        if is_elem_ctor:
            args = list(c.args)
            kws = {k.arg: k.value for k in c.keywords}
            name_e = args[1] if len(args) > 1 else kws.get('theElemName')
            attrs_e = args[2] if len(args) > 2 else kws.get('theAttrs')
        elif isinstance(fn, ast.Attribute) and fn.attr == 'startElement' and not (mn == XW and func is not None and func.name == '__enter__' and enclosing_class(func) is not None and enclosing_class(func).name == 'Element'):
            name_e = c.args[0] if c.args else None
            attrs_e = c.args[1] if len(c.args) > 1 else None
        if name_e is not None:
            rep.fn(where)
            names = const_names(mn, func, name_e)
            n_name += 1
            ok = names is not None and all(name_ok(x) for x in names)
            rep.ob('R-C18-NAME', where, f'element name {ast.unparse(name_e)[:30]} is a constant XML Name', ok,
                   found=str(sorted(names))[:80] if names is not None else 'not a constant at every call site', node=c, module=mod)
            kf.problems = []
            keys = kf.keys(mn, func, attrs_e)
            n_attr += 1
            badk = sorted(k for k in keys if not name_ok(k))
            probs = [p[2] for p in kf.problems]
            rep.ob('R-C18-NAME', where, f'attribute names of <{ast.unparse(name_e)[:20]}> ({ast.unparse(attrs_e)[:30] if attrs_e is not None else "none"}) are constant XML Names', not badk and not probs,
                   found=('; '.join(probs) + ' ' + str(badk))[:200], required='dictionary keys that are string constants matching the XML Name production', node=c, module=mod)
        # --- raw channels
        if isinstance(fn, ast.Attribute) and fn.attr in ('literal', 'writeECMAScript') and len(c.args) == 1 and not (isinstance(fn.value, ast.Name) and fn.value.id == 'self' and mn == XW):
            # only calls on XML streams: receivers of other types with a method of this name do not exist in the repository
            n_raw += 1
            rep.fn(where)
            txt = _const_text(ix, mn, func, c.args[0], callers)
            if fn.attr == 'writeECMAScript':
                ok = txt is not None and all(']]>' not in t for t in txt)
                req = 'constant script text without ]]>'
            else:
                ok = txt is not None and all('<' not in _strip_tags_allowed(t) and re.sub(r'&(#[0-9]+|#x[0-9A-Fa-f]+|[A-Za-z][A-Za-z0-9]*);', '', t).count('&') == 0 for t in txt)
                req = 'constant text in which < does not occur and & only starts a reference'
            rep.ob('R-C18-RAW', where, f'{fn.attr}({ast.unparse(c.args[0])[:40]}) passes constant well-formed text', ok,
                   found='not constant' if txt is None else '', required=req, node=c, module=mod)
        # --- stream constructors: encoding argument constant
        if attr_chain(fn):
            try:
                r = ix.resolve_dotted(mn, fn)
            except Exception:
                r = None
            if r and r[0] == 'def' and isinstance(r[2], ast.ClassDef) and id(r[2]) in stream_ids:
                n_raw += 1
                rep.fn(where)
                enc = c.args[1] if len(c.args) > 1 and r[2].name != 'SVGWriter' else None
                for k in c.keywords:
                    if k.arg == 'theEnc':
                        enc = k.value
                ok = enc is None or (isinstance(enc, ast.Constant) and isinstance(enc.value, str) and re.fullmatch(r'[A-Za-z][A-Za-z0-9._\-]*', enc.value) is not None)
                rep.ob('R-C18-RAW', where, f'{r[2].name}(...) is given no encoding name or a constant one', ok, found=ast.unparse(enc)[:40] if enc is not None else '', node=c, module=mod)
    rep.ob('R-C18-NAME', 'scan', 'element construction sites found', n_name >= 250, found=str(n_name))
    rep.ob('R-C18-RAW', 'scan', 'raw-channel call sites found', n_raw >= 20, found=str(n_raw))
    # positive control for the key-flow engine: a dictionary with a non-constant key must be reported
    probe = ast.parse("def f(s, k):\n    a = {'x': '1'}\n    a[k] = '2'\n    return a\n").body[0]
    kf.problems = []
    kf.keys('probe', probe, probe.body[-1].value)
    rep.ob('R-C18-NAME', 'selfcheck', 'the key-flow engine reports a non-constant attribute name in a synthetic example', len(kf.problems) == 1, found=str(len(kf.problems)))


def _strip_tags_allowed(t):
    return t


def _const_text(ix, mn, func, e, callers, depth=0, seen=None):
    """list of constant strings the expression denotes (a constant times an integer counts as the constant), or None;
    a parameter is followed to every call site of its function (cycles through recursive calls add nothing new)"""
    seen = seen or set()
    if isinstance(e, ast.Constant) and isinstance(e.value, str):
        return [e.value]
    if isinstance(e, ast.BinOp) and isinstance(e.op, ast.Mult):
        l = _const_text(ix, mn, func, e.left, callers, depth, seen)
        if l is not None:
            return l
        return _const_text(ix, mn, func, e.right, callers, depth, seen)
    try:
        v = ix.fold(mn, e)
        if isinstance(v, str):
            return [v]
    except Exception:
        pass
    if isinstance(e, ast.Name) and func is not None and depth < 8:
        params = [a.arg for a in func.args.args]
        if e.id in params:
            if (id(func), e.id) in seen:
                return []
            seen = seen | {(id(func), e.id)}
            idx = params.index(e.id)
            off = 1 if params[0] in ('self', 'cls') else 0
            out = []
            sites = callers.get(id(func), [])
            if not sites:
                return None
            for cm, cf, call in sites:
                arg = None
                pos = idx - off if isinstance(call.func, ast.Attribute) else idx
                if 0 <= pos < len(call.args):
                    arg = call.args[pos]
                for k in call.keywords:
                    if k.arg == e.id:
                        arg = k.value
                if arg is None:
                    return None
                r = _const_text(ix, cm, cf, arg, callers, depth + 1, seen)
                if r is None:
                    return None
                out += r
            return out
    return None


# ---------------------------------------------------------------------------------------------- nesting / indentation
def check_nest(rep, ix):
    m = ix.module(XW)
    S = f'{XW}:XmlStream'
    # content writers close a pending start tag first
    for meth in ('startElement', 'characters', 'literal', 'comment', 'pI'):
        f = ix.get_func(XW, f'XmlStream.{meth}')
        rep.fn(f'{S}.{meth}')
        g = cfgmod.CFG(f)
        dom = g.dominators()
        closes = [s for s in g.stmts() if isinstance(s, ast.Expr) and _n(s.value) == 'self._closeElemIfOpen()']
        writes = [s for s in g.stmts() if any(_n(c.func) == 'self._file.write' for c in cfgmod.calls_at(s))]
        ok = bool(closes) and bool(writes) and all(any(c in dom.get(w, ()) for c in closes) for w in writes)
        rep.ob('R-C18-NEST', f'{S}.{meth}', 'a pending start tag is closed before anything else is written', ok, node=f, module=m)
    f = ix.get_func(XW, 'XmlStream._closeElemIfOpen')
    src = _n(ast.Module(body=[s for s in f.body if not (isinstance(s, ast.Expr) and isinstance(s.value, ast.Constant))], type_ignores=[]))
    rep.ob('R-C18-NEST', f'{S}._closeElemIfOpen', "writes '>' exactly when a start tag is pending and clears the flag", src == "ifself._inElem:\nself._file.write('>')\nself._inElem=False".replace('\n', '\n') or
           src.replace('\n', '').replace(' ', '') == "ifself._inElem:self._file.write('>')self._inElem=False", found=src[:80], node=f, module=m)
    # startElement: sets the pending flag and pushes the name
    f = ix.get_func(XW, 'XmlStream.startElement')
    name = f.args.args[1].arg
    stm = [_n(s) for s in f.body]
    ok = "self._inElem=True" in stm and f"self._elemStk.append({name})" in stm and f"self._file.write('<%s'%{name})" in stm
    rep.ob('R-C18-NEST', f'{S}.startElement', 'writes <name, marks the tag pending and pushes the name', ok, node=f, module=m)
    # endElement: the closing tag is the popped entry; pending -> '/>'
    f = ix.get_func(XW, 'XmlStream.endElement')
    rep.fn(f'{S}.endElement')
    name = f.args.args[1].arg
    pops = [s for s in walk_no_nested(f) if isinstance(s, ast.Assign) and _n(s.value) == 'self._elemStk.pop()']
    ok = len(pops) == 1 and isinstance(pops[0].targets[0], ast.Name)
    popped = pops[0].targets[0].id if ok else None
    ifs = [s for s in f.body if isinstance(s, ast.If) and _n(s.test) == 'self._inElem']
    ok2 = False
    if ok and len(ifs) == 1:
        tb = [_n(s) for s in ifs[0].body]
        eb = [_n(s) for s in ifs[0].orelse]
        ok2 = "self._file.write('/>')" in tb and 'self._inElem=False' in tb and f"self._file.write('</%s>'%{popped})" in eb and f.body.index(ifs[0]) > f.body.index(pops[0])
    rep.ob('R-C18-NEST', f'{S}.endElement', 'the closing tag carries the name popped from the element stack; a pending start tag becomes an empty-element tag', ok and ok2, node=f, module=m)
    chk = [s for s in f.body if isinstance(s, ast.If) and _n(s.test) in (f'{name}!=self._elemStk[-1]', f'self._elemStk[-1]!={name}')]
    ok = len(chk) == 1 and any(isinstance(x, ast.Raise) for x in ast.walk(chk[0])) and (not pops or f.body.index(chk[0]) < f.body.index(pops[0]))
    rep.ob('R-C18-NEST', f'{S}.endElement', 'a name that does not match the innermost open element is refused', ok, node=f, module=m)
    # __exit__ closes everything and does not swallow
    f = ix.get_func(XW, 'XmlStream.__exit__')
    loops = [s for s in f.body if isinstance(s, ast.While)]
    ok = len(loops) == 1 and _n(loops[0].test) in ('len(self._elemStk)', 'self._elemStk', 'len(self._elemStk)>0') and [_n(s) for s in loops[0].body] == ['self.endElement(self._elemStk[-1])']
    rep.ob('R-C18-NEST', f'{S}.__exit__', 'every element still open is closed, innermost first', ok, node=f, module=m)
    rets = common.returns_of(f)
    rep.ob('R-C18-NEST', f'{S}.__exit__', 'exceptions are not swallowed', all(_n(r.value) in ('False', 'None') for r in rets if r.value is not None), node=f, module=m)
    # __enter__ writes the declaration first
    f = ix.get_func(XW, 'XmlStream.__enter__')
    first = [s for s in f.body if not (isinstance(s, ast.Expr) and isinstance(s.value, ast.Constant))][0]
    rep.ob('R-C18-NEST', f'{S}.__enter__', 'the XML declaration is the first thing written', _n(first).startswith('self._file.write("<?xmlversion=\'1.0\'encoding=\\"%s\\"?>"%self._enc)') or
           _n(first).startswith("self._file.write(") and '<?xml' in ast.unparse(first), found=ast.unparse(first)[:80], node=f, module=m)
    # Element pairs
    E = f'{XW}:Element'
    f = ix.get_func(XW, 'Element.__enter__')
    ok = any(_n(s) == 'self._stream.startElement(self._name,self._attrs)' for s in f.body)
    rep.ob('R-C18-NEST', f'{E}.__enter__', 'opens its element with its name and attributes', ok, node=f, module=m)
    f = ix.get_func(XW, 'Element.__exit__')
    ok = any(_n(s) == 'self._stream.endElement(self._name)' for s in f.body) and all(r.value is None or _n(r.value) in ('False', 'None') for r in common.returns_of(f))
    rep.ob('R-C18-NEST', f'{E}.__exit__', 'closes the same name and does not swallow exceptions', ok, node=f, module=m)
    f = ix.get_func(XW, 'Element.__init__')
    ps = [a.arg for a in f.args.args]
    stm = [_n(s) for s in f.body]
    ok = f'self._stream={ps[1]}' in stm and f'self._name={ps[2]}' in stm and (f'self._attrs={ps[3]}or{{}}' in stm or f'self._attrs={ps[3]}' in stm)
    rep.ob('R-C18-NEST', f'{E}.__init__', 'stores stream, name and attributes unchanged', ok, node=f, module=m)
    # subclasses of Element do not override __enter__/__exit__
    for mn, c in _element_classes(ix):
        if mn == XW and c.name == 'Element':
            continue
        over = [g.name for g in c.body if isinstance(g, ast.FunctionDef) and g.name in ('__enter__', '__exit__')]
        rep.ob('R-C18-NEST', f'{mn}:{c.name}', 'element subclass keeps the pairing of Element', not over, found=str(over), module=ix.module(mn))
    # every use of an Element is as a context manager (with ...), so that its end tag is written
    n_with = 0
    elem_ids = {id(c) for _, c in _element_classes(ix)}
    for mn in ix.module_names():
        if not mn.startswith('TotalDepth'):
            continue
        try:
            mod = ix.module(mn)
        except AnalysisError:
            continue
        for n in ast.walk(mod.tree):
            if isinstance(n, ast.Call) and attr_chain(n.func):
                try:
                    r = ix.resolve_dotted(mn, n.func)
                except Exception:
                    r = None
                if r and r[0] == 'def' and isinstance(r[2], ast.ClassDef) and id(r[2]) in elem_ids:
                    par = getattr(n, '_parent', None)
                    if isinstance(par, ast.withitem):
                        n_with += 1
                    else:
                        func = enclosing_function(n)
                        rep.ob('R-C18-NEST', f'{mn}:{func.name if func else "<module>"}', f'{ast.unparse(n)[:50]} is used as a context manager', False,
                               required='with Element(...): so that the end tag is written on every exit', node=n, module=mod)
    rep.ob('R-C18-NEST', 'scan', 'elements opened through `with`', n_with >= 250, found=str(n_with))


def check_br(rep, ix):
    """XhtmlStream.charactersWithBr: a line feed becomes <br/>, every other character is text written by characters() (so
    it is encoded and recovered); str.splitlines() would also cut at \\r, \\v, \\f, \\x1c-\\x1e, \\x85, \\u2028, \\u2029
    and lose those characters."""
    m = ix.module(XW)
    f = ix.get_func(XW, 'XhtmlStream.charactersWithBr')
    site = f'{XW}:XhtmlStream.charactersWithBr'
    rep.fn(site)
    p0 = f.args.args[1].arg
    calls = [_n(c.func) for c in common.calls_in(f)]
    uses_splitlines = any(c.endswith('.splitlines') for c in calls)
    cuts = [c for c in common.calls_in(f) if isinstance(c.func, ast.Attribute) and c.func.attr in ('find', 'split', 'index', 'partition') and c.args]
    ok = not uses_splitlines and bool(cuts) and all(isinstance(c.args[0], ast.Constant) and c.args[0].value == '\n' for c in cuts)
    rep.ob('R-C18-SINK', site, 'only the line feed is turned into <br/> (the text is cut at "\\n" and nowhere else)', ok,
           found=', '.join(sorted(set(calls)))[:160], required="find / split on '\\n' only; no splitlines()", node=f, module=m)
    texts = [c for c in common.calls_in(f) if _n(c.func) == 'self.characters']
    rep.ob('R-C18-SINK', site, 'the pieces between line feeds are written with characters()', len(texts) >= 1 and not any(_n(c.func) in ('self.literal', 'self._file.write') for c in common.calls_in(f)), node=f, module=m)


def check_indent(rep, ix):
    m = ix.module(XW)
    S = f'{XW}:XmlStream'
    f = ix.get_func(XW, 'XmlStream._indent')
    body = [s for s in f.body if not (isinstance(s, ast.Expr) and isinstance(s.value, ast.Constant))]
    ok = len(body) == 1 and isinstance(body[0], ast.If) and _n(body[0].test) == 'self._canIndent' and not body[0].orelse
    rep.ob('R-C18-INDENT', f'{S}._indent', 'white space is written only when indentation is allowed', ok, node=f, module=m)
    # _canIndent: false as soon as ANY open element forbids indentation
    f = ix.get_func(XW, 'XmlStream._canIndent')
    body = [s for s in f.body if not (isinstance(s, ast.Expr) and isinstance(s.value, ast.Constant))]
    ok = False
    if len(body) == 1 and isinstance(body[0], ast.Return):
        ok = _n(body[0].value) in ('all(self._canIndentStk)', 'Falsenotinself._canIndentStk', 'all(bforbinself._canIndentStk)', 'notany(notbforbinself._canIndentStk)')
    elif len(body) == 2 and isinstance(body[0], ast.For) and isinstance(body[1], ast.Return) and _n(body[1].value) == 'True':
        lp = body[0]
        if _n(lp.iter) in ('self._canIndentStk', 'reversed(self._canIndentStk)') and isinstance(lp.target, ast.Name) and len(lp.body) == 1 and isinstance(lp.body[0], ast.If) and not lp.orelse:
            i = lp.body[0]
            ok = _n(i.test) in (f'not{lp.target.id}', f'{lp.target.id}isFalse', f'{lp.target.id}==False') and len(i.body) == 1 and isinstance(i.body[0], ast.Return) and _n(i.body[0].value) == 'False' and not i.orelse
    rep.ob('R-C18-INDENT', f'{S}._canIndent', 'indentation is allowed only if no open element (at any depth) has character content or preserved space', ok,
           found=ast.unparse(ast.Module(body=body, type_ignores=[]))[:120], required='conjunction over the whole _canIndentStk', node=f, module=m)
    f = ix.get_func(XW, 'XmlStream._flipIndent')
    p = f.args.args[1].arg
    stm = [_n(s) for s in f.body if not isinstance(s, ast.Assert) and not (isinstance(s, ast.Expr) and isinstance(s.value, ast.Constant))]
    ok = stm == ['self._canIndentStk.pop()', f'self._canIndentStk.append({p})'] or stm == [f'self._canIndentStk[-1]={p}']
    rep.ob('R-C18-INDENT', f'{S}._flipIndent', 'replaces the innermost entry', ok, found=str(stm), node=f, module=m)
    for meth in ('characters', 'literal', 'pI'):
        f = ix.get_func(XW, f'XmlStream.{meth}')
        ok = any(_n(s) == 'self._flipIndent(False)' for s in f.body)
        rep.ob('R-C18-INDENT', f'{S}.{meth}', 'writing character content forbids indentation inside the current element', ok, node=f, module=m)
    f = ix.get_func(XW, 'XmlStream.xmlSpacePreserve')
    ok = any(_n(s) == 'self._flipIndent(False)' for s in f.body)
    rep.ob('R-C18-INDENT', f'{S}.xmlSpacePreserve', 'preserving space forbids indentation inside the current element', ok, node=f, module=m)
    f = ix.get_func(XW, 'XmlStream.startElement')
    stm = [_n(s) for s in f.body]
    ok = 'self._indent()' in stm and 'self._canIndentStk.append(True)' in stm and stm.index('self._indent()') < stm.index('self._canIndentStk.append(True)')
    rep.ob('R-C18-INDENT', f'{S}.startElement', 'the new element is indented by its ancestors\' state, then pushes its own entry', ok, node=f, module=m)
    f = ix.get_func(XW, 'XmlStream.endElement')
    stm = [_n(s) for s in f.body]
    ok = stm and stm[-1] == 'self._canIndentStk.pop()' and 'self._indent()' in _n(f)
    rep.ob('R-C18-INDENT', f'{S}.endElement', 'the end tag is indented by the state that includes its own element, which is then popped', ok, node=f, module=m)


def check_index(rep, ix):
    m = ix.module(IXM)
    f = ix.get_func(IXM, 'write_logical_file_to_xml')
    site = f'{IXM}:write_logical_file_to_xml'
    rep.fn(site)
    loops = [n for n in walk_no_nested(f) if isinstance(n, ast.For) and _n(n.iter) == 'logical_file.eflrs']
    ok = len(loops) == 1
    if ok:
        lp = loops[0]
        withs = [s for s in lp.body if isinstance(s, ast.With) and _n(s.items[0].context_expr).startswith("XmlWrite.Element(xml_stream,'EFLR',")]
        ok = len(withs) == 1 and not any(isinstance(s, (ast.Continue, ast.Break, ast.Return)) for s in ast.walk(lp))
    rep.ob('R-C18-INDEX', site, 'one EFLR element per table of the logical file (no table skipped)', ok, node=f, module=m)
    ok = any(isinstance(s, ast.If) and _n(s.test) == 'logical_file.has_log_pass' and [_n(x) for x in s.body] == ['log_pass_to_XML(logical_file.log_pass,logical_file.iflr_position_map,xml_stream)'] for s in ast.walk(f))
    rep.ob('R-C18-INDEX', site, 'the log pass is written from the in-memory position map', ok, node=f, module=m)
    f = ix.get_func(IXM, 'log_pass_to_XML')
    site = f'{IXM}:log_pass_to_XML'
    rep.fn(site)
    loops = [n for n in walk_no_nested(f) if isinstance(n, ast.For) and _n(n.iter) == 'log_pass.frame_arrays']
    ok = len(loops) == 1
    if ok:
        lp = loops[0]
        last = lp.body[-1]
        ok = _n(last) == f'frame_array_to_XML({lp.target.id},iflr_data_map[{lp.target.id}.ident],xml_stream)' and not any(isinstance(s, (ast.Continue, ast.Break, ast.Return)) for s in ast.walk(lp))
    rep.ob('R-C18-INDEX', site, 'one FrameArray element per frame type, with that frame type\'s own record references', ok, node=f, module=m)
    f = ix.get_func(IXM, 'frame_array_to_XML')
    site = f'{IXM}:frame_array_to_XML'
    rep.fn(site)
    src = _n(f)
    want = (('FrameNumbers', 'v.frame_number', 'False'), ('LRSH', 'v.logical_record_position.lrsh_position', 'True'), ('Xaxis', 'v.x_axis', 'False'))
    stmts = [_n(s) for s in ast.walk(f) if isinstance(s, (ast.Assign, ast.Expr))]
    for nm, field, hexo in want:
        a = f'rle=Rle.create_rle(({field}forviniflr_data))'
        b = f"xml_rle_write(rle,'{nm}',xml_stream,hex_output={hexo})"
        ok = a in stmts and b in stmts and stmts.index(b) == stmts.index(a) + 1
        rep.ob('R-C18-INDEX', site, f'<{nm}> is the run-length encoding of {field} over all records of the frame type', ok, node=f, module=m)
    f = ix.get_func(IXM, 'write_logical_file_sequence_to_xml')
    site = f'{IXM}:write_logical_file_sequence_to_xml'
    rep.fn(site)
    src = _n(f)
    ok = 'forlf,logical_fileinenumerate(logical_index.logical_files):write_logical_file_to_xml(lf,logical_file,xml_stream,private)' in src.replace('\n', '')
    rep.ob('R-C18-INDEX', site, 'every logical file is written', ok, node=f, module=m)
    ok = "rle_visible_records=Rle.create_rle(logical_index.visible_record_positions)" in src and "xml_rle_write(rle_visible_records,'VisibleRecords',xml_stream,hex_output=True)" in src
    rep.ob('R-C18-INDEX', site, 'visible record positions are written run-length encoded', ok, node=f, module=m)
    withs = [n for n in walk_no_nested(f) if isinstance(n, ast.With)]
    ok = bool(withs) and _n(withs[0].items[0].context_expr) == 'XmlWrite.XmlStream(output_stream)'
    rep.ob('R-C18-INDEX', site, 'the index is written through an XmlStream used as a context manager', ok, node=f, module=m)


def check_sources(rep, ix):
    """text read from source files reaches the writers as ordinary code points: a decoding error policy that smuggles undecodable
    bytes through as lone surrogates (surrogateescape / surrogatepass) hands the writer characters no XML document can carry"""
    from . import imports
    roots = ['TotalDepth.LAS.LASToHTML', 'TotalDepth.LIS.LisToHtml', 'TotalDepth.RP66V1.ScanHTML', 'TotalDepth.RP66V1.IndexXML', 'TotalDepth.PlotLogs']
    n = 0
    for mname in sorted(imports.closure(ix, [r for r in roots if ix.has_module(r)])):
        mod = ix.module(mname)
        for c in ast.walk(mod.tree):
            if not isinstance(c, ast.Call):
                continue
            fn = _n(c.func)
            if not (fn == 'open' or fn.endswith('.decode') or fn in ('str', 'io.open', 'codecs.open', 'io.TextIOWrapper')):
                continue
            pol = [k.value for k in c.keywords if k.arg == 'errors']
            if fn.endswith('.decode') and len(c.args) >= 2:
                pol.append(c.args[1])
            for v in pol:
                n += 1
                val = v.value if isinstance(v, ast.Constant) else None
                ok = isinstance(val, str) and val not in ('surrogateescape', 'surrogatepass')
                rep.ob('R-C18-SOURCE', f'{mname}:{common.qual_of(c) if hasattr(common, "qual_of") else fn}', f'{fn}(..., errors={_n(v)}) yields only code points a document can carry', ok,
                       found=_n(v), required="'replace', 'ignore', 'strict', 'backslashreplace' or 'xmlcharrefreplace'", node=c, module=mod)
    return n


def check_history(rep, ix):
    """two documents written one after the other in one process are each what they would be alone: attribute dictionaries are
    built per element (a helper that hands out a cached or shared dictionary, changed by its caller, leaks attributes into later
    elements), and a dictionary given by the caller is not filled in with this document's values"""
    for mod in ('TotalDepth.RP66V1.IndexXML', 'TotalDepth.RP66V1.ScanHTML', 'TotalDepth.util.XmlWrite', 'TotalDepth.util.plot.SVGWriter'):
        if ix.has_module(mod):
            common.check_fresh_returns(rep, 'R-C18-HISTORY', ix, mod)
    for mod, cls in (('TotalDepth.util.plot.SVGWriter', 'SVGWriter'), ('TotalDepth.util.XmlWrite', 'XmlStream'), ('TotalDepth.util.XmlWrite', 'Element')):
        common.check_param_attrs_unmutated(rep, 'R-C18-HISTORY', ix, mod, cls)


def run(rep, ix, tier):
    check_history(rep, ix)
    rep.floor('R-C18-HISTORY', 3)
    check_sources(rep, ix)
    rep.floor('R-C18-SOURCE', 1)
    check_encode(rep, ix)
    check_sinks(rep, ix)
    check_callsites(rep, ix)
    check_nest(rep, ix)
    check_indent(rep, ix)
    check_br(rep, ix)
    check_index(rep, ix)
    C16.check_item(rep, ix)
    C16.check_container(rep, ix)
    C16.check_xml(rep, ix)
    rep.floor('R-C18-ENCODE', 15)
    rep.floor('R-C18-SINK', 20)
    rep.floor('R-C18-NAME', 500)
    rep.floor('R-C18-RAW', 20)
    rep.floor('R-C18-NEST', 18)
    rep.floor('R-C18-INDENT', 9)
    rep.floor('R-C18-INDEX', 9)
    rep.floor('R-C16-AFFINE', 15)
    rep.floor('R-C16-XML', 3)
