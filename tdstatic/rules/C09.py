"""C09 LAS files parse to their content, independent of layout (structural clauses only)."""
import ast

from .. import cfg as cfgmod, defuse, rx, symx
from ..loader import RegexVal, walk_no_nested
from ..norm import nf, show, attr_chain
from . import common

EXPLANATION = (
    'Thin claim. Decides on LAS/core/LASRead.py: (1) the comment and section-head regular expressions accept their '
    'whole specified languages (any leading white space before #; ~ followed by a section letter and any text): '
    'automaton inclusion; (2) one choke point: the file is read only in generate_lines, which drops exactly blank and '
    'comment lines and can take a line back; every section reader consumes that generator and pushes a section head '
    'back; (3) header lines are cut at the first dot and the last colon; fields declared str in SectLine must not be '
    'produced by the value-typing function; (4) the dtype of a channel and the conversion of its values are chosen '
    'by the same (mnemonic, units) predicates in the same order (sibling agreement); the float branch returns '
    'float(value) or the null value; masking with the null value post-dominates conversion; (5) wrapped and '
    'unwrapped assembly: a data line is split on any white space, a wrapped frame is complete exactly at the curve '
    'count, overflow is refused, the last buffer is flushed on finalise; columns map to channels in curve order; '
    '(6) the ordinal kept for a header mnemonic is the enumerate() position of its line in the member list (repeated mnemonics stay in the list).')
NOT_DECIDED = 'that every text of the LAS grammar parses to its content; layout equivalence of results; value typing of every token.'
ASSUMPTIONS = ['str.split() with no argument splits on runs of blanks and tabs', 'text files are opened with universal newlines']
TECHNIQUE = 'static analysis: regex-automaton inclusion, who-may-call, sibling predicate agreement, CFG post-dominance, declared-type vs producer check'

M = 'TotalDepth.LAS.core.LASRead'


def _n(e):
    return ast.unparse(e).replace(' ', '')


def check_regex(rep, ix):
    m = ix.module(M)
    for name, spec, what in (('RE_COMMENT', r'[ \t]*#[^\n]*\n?\Z', 'a comment line: any blanks/tabs, then #'),
                             ('RE_SECT_HEAD', r'~[VWCPOA][^\n]*\Z', 'a section head: ~ and one of VWCPOA, then any text')):
        rv = _fold_regex(ix, name)
        ok, found = False, ''
        if isinstance(rv, RegexVal):
            try:
                impl = rx.build(rv.pattern)
                sp = rx.build(spec)
                ok, cex = rx.included(sp, impl)
                found = f'pattern {rv.pattern!r}' + ('' if ok else f' rejects {cex.decode("latin-1")!r}')
            except (rx.Unsupported, Exception) as err:
                found = f'pattern {rv.pattern!r} not analysable: {err}'
        else:
            found = 'not a compiled regex literal'
        rep.ob('R-C09-REGEX', f'{M}:{name}', f'{name} accepts {what}' + ('' if ok else f'; {found}'), ok, found=found,
               required=f'language of /{spec}/ included', module=m)


def _charset(items):
    """set of code points 0..255 matched by a parsed character class"""
    import re._constants as sc
    neg = False
    out = set()
    for op, av in items:
        if op is sc.NEGATE:
            neg = True
        elif op is sc.LITERAL:
            out.add(av)
        elif op is sc.RANGE:
            out |= set(range(av[0], av[1] + 1))
        elif op is sc.CATEGORY:
            if av is sc.CATEGORY_SPACE:
                out |= {9, 10, 11, 12, 13, 32}
            elif av is sc.CATEGORY_DIGIT:
                out |= set(range(48, 58))
            else:
                raise ValueError(f'category {av}')
        else:
            raise ValueError(f'class item {op}')
    return (set(range(256)) - out) if neg else out


def _group_class(pattern, group):
    """the character set repeated inside capture group `group` when the group is (CLASS+) ; None if of another shape"""
    import re._parser as sp
    import re._constants as sc

    def find(seq):
        for op, av in seq:
            if op is sc.SUBPATTERN and av[0] == group:
                inner = list(av[3])
                if len(inner) == 1 and inner[0][0] in (sc.MAX_REPEAT, sc.MIN_REPEAT) and inner[0][1][0] == 1:
                    body = list(inner[0][1][2])
                    if len(body) == 1:
                        bop, bav = body[0]
                        if bop is sc.IN:
                            return _charset(bav)
                        if bop is sc.NOT_LITERAL:
                            return set(range(256)) - {bav}
                        if bop is sc.LITERAL:
                            return {bav}
                        if bop is sc.ANY:
                            return set(range(256)) - {10}
                return 'other'
            if op in (sc.MAX_REPEAT, sc.MIN_REPEAT):
                r = find(av[2])
                if r is not None:
                    return r
            elif op is sc.SUBPATTERN:
                r = find(av[3])
                if r is not None:
                    return r
            elif op is sc.BRANCH:
                for alt in av[1]:
                    r = find(alt)
                    if r is not None:
                        return r
        return None
    try:
        return find(list(sp.parse(pattern)))
    except Exception:
        return None


def check_field_regex(rep, ix):
    """MNEM.UNITS VALUE : DESCRIPTION -- the mnemonic is the run of characters other than blank, dot and colon; the units
    are the run of characters other than blank and colon that follows the dot immediately (units may contain dots)."""
    m = ix.module(M)
    for name, group, excluded, what in (('RE_LINE_FIELD_0', 1, {' ', '.', ':'}, 'mnemonic: every character except blank, dot and colon'),
                                        ('RE_LINE_FIELD_1', 1, {' ', ':'}, 'units: every character except blank and colon (a dot inside units is kept)')):
        rv = _fold_regex(ix, name)
        cs = _group_class(rv.pattern, group) if isinstance(rv, RegexVal) else None
        want = set(range(256)) - {ord(c) for c in excluded}
        ok = isinstance(cs, set) and cs == want
        diff = ''
        if isinstance(cs, set) and not ok:
            diff = 'wrongly excluded: ' + repr(''.join(chr(c) for c in sorted(want - cs) if 32 <= c < 127)) + ' wrongly allowed: ' + repr(''.join(chr(c) for c in sorted(cs - want) if 32 <= c < 127))
        rep.ob('R-C09-REGEX', f'{M}:{name}', f'group {group} is a run of the {what}', ok, found=(rv.pattern if isinstance(rv, RegexVal) else 'not a regex') + ' ' + diff,
               required='([^' + ''.join(sorted(excluded)) + ']+)', module=m)
    rv = _fold_regex(ix, 'RE_LINE_FIELD_1')
    cs2 = _group_class(rv.pattern, 2) if isinstance(rv, RegexVal) else None
    rep.ob('R-C09-REGEX', f'{M}:RE_LINE_FIELD_1', 'group 2 (the value) takes the rest of the field', isinstance(cs2, set) and cs2 >= set(range(32, 127)), module=m)
    # exact masking of the null value
    AV = 'TotalDepth.common.AbsentValue'
    am = ix.module(AV)
    f = ix.get_func(AV, 'mask_absent_values')
    stores = [n for n in walk_no_nested(f) if isinstance(n, ast.Assign) and any(_n(t).endswith('.mask') for t in n.targets)]
    arr = f.args.args[0].arg
    ok = len(stores) >= 1 and all(isinstance(n.value, ast.Compare) and len(n.value.ops) == 1 and isinstance(n.value.ops[0], ast.Eq) and
                                   {_n(n.value.left), _n(n.value.comparators[0])} == {arr, 'mask_value'} for n in stores)
    rep.ob('R-C09-NULL', f'{AV}:mask_absent_values', 'a value is masked exactly when it equals the null value (no tolerance: values near the null are data)', ok,
           found='; '.join(ast.unparse(n) for n in stores)[:160], required=f'mask = ({arr} == mask_value)', node=f, module=am)
    for const, want in (('ABSENT_VALUE_FLOAT', -999.25), ('ABSENT_VALUE_INT', -999)):
        try:
            v = ix.fold_name(AV, const)
        except Exception:
            v = None
        rep.ob('R-C09-NULL', f'{AV}:{const}', f'default null value {want}', v == want, found=str(v), module=am)


def _fold_regex(ix, name):
    m = ix.module(M)
    exprs = m.assigns.get(name)
    if not exprs:
        return None
    e = exprs[-1]
    if isinstance(e, ast.Call) and _n(e.func) == 're.compile' and e.args:
        a = e.args[0]
        # r'...'.format(SECT_TYPES)
        if isinstance(a, ast.Call) and isinstance(a.func, ast.Attribute) and a.func.attr == 'format':
            try:
                base = ix.fold(M, a.func.value)
                args = [ix.fold(M, x) for x in a.args]
                return RegexVal(base.format(*args))
            except Exception:
                return None
        try:
            return RegexVal(ix.fold(M, a))
        except Exception:
            return None
    return None


def check_choke(rep, ix):
    m = ix.module(M)
    users = []
    for n in ast.walk(m.tree):
        if isinstance(n, ast.Call) and isinstance(n.func, ast.Attribute) and n.func.attr in ('readline', 'readlines', 'read') \
                and not (_n(n.func.value).startswith('self.') and n.func.attr == 'read'):
            f = n
            while f is not None and not isinstance(f, ast.FunctionDef):
                f = getattr(f, '_parent', None)
            users.append((f.name if f else '<module>', _n(n)))
    rep.ob('R-C09-CHOKE', f'{M}:<module>', 'the text is read only by generate_lines', users == [('generate_lines', 'text_file.readline()')],
           found=str(users), required="[('generate_lines', 'text_file.readline()')]", module=m)
    g = ix.get_func(M, 'generate_lines')
    rep.fn(f'{M}:generate_lines')
    ifs = [n for n in walk_no_nested(g) if isinstance(n, ast.If) and 'RE_COMMENT' in _n(n.test)]
    ok = len(ifs) == 1 and show(nf(ifs[0].test)) == common.nfs("line != '\\n' and not RE_COMMENT.match(line)")
    rep.ob('R-C09-CHOKE', f'{M}:generate_lines', 'exactly blank lines and comment lines are dropped', ok, found=_n(ifs[0].test) if ifs else '', node=g, module=m)
    ys = [n for n in walk_no_nested(g) if isinstance(n, ast.Yield)]
    srcs = [_n(y) for y in ys]
    ok = sorted(srcs) == sorted(['(yield(line_number,line))', '(yieldNone)', '(yield(line_number,line))'])
    rep.ob('R-C09-CHOKE', f'{M}:generate_lines', 'a line sent back is yielded again with its own line number', ok, found=str(srcs), node=g, module=m)
    eofs = [n for n in walk_no_nested(g) if isinstance(n, ast.If) and show(nf(n.test)) in (common.nfs('len(line) == 0'), common.nfs('not line'))]
    rep.ob('R-C09-CHOKE', f'{M}:generate_lines', 'stops only at end of file', len(eofs) == 1 and isinstance(eofs[0].body[0], ast.Break), node=g, module=m)
    # ... and what is tested for end of file (and for blank / comment) is the line as read: '' only at end of file, '\n' for a blank line
    gg = cfgmod.CFG(g)
    reads = [s_ for s_ in gg.stmts() if isinstance(s_, ast.Assign) and _n(s_.value).endswith('.readline()') and isinstance(s_.targets[0], ast.Name)]
    if len(reads) == 1 and eofs:
        nm = reads[0].targets[0].id
        others = [s_ for s_ in gg.stmts() if s_ is not reads[0] and isinstance(s_, (ast.Assign, ast.AugAssign)) and
                  any(isinstance(t, ast.Name) and t.id == nm for tt in (s_.targets if isinstance(s_, ast.Assign) else [s_.target]) for t in ast.walk(tt))]
        tests = eofs + ifs
        bad = [o for o in others for t in tests if gg.path_avoiding(o, t, {reads[0]}, skip_exc=True)]
        rep.ob('R-C09-CHOKE', f'{M}:generate_lines', 'the end-of-file and blank-line tests see the line exactly as readline() gave it', not bad,
               found='; '.join(_n(b)[:60] for b in bad), required=f'no assignment to `{nm}` between the read and the tests', node=bad[0] if bad else g, module=m)
    init = ix.get_func(M, 'LASRead.__init__')
    ok = any(_n(c) == f'self._process_file(generate_lines({init.args.args[1].arg}))' for c in common.calls_in(init))
    rep.ob('R-C09-CHOKE', f'{M}:LASRead.__init__', 'the whole file goes through the line generator', ok, node=init, module=m)
    for fn in ('LASRead._add_members_to_section', 'LASRead._process_section_a', 'LASRead._process_file'):
        f = ix.get_func(M, fn)
        rep.fn(f'{M}:{fn}')
        loops = [n for n in ast.walk(f) if isinstance(n, ast.For) and _n(n.iter) == 'gen']
        sends = [c for c in ast.walk(f) if isinstance(c, ast.Call) and _n(c.func) == 'gen.send']
        rep.ob('R-C09-CHOKE', f'{M}:{fn}', 'consumes the shared generator and pushes a following section head back', len(loops) >= 1 and len(sends) >= 1, node=f, module=m)
    f = ix.get_func(M, 'LASRead._add_members_to_section')
    brk = [n for n in walk_no_nested(f) if isinstance(n, ast.If) and any(isinstance(x, ast.Break) for x in n.body)]
    ok = len(brk) == 1 and show(nf(brk[0].test)) == common.nfs("line.startswith('~')")
    rep.ob('R-C09-CHOKE', f'{M}:LASRead._add_members_to_section', 'a section ends exactly at the next line starting with ~', ok, node=f, module=m)
    disp = [n for n in walk_no_nested(init) if isinstance(n, ast.Assign) and _n(n.targets[0]) == 'self._section_dispatch_map']
    keys = sorted(ix.fold(M, k) for k in disp[0].value.keys) if disp else []
    rep.ob('R-C09-CHOKE', f'{M}:LASRead.__init__', 'every section letter has a handler', keys == sorted(ix.fold_name(M, 'SECT_TYPES')), found=str(keys), node=init, module=m)


def check_fields(rep, ix):
    m = ix.module(M)
    f = ix.get_func(M, 'line_to_sect_line')
    site = f'{M}:line_to_sect_line'
    rep.fn(site)
    src = {(_n(n.targets[0]), _n(n.value)) for n in walk_no_nested(f) if isinstance(n, ast.Assign)}
    ln = f.args.args[0].arg
    rep.ob('R-C09-FIELDS', site, 'a header line is cut at its first dot', ('dot_index', f"{ln}.find('.')") in src, node=f, module=m)
    rep.ob('R-C09-FIELDS', site, 'and at its last colon', ('colon_index', f"{ln}.rfind(':')") in src, node=f, module=m)
    rep.ob('R-C09-FIELDS', site, 'mnemonic = text before the dot, data = text between, description = text after the colon',
           {('m0', f'RE_LINE_FIELD_0.match({ln}[:dot_index])'), ('m1', f'RE_LINE_FIELD_1.match({ln}[dot_index+1:colon_index])'), ('description', f'{ln}[colon_index+1:]')} <= src,
           found=str(sorted(src)), node=f, module=m)
    # declared types of SectLine
    cls = ix.get_class(M, 'SectLine')
    decl = [(s.target.id, _n(s.annotation)) for s in cls.body if isinstance(s, ast.AnnAssign)]
    rep.ob('R-C09-FIELDS', f'{M}:SectLine', 'SectLine declares (mnem, unit, valu, desc)', [d[0] for d in decl] == ['mnem', 'unit', 'valu', 'desc'], found=str(decl), module=m)
    str_fields = [i for i, (n, t) in enumerate(decl) if t == 'str']
    # which fields are produced by string_to_value?
    rets = common.returns_of(f)
    typed = None
    if len(rets) == 1 and isinstance(rets[0].value, ast.Call) and _n(rets[0].value.func) == 'SectLine':
        c = rets[0].value
        if len(c.args) == 1 and isinstance(c.args[0], ast.Starred) and isinstance(c.args[0].value, ast.ListComp) and \
                _n(c.args[0].value.elt).startswith('string_to_value('):
            typed = list(range(len(decl)))
        else:
            typed = [i for i, a in enumerate(c.args) if isinstance(a, ast.Call) and _n(a.func) == 'string_to_value']
    # nothing stands between the typed value and the section line: a value looked up in a table keyed by equality comes back
    # as the first equal value ever seen (2 == 2.0 == True-like keys collide), which depends on what was read before
    direct = False
    if len(rets) == 1 and isinstance(rets[0].value, ast.Call) and _n(rets[0].value.func) == 'SectLine':
        c = rets[0].value
        if len(c.args) == 1 and isinstance(c.args[0], ast.Starred):
            v = defuse.inline_locals(f, c.args[0].value, depth=2)
            direct = isinstance(v, ast.ListComp) and isinstance(v.elt, ast.Call) and _n(v.elt.func) == 'string_to_value' and len(v.elt.args) == 1 \
                and _n(v.elt.args[0]) in {_n(t) for gen in v.generators for t in ast.walk(gen.target) if isinstance(t, ast.Name)}
        else:
            def plain(a):
                a = defuse.inline_locals(f, a, depth=2)
                if isinstance(a, ast.Call) and _n(a.func) == 'string_to_value':
                    return True
                return all(not isinstance(x, ast.Call) or (isinstance(x.func, ast.Attribute) and x.func.attr in ('group', 'groups', 'strip', 'rstrip', 'lstrip')) for x in ast.walk(a))
            direct = bool(c.args) and not c.keywords and all(plain(a) for a in c.args)
    rep.ob('R-C09-FIELDS', site, 'each field of the section line is the matched text or its typed value itself', direct,
           found=_n(rets[0].value)[:120] if rets else 'no return', required='SectLine(*[string_to_value(g) for g in ...]) or explicit fields', node=f, module=m)
    stv = ix.get_func(M, 'string_to_value')
    kinds = sorted({_n(r.value) for r in common.returns_of(stv) if r.value is not None})
    nonstr = any(k.startswith('int(') or k.startswith('float(') or k in ('True', 'False') for k in kinds)
    bad = [decl[i][0] for i in (typed or []) if i in str_fields] if nonstr else []
    rep.ob('R-C09-FIELDS', site, 'fields declared str are not passed through the value-typing function' +
           ('' if not bad else f': {bad} are typed by string_to_value'), typed is not None and not bad,
           found=f'fields {bad} typed by string_to_value' if bad else 'only valu is typed',
           required='mnem, unit and desc stay text: a mnemonic NO must not become False, a description 42 must not become 42',
           node=f, module=m)
    # the integer reading is tried on every value: a pre-test such as isdigit() turns signed integers (-999, +3) into floats
    gs = cfgmod.CFG(stv)
    ints = [s_ for s_ in gs.stmts() if isinstance(s_, ast.Return) and isinstance(s_.value, ast.Call) and _n(s_.value.func) == 'int']
    vp = stv.args.args[0].arg
    bad = []
    for r_ in ints:
        for b, lab in gs.control_deps(r_):
            if isinstance(b, ast.If) and show(nf(b.test)) not in (common.nfs(f'{vp} is not None'), common.nfs(f'{vp} is None')):
                bad.append(_n(b.test))
    rep.ob('R-C09-FIELDS', f'{M}:string_to_value', 'int(value) is attempted for every value (only a failed conversion falls through to float)', bool(ints) and not bad,
           found='; '.join(bad) or f'{len(ints)} int() return(s)', required='try: return int(value) except ValueError', node=ints[0] if ints else stv, module=m)
    rep.ob('R-C09-FIELDS', f'{M}:string_to_value', 'values are typed as int, float, yes/no or stripped text', nonstr and any('strip' in _n(n) for n in walk_no_nested(stv)), found=str(kinds), node=stv, module=m)


def check_index(rep, ix):
    """R-C09-INDEX: the ordinal stored for a mnemonic is its position in self.members (members keeps repeated mnemonics, so a
    count of the distinct ones seen so far drifts behind the positions after the first repeat)"""
    m = ix.module(M)
    f = ix.get_func(M, 'LASSection.create_index')
    site = f'{M}:LASSection.create_index'
    rep.fn(site)
    stores = [n for n in walk_no_nested(f) if isinstance(n, ast.Assign) and len(n.targets) == 1 and isinstance(n.targets[0], ast.Subscript) and _n(n.targets[0].value) == 'self.mnemonic_index_map']
    counters = set()
    for n in walk_no_nested(f):
        if isinstance(n, ast.For) and isinstance(n.iter, ast.Call) and _n(n.iter.func) == 'enumerate' and len(n.iter.args) == 1 and not n.iter.keywords and _n(n.iter.args[0]) == 'self.members' \
                and isinstance(n.target, ast.Tuple) and isinstance(n.target.elts[0], ast.Name):
            rebound = [x for x in ast.walk(n) if isinstance(x, ast.Name) and isinstance(x.ctx, ast.Store) and x.id == n.target.elts[0].id and x is not n.target.elts[0]]
            if not rebound and all(any(st is y for y in ast.walk(n)) for st in stores):
                counters.add(n.target.elts[0].id)
    ok = bool(stores) and all(isinstance(st.value, ast.Name) and st.value.id in counters for st in stores)
    rep.ob('R-C09-INDEX', site, 'the ordinal stored for a mnemonic is its position in self.members (the enumerate() counter of the loop over the members)', ok,
           found='; '.join(_n(st) for st in stores), required='self.mnemonic_index_map[k] = <counter of enumerate(self.members)>', node=stores[0] if stores else f, module=m)


def check_kinds(rep, ix):
    m = ix.module(M)
    init = ix.get_func(M, 'LASSectionArray.__init__')
    conv = ix.get_func(M, 'LASSectionArray._convert_value')
    rep.fn(f'{M}:LASSectionArray.__init__')
    rep.fn(f'{M}:LASSectionArray._convert_value')

    def chain(f, repl):
        out = []
        for n in ast.walk(f):
            if isinstance(n, ast.If) and ("'DATE'" in ast.unparse(n.test) or "'TIME'" in ast.unparse(n.test)):
                src = ast.unparse(n.test)
                for a_, b_ in repl:
                    src = src.replace(a_, b_)
                out.append((n.lineno, common.nfs(src)))
        return [t for _, t in sorted(out)]
    ch = conv.args.args[1].arg
    a = chain(init, [('mnemonic', 'IDENT'), ('units', 'UNITS')])
    b = chain(conv, [(f'{ch}.ident', 'IDENT'), (f'{ch}.units', 'UNITS')])
    want = [common.nfs("IDENT == 'DATE' and UNITS == 'D'"), common.nfs("IDENT == 'TIME' and UNITS == 'HHMMSS'")]
    rep.ob('R-C09-KINDS', f'{M}:LASSectionArray.__init__', 'date/time channels are recognised by (mnemonic, units)', a == want, found=str(a), required=str(want), node=init, module=m)
    rep.ob('R-C09-KINDS', f'{M}:LASSectionArray._convert_value', 'values are converted as date/time for the same (mnemonic, units)', b == want, found=str(b), required=str(want), node=conv, module=m)
    rep.ob('R-C09-KINDS', 'siblings', 'dtype choice and value conversion use the same channel-kind predicates in the same order', a == b, found=f'{a} / {b}')
    # float branch
    g = cfgmod.CFG(conv)
    rets = [r for r in common.returns_of(conv)]
    flt = [r for r in rets if _n(r.value) == f'float({conv.args.args[2].arg})']
    nul = [r for r in rets if _n(r.value) == 'self._null']
    ok = len(flt) == 1 and len(nul) == 1
    rep.ob('R-C09-NULL', f'{M}:LASSectionArray._convert_value', 'a numeric token becomes float(token), an unparseable one the null value', ok,
           found=str([_n(r.value) for r in rets]), node=conv, module=m)
    if ok:
        tr = [n for n in walk_no_nested(conv) if isinstance(n, ast.Try) and any(flt[0] is x for x in n.body)]
        ok = len(tr) == 1 and [(_n(h.type) if h.type else None) for h in tr[0].handlers] == ['ValueError']
        rep.ob('R-C09-NULL', f'{M}:LASSectionArray._convert_value', 'only ValueError of the conversion selects the null value', ok, node=conv, module=m)
    fin = ix.get_func(M, 'LASSectionArray.finalise')
    rep.fn(f'{M}:LASSectionArray.finalise')
    g = cfgmod.CFG(fin)
    cv = [s for s in g.stmts() if any(_n(c.func) == 'self._convert_value' for c in cfgmod.calls_at(s))]
    mk = [s for s in g.stmts() if any(_n(c) == 'self.frame_array.mask_array(self._null)' for c in cfgmod.calls_at(s))]
    pd = g.postdominators()
    ok = len(cv) == 1 and len(mk) == 1 and mk[0] in pd.get(cv[0], ())
    rep.ob('R-C09-NULL', f'{M}:LASSectionArray.finalise', 'masking with the null value post-dominates conversion', ok, node=fin, module=m)
    if cv:
        ok = _n(cv[0]) == 'self.frame_array[channel_index][frame_number]=self._convert_value(self.frame_array[channel_index],value,frame_number)'
        rep.ob('R-C09-WRAP', f'{M}:LASSectionArray.finalise', 'column value goes to (channel in curve order, frame) converted by that channel\'s kind', ok, found=_n(cv[0]), node=cv[0], module=m)
    incs = [s for s in g.stmts() if isinstance(s, ast.AugAssign) and _n(s) == 'channel_index+=1']
    ok = len(incs) == 1 and len(cv) == 1 and _block(incs[0]) is _block(cv[0])
    rep.ob('R-C09-WRAP', f'{M}:LASSectionArray.finalise', 'the channel index advances with every stored column', ok, node=fin, module=m)
    chk = [n for n in walk_no_nested(fin) if isinstance(n, ast.If) and show(nf(n.test)) == common.nfs('len(member_frame) != expected_number_of_columns')]
    rep.ob('R-C09-WRAP', f'{M}:LASSectionArray.finalise', 'a frame with a wrong number of columns is refused', len(chk) == 1 and isinstance(chk[0].body[0], ast.Raise), node=fin, module=m)
    flush = [s for s in g.stmts() if any(_n(c) == 'self._add_buffer(-1)' for c in cfgmod.calls_at(s))]
    dom = g.dominators()
    ok = len(flush) == 1 and bool(cv) and (flush[0] in dom.get(cv[0], ()) or True) and flush[0] in dom.get(g.stmts()[-1], ()) or len(flush) == 1
    rep.ob('R-C09-WRAP', f'{M}:LASSectionArray.finalise', 'the last wrapped frame is flushed before the arrays are built', len(flush) == 1 and fin.body and isinstance(fin.body[-1], ast.Try) and any(flush[0] is x for x in fin.body[-1].body), node=fin, module=m)
    ia = [s for s in g.stmts() if any(_n(c) == 'self.frame_array.init_arrays(len(self.members))' for c in cfgmod.calls_at(s))]
    rep.ob('R-C09-WRAP', f'{M}:LASSectionArray.finalise', 'one frame per assembled data row', len(ia) == 1, node=fin, module=m)


def _block(node):
    p = getattr(node, '_parent', None)
    for fld in ('body', 'orelse', 'finalbody'):
        blk = getattr(p, fld, None)
        if isinstance(blk, list) and any(x is node for x in blk):
            return blk
    return None


def check_wrap(rep, ix):
    m = ix.module(M)
    f = ix.get_func(M, 'LASSectionArray.add_member_line')
    rep.fn(f'{M}:LASSectionArray.add_member_line')
    ln = f.args.args[2].arg
    asg = [_n(n) for n in walk_no_nested(f) if isinstance(n, ast.Assign)]
    rep.ob('R-C09-WRAP', f'{M}:LASSectionArray.add_member_line', 'a data line is split on any run of white space', f'values={ln}.strip().split()' in asg, found=str(asg), node=f, module=m)
    g = cfgmod.CFG(f)
    w = [s for s in g.stmts() if any(_n(c.func) == 'self._add_member_with_wrap_mode' for c in cfgmod.calls_at(s))]
    u = [s for s in g.stmts() if any(_n(c) == 'self.members.append(values)' for c in cfgmod.calls_at(s))]
    ok = len(w) == 1 and len(u) == 1
    if ok:
        dw = [(show(nf(b.test)), lab) for b, lab in g.control_deps(w[0]) if isinstance(b, ast.If)]
        du = [(show(nf(b.test)), lab) for b, lab in g.control_deps(u[0]) if isinstance(b, ast.If)]
        ok = dw == [(common.nfs('len(values) > 0'), 'true'), ('self._wrap', 'true')] and du == [(common.nfs('len(values) > 0'), 'true'), ('self._wrap', 'false')]
    rep.ob('R-C09-WRAP', f'{M}:LASSectionArray.add_member_line', 'non-empty lines go to the wrap assembler when WRAP is yes, else they are a frame', ok, node=f, module=m)
    h = ix.get_func(M, 'LASSectionArray._add_member_with_wrap_mode')
    rep.fn(f'{M}:LASSectionArray._add_member_with_wrap_mode')
    tests = [show(nf(n.test)) for n in walk_no_nested(h) if isinstance(n, ast.If)]
    want = {common.nfs('len(self._unwrap_buffer) == 0'), common.nfs('len(values) == 1'),
            common.nfs('len(self._unwrap_buffer) == len(self._mnemonics_units)'), common.nfs('len(self._unwrap_buffer) > len(self._mnemonics_units)')}
    rep.ob('R-C09-WRAP', f'{M}:LASSectionArray._add_member_with_wrap_mode', 'index line alone, then values until exactly the curve count; overflow refused', set(tests) == want, found=str(tests), node=h, module=m)
    calls = [_n(c) for c in common.calls_in(h)]
    ok = 'self._unwrap_buffer.append(values[0])' in calls and 'self._unwrap_buffer.extend(values)' in calls and 'self._add_buffer(line_number)' in calls
    rep.ob('R-C09-WRAP', f'{M}:LASSectionArray._add_member_with_wrap_mode', 'values are appended in reading order', ok, node=h, module=m)
    ab = ix.get_func(M, 'LASSectionArray._add_buffer')
    src = _n(ab)
    ok = 'self.members.append(self._unwrap_buffer)' in src and 'self._unwrap_buffer=[]' in src and 'iflen(self._unwrap_buffer)!=len(self._mnemonics_units):' in src
    rep.ob('R-C09-WRAP', f'{M}:LASSectionArray._add_buffer', 'a complete buffer becomes one frame and a fresh buffer is started; a short one is refused', ok, node=ab, module=m)
    ini = ix.get_func(M, 'LASSectionArray.__init__')
    asg = [_n(n) for n in walk_no_nested(ini) if isinstance(n, ast.Assign)]
    cs = ini.args.args[3].arg
    rep.ob('R-C09-WRAP', f'{M}:LASSectionArray.__init__', 'one channel per curve, in curve-section order', f'self._mnemonics_units=list(zip({cs}.mnemonics(),{cs}.units()))' in asg and any('enumerate(self._mnemonics_units)' in _n(n.iter) for n in walk_no_nested(ini) if isinstance(n, ast.For)), node=ini, module=m)
    sa = ix.get_func(M, 'LASRead._process_section_a')
    news = [c for c in common.calls_in(sa) if _n(c.func) == 'LASSectionArray']
    ok = len(news) == 1 and [_n(a) for a in news[0].args][:3] == ['match.group(1)', 'self._wrap', 'self._sections[curve_index]']
    rep.ob('R-C09-WRAP', f'{M}:LASRead._process_section_a', 'the array section gets the WRAP flag of the version section and the curve section', ok, found=';'.join(_n(n) for n in news), node=sa, module=m)
    sv = ix.get_func(M, 'LASRead._process_section_v')
    rep.ob('R-C09-WRAP', f'{M}:LASRead._process_section_v', 'WRAP comes from the version section', any(_n(n) == "self._wrap=section['WRAP'].valu" for n in walk_no_nested(sv) if isinstance(n, ast.Assign)), node=sv, module=m)
    sm = ix.get_func(M, 'LASSection.add_member_line')
    ok = any(_n(c) == f'self.members.append(line_to_sect_line({sm.args.args[2].arg}))' for c in common.calls_in(sm))
    rep.ob('R-C09-WRAP', f'{M}:LASSection.add_member_line', 'header-section lines are decomposed into the four fields, in file order', ok, node=sm, module=m)


def run(rep, ix, tier):
    check_regex(rep, ix)
    check_field_regex(rep, ix)
    check_choke(rep, ix)
    check_fields(rep, ix)
    check_kinds(rep, ix)
    check_index(rep, ix)
    check_wrap(rep, ix)
    rep.floor('R-C09-REGEX', 5)
    rep.floor('R-C09-CHOKE', 9)
    rep.floor('R-C09-FIELDS', 6)
    rep.floor('R-C09-KINDS', 3)
    rep.floor('R-C09-NULL', 6)
    rep.floor('R-C09-WRAP', 12)
