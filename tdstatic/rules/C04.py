"""C04 DLIS frame arrays hold exactly the recorded values; sub-selection commutes (structural clauses)."""
import ast

from .. import cfg as cfgmod, defuse
from ..loader import FuncRef, walk_no_nested
from ..norm import nf, show, attr_chain
from . import common, imports, slicerules

EXPLANATION = (
    'Decides: (1) one channel predicate: FrameArray.init_arrays_partial and RP66V1FrameArray.read_partial select '
    'with the same normal-form predicate and the complementary branches are init_array(0) / seek; (2) one selector, '
    'one length: populate_frame_array calls gen_indices and count on the same selector with the same argument, row i '
    'is filled from data record indices[i] fetched through its recorded position, the same channel set reaches '
    'allocation and reading; the selector itself is verified by the C15 delegation and purity rules; (3) skip length '
    '= read length: seek advances by rep_code_fixed_length(rep_code) * count, read performs one decode per element of '
    'numpy_indexes (product of the dimensions = count), len_input_bytes is the same product; (4) numpy dtype table '
    'agrees in kind, width and signedness with each decoder; (5) the index X value / frame number come from the first '
    'channel at frame 0 and the recorded frame number; (6) array reuse only when the length matches and every element '
    'is overwritten.'
    ' The full allocation is reached by every call that does not refuse its argument (no return before the loop), so it does not depend on an earlier partial allocation.')
NOT_DECIDED = 'value equality over all files, commutation over all slices (follows from 1-3 only together with C07 decoders), history independence beyond purity of the selectors and full overwrite.'
ASSUMPTIONS = ['numpy indexing and itertools.product semantics', 'FrameChannel.ident of RP66V1 channels is a str']
TECHNIQUE = 'static analysis: sibling predicate normal forms, argument provenance, CFG, table agreement, purity analysis'

LF = 'TotalDepth.RP66V1.core.LogicalFile'
LP = 'TotalDepth.RP66V1.core.LogPass'
CLP = 'TotalDepth.common.LogPass'
RP = 'TotalDepth.RP66V1.core.pRepCode'
XA = 'TotalDepth.RP66V1.core.XAxis'
IF = 'TotalDepth.RP66V1.core.LogicalRecord.IFLR'


def _loop_if(f):
    """(for loop, if inside it) of the `for c, channel in enumerate(self.channels): if PRED: A else: B` idiom"""
    for n in walk_no_nested(f):
        if isinstance(n, ast.For) and _n(n.iter) == 'enumerate(self.channels)' and len(n.body) == 1 and isinstance(n.body[0], ast.If):
            return n, n.body[0]
    return None, None


def _n(e):
    return ast.unparse(e).replace(' ', '')


def check_pred(rep, ix):
    cm = ix.module(CLP)
    lm = ix.module(LP)
    a = ix.get_func(CLP, 'FrameArray.init_arrays_partial')
    b = ix.get_func(LP, 'RP66V1FrameArray.read_partial')
    rep.fn(f'{CLP}:FrameArray.init_arrays_partial')
    rep.fn(f'{LP}:RP66V1FrameArray.read_partial')
    preds = []
    for f, mod, site, chan_param, want_t, want_f in (
            (a, cm, f'{CLP}:FrameArray.init_arrays_partial', a.args.args[2].arg, f'{{ch}}.init_array({a.args.args[1].arg})', '{ch}.init_array(0)'),
            (b, lm, f'{LP}:RP66V1FrameArray.read_partial', b.args.args[3].arg, f'{{ch}}.read({b.args.args[1].arg},{b.args.args[2].arg})', f'{{ch}}.seek({b.args.args[1].arg})')):
        loop, iff = _loop_if(f)
        ok = loop is not None and isinstance(loop.target, ast.Tuple) and len(loop.target.elts) == 2
        rep.ob('R-C04-PRED', site, 'iterates enumerate(self.channels) with one two-way decision per channel', ok, node=f, module=mod)
        if not ok:
            continue
        c, ch = loop.target.elts[0].id, loop.target.elts[1].id
        p = show(nf(iff.test, {c: ('name', 'C'), ch: ('name', 'CH'), chan_param: ('name', 'SET')}))
        preds.append((site, p))
        t = [_n(s) for s in iff.body]
        e = [_n(s) for s in iff.orelse]
        rep.ob('R-C04-PRED', site, f'selected channel: {t}', t == [want_t.format(ch=ch)], found=str(t), required=want_t.format(ch=ch), node=iff, module=mod)
        rep.ob('R-C04-PRED', site, f'unselected channel: {e}', e == [want_f.format(ch=ch)], found=str(e), required=want_f.format(ch=ch), node=iff, module=mod)
    want = common.nfs('C == 0 or CH.ident in SET')
    for site, p in preds:
        rep.ob('R-C04-PRED', site, f'channel predicate {p}', p == want, found=p, required=want)
    rep.ob('R-C04-PRED', 'siblings', 'allocation and reading use the same predicate', len({p for _, p in preds}) == 1 and len(preds) == 2,
           found=str(preds), required='equal normal forms')
    f = ix.get_func(LP, 'RP66V1FrameArray.read')
    loops = [n for n in walk_no_nested(f) if isinstance(n, ast.For)]
    ok = len(loops) == 1 and _n(loops[0].iter) == 'self.channels' and [_n(s) for s in loops[0].body] == [f'{loops[0].target.id}.read({f.args.args[1].arg},{f.args.args[2].arg})']
    rep.ob('R-C04-PRED', f'{LP}:RP66V1FrameArray.read', 'full read decodes every channel in order', ok, node=f, module=lm)
    f = ix.get_func(CLP, 'FrameArray.init_arrays')
    loops = [n for n in walk_no_nested(f) if isinstance(n, ast.For)]
    ok = len(loops) == 1 and _n(loops[0].iter) == 'self.channels' and [_n(s) for s in loops[0].body] == [f'{loops[0].target.id}.init_array({f.args.args[1].arg})']
    rep.ob('R-C04-PRED', f'{CLP}:FrameArray.init_arrays', 'full allocation covers every channel', ok, node=f, module=cm)
    # (the arrays are allocated afresh on every call: a call that returns before the loop keeps what an earlier, possibly partial,
    # allocation left - channels of zero length after init_arrays_partial)
    early = [n for n in walk_no_nested(f) if isinstance(n, ast.Return)]
    rep.ob('R-C04-PRED', f'{CLP}:FrameArray.init_arrays', 'every call that does not refuse its argument reaches the allocation loop (no return before it; the loop is a statement of the body itself)',
           len(loops) == 1 and any(st is loops[0] for st in f.body) and not early, found=f'{len(early)} return statement(s)' if early else 'loop nested', required='allocation independent of earlier calls',
           node=early[0] if early else f, module=cm)


def check_sel(rep, ix):
    m = ix.module(LF)
    f = ix.get_func(LF, 'LogicalFile.populate_frame_array')
    site = f'{LF}:LogicalFile.populate_frame_array'
    rep.fn(site)
    fa, sl, chs = [a.arg for a in f.args.args[1:4]]
    gens = [c for c in common.calls_in(f) if attr_chain(c.func) == f'{sl}.gen_indices']
    cnts = [c for c in common.calls_in(f) if attr_chain(c.func) == f'{sl}.count']
    ok = len(gens) == 1 and len(cnts) == 1 and [_n(a) for a in gens[0].args] == [_n(a) for a in cnts[0].args] and len(gens[0].args) == 1
    rep.ob('R-C04-SEL', site, 'gen_indices and count are asked of the same selector with the same length', ok,
           found=f'{[ast.unparse(c) for c in gens]} / {[ast.unparse(c) for c in cnts]}', required=f'{sl}.gen_indices(n), {sl}.count(n)', node=f, module=m)
    if not ok:
        return
    arg = _n(gens[0].args[0])
    defs = defuse.assignments(f)
    src = [v for v, st, ex in defs.get('iflrs', [])]
    ok = arg == 'len(iflrs)' and len(src) == 1 and _n(src[0]) == f'self.iflr_position_map[{fa}.ident]'
    rep.ob('R-C04-SEL', site, 'the selector is applied to the number of data records of this frame type', ok, found=arg, node=f, module=m)
    gen_var = [k for k, v in defs.items() if any(x[0] is gens[0] for x in v)]
    cnt_var = [k for k, v in defs.items() if any(x[0] is cnts[0] for x in v)]
    loops = [n for n in walk_no_nested(f) if isinstance(n, ast.For) and isinstance(n.iter, ast.Call) and attr_chain(n.iter.func) == 'enumerate']
    ok = len(loops) == 1 and len(gen_var) == 1 and len(cnt_var) == 1 and _n(loops[0].iter) == f'enumerate({gen_var[0]})'
    rep.ob('R-C04-SEL', site, 'rows are enumerated over the generated record indices', ok, node=f, module=m)
    if not ok:
        return
    row, rec = [e.id for e in loops[0].target.elts]
    lp = loops[0]
    # unsliced alternative: range(len(iflrs)) / len(iflrs)
    alts = defs.get(gen_var[0], []) + defs.get(cnt_var[0], [])
    alt_src = sorted(_n(v) for v, st, ex in alts if v is not gens[0] and v is not cnts[0])
    rep.ob('R-C04-SEL', site, 'without a selector all records are taken', alt_src == sorted(['range(len(iflrs))', 'len(iflrs)', '0']) or
           alt_src == sorted(['range(len(iflrs))', 'len(iflrs)']), found=str(alt_src), node=f, module=m)
    body = {attr_chain(c.func) or _n(c.func): c for st in lp.body for c in common.calls_in(st)}
    ref = [st for st in lp.body if isinstance(st, ast.Assign) and _n(st.value) == f'iflrs[{rec}]']
    ok = len(ref) == 1
    rep.ob('R-C04-SEL', site, f'record index selects the data record: iflrs[{rec}]', ok, node=lp, module=m)
    refn = ref[0].targets[0].id if ok else 'iflr_reference'
    fetch = [c for st in lp.body for c in common.calls_in(st) if (attr_chain(c.func) or '').endswith('get_file_logical_data_at_position')]
    ok = len(fetch) == 1 and [_n(a) for a in fetch[0].args] == [f'{refn}.logical_record_position'] and not fetch[0].keywords
    rep.ob('R-C04-SEL', site, 'the record is fetched whole through its recorded position', ok,
           found=';'.join(ast.unparse(x) for x in fetch), node=lp, module=m)
    reads = [c for st in lp.body for c in common.calls_in(st) if attr_chain(c.func) in (f'{fa}.read', f'{fa}.read_partial')]
    for c in reads:
        want = ['fld.logical_data', row] + ([chs] if attr_chain(c.func).endswith('read_partial') else [])
        ok = [_n(a) for a in c.args] == want
        rep.ob('R-C04-SEL', site, f'`{ast.unparse(c)}` writes row = enumeration index', ok, found=ast.unparse(c), required=str(want), node=c, module=m)
    rep.ob('R-C04-SEL', site, 'both read forms present', {attr_chain(c.func) for c in reads} == {f'{fa}.read', f'{fa}.read_partial'}, node=lp, module=m)
    # IFLR preamble is consumed before reading the channels
    pre = [st for st in lp.body if any(attr_chain(c.func) == 'IFLR.IndirectlyFormattedLogicalRecord' for c in common.calls_in(st))]
    g = cfgmod.CFG(f)
    dom = g.dominators()
    rd_st = [common.stmt_containing(c) for c in reads]
    ok = len(pre) == 1 and all(pre[0] in dom.get(s, ()) for s in rd_st)
    rep.ob('R-C04-SEL', site, 'the IFLR preamble (OBNAME, frame number) is consumed before the channel data', ok, node=lp, module=m)
    # allocation
    allocs = [c for c in common.calls_in(f) if attr_chain(c.func) in (f'{fa}.init_arrays', f'{fa}.init_arrays_partial')]
    for c in allocs:
        if common.stmt_containing(c) in dom and any(isinstance(b, ast.If) and _n(b.test) == 'len(iflrs)' and lab == 'false' for b, lab in g.control_deps(common.stmt_containing(c))):
            continue
        want = [cnt_var[0]] + ([chs] if attr_chain(c.func).endswith('_partial') else [])
        rep.ob('R-C04-SEL', site, f'`{ast.unparse(c)}` allocates the counted number of rows', [_n(a) for a in c.args] == want,
               found=ast.unparse(c), required=str(want), node=c, module=m)
    # channel guard identical for allocation and read
    tests = set()
    for c in allocs + reads:
        if attr_chain(c.func).endswith('_partial'):
            deps = [(show(nf(b.test)), lab) for b, lab in g.control_deps(common.stmt_containing(c)) if isinstance(b, ast.If)]
            tests.add(deps[-1] if deps else None)
    want_t = (common.nfs(f'{chs} is not None'), 'true')
    rep.ob('R-C04-SEL', site, 'partial allocation and partial read are chosen by the same test', tests == {want_t}, found=str(tests), required=str(want_t), node=f, module=m)
    rets = common.returns_of(f)
    ok = len(rets) == 1 and _n(rets[0].value) == cnt_var[0]
    rep.ob('R-C04-SEL', site, 'returns the number of rows', ok, node=f, module=m)
    slicerules.check_slice(rep, ix, 'R-C04-SELECTOR')
    slicerules.check_sample(rep, ix, 'R-C04-SELECTOR')


def check_len(rep, ix):
    m = ix.module(LP)
    seek = ix.get_func(LP, 'RP66V1FrameChannel.seek')
    rep.fn(f'{LP}:RP66V1FrameChannel.seek')
    ld = seek.args.args[1].arg
    adv = [c for c in common.calls_in(seek) if attr_chain(c.func) == f'{ld}.seek']
    want = common.nfs('RepCode.rep_code_fixed_length(self.rep_code) * self.count')
    ok = len(adv) == 1 and len(adv[0].args) == 1 and show(nf(adv[0].args[0])) == want
    rep.ob('R-C04-LEN', f'{LP}:RP66V1FrameChannel.seek', 'skip length = fixed length of the code x element count', ok,
           found=ast.unparse(adv[0].args[0]) if adv else '', required='RepCode.rep_code_fixed_length(self.rep_code) * self.count', node=seek, module=m)
    lib = ix.get_func(LP, 'RP66V1FrameChannel.len_input_bytes')
    rets = common.returns_of(lib)
    ok = len(rets) == 1 and show(nf(rets[0].value)) == want
    rep.ob('R-C04-LEN', f'{LP}:RP66V1FrameChannel.len_input_bytes', 'declared input length is the same product', ok,
           found=ast.unparse(rets[0].value) if rets else '', node=lib, module=m)
    rd = ix.get_func(LP, 'RP66V1FrameChannel.read')
    rep.fn(f'{LP}:RP66V1FrameChannel.read')
    ld, fr = rd.args.args[1].arg, rd.args.args[2].arg
    loops = [n for n in walk_no_nested(rd) if isinstance(n, ast.For)]
    ok = len(loops) == 1 and _n(loops[0].iter) == f'self.numpy_indexes({fr})'
    rep.ob('R-C04-LEN', f'{LP}:RP66V1FrameChannel.read', 'one pass over numpy_indexes(frame)', ok, node=rd, module=m)
    if ok:
        lp = loops[0]
        decs = [c for c in common.calls_in(lp) if attr_chain(c.func) == 'RepCode.code_read']
        ok = len(decs) == 1 and [_n(a) for a in decs[0].args] == ['self.rep_code', ld]
        rep.ob('R-C04-LEN', f'{LP}:RP66V1FrameChannel.read', 'exactly one decode of the channel\'s code per element', ok,
               found=';'.join(ast.unparse(d) for d in decs), node=lp, module=m)
        st = [s for s in lp.body if isinstance(s, ast.Assign) and isinstance(s.targets[0], ast.Subscript)]
        ok = len(st) == 1 and _n(st[0].targets[0]) == f'self.array[{lp.target.id}]' and (
            _n(st[0].value) == f'RepCode.code_read(self.rep_code,{ld})' or
            (isinstance(st[0].value, ast.Name) and any(isinstance(s, ast.Assign) and _n(s.targets[0]) == st[0].value.id
                                                       and _n(s.value) == f'RepCode.code_read(self.rep_code,{ld})' for s in lp.body)))
        rep.ob('R-C04-REUSE', f'{LP}:RP66V1FrameChannel.read', 'every element of the frame is overwritten with the decoded value', ok, node=lp, module=m)
    cm = ix.module(CLP)
    ni = ix.get_func(CLP, 'FrameChannel.numpy_indexes')
    rep.fn(f'{CLP}:FrameChannel.numpy_indexes')
    fr = ni.args.args[1].arg
    body = [_n(s) for s in ni.body if not (isinstance(s, ast.Expr) and isinstance(s.value, ast.Constant)) and not isinstance(s, ast.If)]
    want_b = [f'products=[[{fr}]]', 'fordinself.dimensions:\nproducts.append(range(d))'.replace('\n', '\n    '), 'returnitertools.product(*products)']
    got = [b.replace('\n    ', '\n').replace('\n', '') for b in body]
    ok = got == [w.replace('\n    ', '').replace('\n', '') for w in want_b]
    rep.ob('R-C04-LEN', f'{CLP}:FrameChannel.numpy_indexes', 'indexes = {frame} x range(d) for every dimension, in order', ok,
           found=str(got), node=ni, module=cm)
    init = ix.get_func(CLP, 'FrameChannel.__init__')
    asg = {}
    for n in walk_no_nested(init):
        if isinstance(n, (ast.Assign, ast.AnnAssign)):
            t = n.targets[0] if isinstance(n, ast.Assign) else n.target
            if attr_chain(t) and attr_chain(t).startswith('self.'):
                asg[t.attr] = _n(n.value)
    shp = init.args.args[4].arg
    rep.ob('R-C04-LEN', f'{CLP}:FrameChannel.__init__', 'count is the product of the dimensions',
           asg.get('count') == 'functools.reduce(lambdax,y:x*y,self.dimensions,1)' and asg.get('dimensions') == f'tuple({shp})',
           found=str(asg.get('count')), node=init, module=cm)
    rep.ob('R-C04-REUSE', f'{CLP}:FrameChannel.__init__', 'arrays have one row per frame and the channel\'s dimensions',
           asg.get('array') == 'np.empty((0,*self.dimensions),dtype=self.np_dtype)', found=str(asg.get('array')), node=init, module=cm)
    ia = ix.get_func(CLP, 'FrameChannel.init_array')
    nf_ = ia.args.args[1].arg
    ifs = [n for n in walk_no_nested(ia) if isinstance(n, ast.If) and not any(isinstance(x, ast.Raise) for x in n.body)]
    ok = len(ifs) == 1 and show(nf(ifs[0].test)) == common.nfs(f'self.array is None or len(self.array) != {nf_}') and \
        [_n(s) for s in ifs[0].body] == [f'self.array=np.empty(({nf_},*self.dimensions),dtype=self.np_dtype)']
    rep.ob('R-C04-REUSE', f'{CLP}:FrameChannel.init_array', 'an array is reused only when its length equals the requested number of frames', ok,
           found=ast.unparse(ifs[0].test) if ifs else '', node=ia, module=cm)
    # fixed length lookup
    f = ix.get_func(RP, 'rep_code_fixed_length')
    rets = common.returns_of(f)
    ok = len(rets) == 1 and _n(rets[0].value) == f'REP_CODE_FIXED_LENGTHS[{f.args.args[0].arg}]'
    rep.ob('R-C04-LEN', f'{RP}:rep_code_fixed_length', 'fixed length comes from REP_CODE_FIXED_LENGTHS (verified against the decoders in C07)', ok, node=f, module=ix.module(RP))
    f = ix.get_func(LP, 'frame_channel_from_RP66V1')
    calls = [c for c in common.calls_in(f) if attr_chain(c.func) == 'RP66V1FrameChannel']
    kw = {k.arg: _n(k.value) for c in calls for k in c.keywords}
    rc = "channel_object[b'REPRESENTATION-CODE'].value[0]"
    ok = kw.get('rep_code') == rc and kw.get('np_dtype') == f'RepCode.numpy_dtype({rc})' and kw.get('dimensions') == "channel_object[b'DIMENSION'].value"
    rep.ob('R-C04-DTYPE', f'{LP}:frame_channel_from_RP66V1', 'rep code, dtype and dimensions of a channel come from its CHANNEL object', ok, found=str(kw), node=f, module=m)


DTYPES = {2: ('float', 32, 32), 5: ('float', 32, 64), 6: ('float', 32, 64), 7: ('float', 64, 64), 12: ('int', 8, 8), 13: ('int', 16, 16),
          14: ('int', 32, 32), 15: ('uint', 8, 8), 16: ('uint', 16, 16), 17: ('uint', 32, 32), 18: ('uint', 32, 64)}


def check_dtype(rep, ix):
    m = ix.module(RP)
    tm = ix.fold_name(RP, 'REP_CODE_NUMPY_TYPE_MAP')
    cat = None
    import re
    for code, v in sorted(tm.items()):
        q = v.qname.split(':')[-1] if isinstance(v, FuncRef) else repr(v)
        mm = re.match(r'^(float|int|uint)(\d+)$', q)
        want = DTYPES.get(code)
        ok = bool(mm) and want is not None and mm.group(1) == want[0] and want[1] <= int(mm.group(2)) <= want[2]
        rep.ob('R-C04-DTYPE', f'{RP}:REP_CODE_NUMPY_TYPE_MAP', f'code {code} -> numpy {q}', ok, found=q,
               required=f'{want[0]}{want[1]}' + (f'..{want[2]}' if want and want[1] != want[2] else '') if want else 'no numeric array type', module=m)
    fixed = ix.fold_name(RP, 'REP_CODE_FIXED_LENGTHS')
    for code in sorted(tm):
        if code != 18:
            rep.ob('R-C04-DTYPE', f'{RP}:REP_CODE_NUMPY_TYPE_MAP', f'array code {code} has a fixed length (can be skipped)', code in fixed, module=m)
    f = ix.get_func(RP, 'numpy_dtype')
    rets = common.returns_of(f)
    ok = len(rets) == 1 and _n(rets[0].value) == f'REP_CODE_NUMPY_TYPE_MAP[{f.args.args[0].arg}]'
    rep.ob('R-C04-DTYPE', f'{RP}:numpy_dtype', 'dtype lookup goes through the table', ok, node=f, module=m)


def check_x(rep, ix):
    m = ix.module(LF)
    f = ix.get_func(LF, 'LogicalFile.add_iflr')
    site = f'{LF}:LogicalFile.add_iflr'
    rep.fn(site)
    fld, iflr = f.args.args[1].arg, f.args.args[2].arg
    fa = [n for n in walk_no_nested(f) if isinstance(n, (ast.Assign, ast.AnnAssign)) and _n(n.value) == f'self.log_pass[{iflr}.object_name]']
    rep.ob('R-C04-X', site, 'the frame array is chosen by the record\'s object name', len(fa) == 1, node=f, module=m)
    rx = [c for c in common.calls_in(f) if (attr_chain(c.func) or '').endswith('.read_x_axis')]
    ok = len(rx) == 1 and _n(rx[0].args[0]) == f'{fld}.logical_data' and \
        ((len(rx[0].args) == 2 and _n(rx[0].args[1]) == '0') or [(k.arg, _n(k.value)) for k in rx[0].keywords] == [('frame_number', '0')])
    rep.ob('R-C04-X', site, 'the first channel is decoded at row 0 from this record\'s data', ok, found=';'.join(ast.unparse(c) for c in rx), node=f, module=m)
    ap = [c for c in common.calls_in(f) if isinstance(c.func, ast.Attribute) and c.func.attr == 'append' and 'iflr_position_map' in ast.unparse(c.func)]
    ok = len(ap) == 1 and [_n(a) for a in ap[0].args][:2] == [f'{fld}.position', f'{iflr}.frame_number'] and \
        len(ap[0].args) == 3 and _n(ap[0].args[2]).startswith('frame_array.x_axis.array')
    rep.ob('R-C04-X', site, 'index entry = (record position, recorded frame number, first-channel value)', ok,
           found=ast.unparse(ap[0]) if ap else '', node=f, module=m)
    ok = bool(ap) and _n(ap[0].func.value) == f'self.iflr_position_map[{iflr}.object_name]'
    rep.ob('R-C04-X', site, 'entries are kept per frame type, in file order (append)', ok, node=f, module=m)
    g = cfgmod.CFG(f)
    dom = g.dominators()
    chk = [s for s in g.stmts() if any((attr_chain(c.func) or '').endswith('_check_fld_iflr') for c in cfgmod.calls_at(s))]
    rep.ob('R-C04-X', site, 'record is validated before it is indexed', bool(chk) and bool(ap) and chk[0] in dom.get(common.stmt_containing(ap[0]), ()), node=f, module=m)
    # the empty-record filter: frame count = non-empty data records
    ent = ix.get_func(LF, 'LogicalIndex.__enter__')
    calls = [c for c in common.calls_in(ent) if isinstance(c.func, ast.Attribute) and c.func.attr == 'add_iflr']
    g2 = cfgmod.CFG(ent)
    deps = [(show(nf(b.test)), lab) for c in calls for b, lab in g2.control_deps(common.stmt_containing(c)) if isinstance(b, ast.If)]
    ok = len(calls) == 1 and deps[-1:] == [(common.nfs('iflr.remain > 0'), 'true')]
    rep.ob('R-C04-X', f'{LF}:LogicalIndex.__enter__', 'exactly the non-empty data records are indexed', ok, found=str(deps[-1:]), node=ent, module=m)
    xm = ix.module(XA)
    ap2 = ix.get_func(XA, 'XAxis.append')
    ps = [a.arg for a in ap2.args.args[1:]]
    ok = any(_n(c) == f'self._data.append(IFLRReference({",".join(ps)}))' for c in common.calls_in(ap2))
    rep.ob('R-C04-X', f'{XA}:XAxis.append', 'position, frame number and X value are stored together, in order', ok, node=ap2, module=xm)
    gi = ix.get_func(XA, 'XAxis.__getitem__')
    r = common.returns_of(gi)
    rep.ob('R-C04-X', f'{XA}:XAxis.__getitem__', 'entry i is the i-th appended record', len(r) == 1 and _n(r[0].value) == f'self._data[{gi.args.args[1].arg}]', node=gi, module=xm)
    im = ix.module(IF)
    fi = ix.get_func(IF, 'IndirectlyFormattedLogicalRecord.__init__')
    ld = fi.args.args[2].arg
    seq = [_n(n.value) for n in fi.body if isinstance(n, (ast.Assign, ast.AnnAssign)) and isinstance(n.value, ast.Call) and (attr_chain(n.value.func) or '').startswith('RepCode.')]
    ok = seq == [f'RepCode.OBNAME({ld})', f'RepCode.UVARI({ld})']
    rep.ob('R-C04-X', f'{IF}:IndirectlyFormattedLogicalRecord.__init__', 'preamble = OBNAME then UVARI frame number', ok, found=str(seq), node=fi, module=im)
    rw = [i for i, n in enumerate(fi.body) if isinstance(n, ast.Expr) and _n(n.value) == f'{ld}.rewind()']
    rep.ob('R-C04-X', f'{IF}:IndirectlyFormattedLogicalRecord.__init__', 'decoding starts at the beginning of the record (history independent)', bool(rw), node=fi, module=im)
    lm = ix.module(LP)
    rxa = ix.get_func(LP, 'RP66V1FrameArray.read_x_axis')
    calls = [_n(c) for c in common.calls_in(rxa)]
    ok = f'self.x_axis.read({rxa.args.args[1].arg},{rxa.args.args[2].arg})' in calls
    rep.ob('R-C04-X', f'{LP}:RP66V1FrameArray.read_x_axis', 'X axis = channel 0 decoded from the record', ok, node=rxa, module=lm)
    xa = ix.get_func(CLP, 'FrameArray.x_axis')
    r = common.returns_of(xa)
    rep.ob('R-C04-X', f'{CLP}:FrameArray.x_axis', 'x_axis is channels[0]', len(r) == 1 and _n(r[0].value) == 'self.channels[0]', node=xa, module=ix.module(CLP))


def run(rep, ix, tier):
    imports.check_import_closure(rep, ix, 'R-IMP', [LF, LP])
    check_pred(rep, ix)
    check_sel(rep, ix)
    check_len(rep, ix)
    check_dtype(rep, ix)
    check_x(rep, ix)
    # frame values are decoded by the RP66V1 representation-code readers: same rule as C07 / C03
    from . import C07
    C07.run_rp66(rep, ix)
    rep.floor('R-C07-VALUE', 25)
    rep.floor('R-C04-PRED', 10)
    rep.floor('R-C04-SEL', 12)
    rep.floor('R-C04-LEN', 7)
    rep.floor('R-C04-DTYPE', 20)
    rep.floor('R-C04-X', 12)
    rep.floor('R-C04-REUSE', 3)
    rep.floor('R-C04-SELECTOR', 25)
