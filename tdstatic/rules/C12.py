"""C12 Batch conversion isolates bad files and is independent of job scheduling (structural clauses)."""
import ast

from .. import cfg as cfgmod, defuse, exc
from ..loader import walk_no_nested
from ..norm import nf, show, attr_chain
from . import common, imports

EXPLANATION = (
    'Decides: (1) isolation: the exception-escape fixpoint of each per-file function (single_rp66v1_file_to_las, '
    'single_lis_file_to_las, single_bit_path_to_las_path) is empty for explicit raises and the frozen partial operations; '
    'the conversion body sits in a try whose handlers include a catch-all for Exception and every return value is a '
    'LASWriteResult carrying the input path; the only call outside the try that touches the file is the type gate, whose '
    'own escape set is empty (C20); (2) tasks: both drivers enumerate files only through DirWalk.dirWalk, make one call / '
    'one task per file with the same argument tuple in the same order, and key the results by the input path; the '
    'big-first and the alphabetical branch of dirWalk apply the same file predicate and build the same output path; the '
    'big-first generator keeps one entry per file (not keyed by size); (3) output paths depend only on the input path and '
    'per-file indices (no clock, pid, random, counter); (4) no shared state: no global statement or module-level mutation '
    'in the per-file call tree, every makedirs has exist_ok=True and no exists()-then-create guard.')
NOT_DECIDED = 'the schedules and fault sequences themselves; equality of output files between runs; operating-system I/O errors.'
ASSUMPTIONS = ['multiprocessing.Pool.apply_async(f, t).get() returns f(*t) or re-raises its exception', 'os.listdir / os.path.isfile are consistent during one walk']
TECHNIQUE = 'static analysis: exception-escape fixpoint, handler completeness, sibling agreement of drivers and of dirWalk branches, def-use closure of output paths, effect (global write) scan'

WL = 'TotalDepth.LAS.core.WriteLAS'
DW = 'TotalDepth.util.DirWalk'
PER_FILE = (('TotalDepth.RP66V1.ToLAS', 'single_rp66v1_file_to_las'), ('TotalDepth.LIS.ToLAS', 'single_lis_file_to_las'),
            ('TotalDepth.BIT.ToLAS', 'single_bit_path_to_las_path'))


def _n(e):
    return ast.unparse(e).replace(' ', '')


def check_isolate(rep, ix):
    ea = exc.ExcAnalysis(ix)
    # the LIS frame plan divides by its frame size: positive by the invariant C20 proves (obligations R-C20-FRAMESIZE)
    from . import C14
    C14.check_row_length(rep, ix)
    from . import C20
    if C20._frame_size_positive(rep, ix):
        ea.proved_nonzero = frozenset({('TotalDepth.LIS.core.Type01Plan', 'self._frameSize')})
    for mod, fn in PER_FILE:
        m = ix.module(mod)
        f = ix.get_func(mod, fn)
        site = f'{mod}:{fn}'
        rep.fn(site)
        esc = ea.escapes(mod, fn)
        rep.ob('R-C12-ISOLATE', site, 'no exception class escapes the per-file function', not esc,
               found=str({k: v[0] for k, v in esc.items()}) if esc else 'escape set is empty',
               required='a bad file gives a failed result for that file, never an exception in the driver (r.get() would re-raise it and lose the batch)', module=m)
        tries = [n for n in walk_no_nested(f) if isinstance(n, ast.Try)]
        big = [t for t in tries if any(isinstance(c, ast.Call) and _n(c.func) in ('LogicalFile.LogicalIndex', 'File.FileRead', 'ReadBIT.create_bit_frame_array_from_file') for s in t.body for c in ast.walk(s))]
        ok = len(big) == 1
        rep.ob('R-C12-ISOLATE', site, 'the conversion runs inside one try statement', ok, found=f'{len(big)} of {len(tries)} try statements contain the reader', node=f, module=m)
        if ok:
            hs = [(_n(h.type) if h.type is not None else None) for h in big[0].handlers]
            catch_all = any(h is None or h in ('Exception', 'BaseException') for h in hs)
            rep.ob('R-C12-ISOLATE', site, f'its handlers {hs} include a catch-all for Exception', catch_all, found=str(hs),
                   required='except Exception (data-dependent errors of any class: UnicodeDecodeError, IndexError, TypeError ...)', node=big[0], module=m)
            transparent = [h for h in big[0].handlers if h.body and isinstance(h.body[-1], ast.Raise)]
            rep.ob('R-C12-ISOLATE', site, 'no handler re-raises', not transparent, node=big[0], module=m)
        # every return is a LASWriteResult with the input path first
        rets = common.returns_of(f)
        p0 = f.args.args[0].arg
        bad = []
        for r in rets:
            v = r.value
            if isinstance(v, ast.Name):
                d = [x[0] for x in defuse.assignments(f).get(v.id, [])]
                v = d[0] if len(d) == 1 else v
            if not (isinstance(v, ast.Call) and _n(v.func).endswith('LASWriteResult') and v.args and _n(v.args[0]) == p0):
                bad.append(_n(r))
        rep.ob('R-C12-ISOLATE', site, f'all {len(rets)} return statements give a LASWriteResult for this input path', not bad and len(rets) >= 1, found=str(bad), node=f, module=m)
        g = cfgmod.CFG(f)
        falls = g.path_avoiding(g.ENTRY, g.EXIT, set(s for s in g.stmts() if isinstance(s, ast.Return)), skip_exc=True)
        rep.ob('R-C12-ISOLATE', site, 'no path falls off the end without a result', not falls, node=f, module=m)
        # calls outside the try that take the path
        outside = []
        for c in common.calls_in(f):
            if big and _inside(c, big[0]):
                continue
            if any(isinstance(a, ast.Name) and a.id == p0 for a in ast.walk(c)) and _n(c.func) not in ('WriteLAS.LASWriteResult', 'os.path.getsize', 'logger.info', 'logger.debug', 'open') \
                    and not _n(c.func).startswith('logging.') and not _n(c.func).startswith('logger.'):
                outside.append(_n(c.func))
        rep.ob('R-C12-ISOLATE', site, 'outside the try only the file-type gate reads the file', sorted(set(outside)) == ['bin_file_type.binary_file_type_from_path'], found=str(outside), node=f, module=m)
    gate = ea.escapes('TotalDepth.util.bin_file_type', 'binary_file_type_from_path')
    rep.ob('R-C12-ISOLATE', 'TotalDepth.util.bin_file_type:binary_file_type_from_path', 'the file-type gate itself raises nothing (C20)', not gate,
           found=str({k: v[0] for k, v in gate.items()}), module=ix.module('TotalDepth.util.bin_file_type'))
    total = ea.resolved + len(ea.unresolved)
    rate = ea.resolved / total if total else 0
    rep.info(f'R-C12-ISOLATE: {len(ea._esc)} functions reached, {ea.resolved} calls resolved, {len(ea.unresolved)} unresolved ({rate:.0%})')
    rep.ob('R-C12-ISOLATE', 'call graph', 'call resolution stays above the measured floor', len(ea._esc) >= 300 and rate >= 0.85,
           found=f'{len(ea._esc)} functions, {rate:.1%}', required='>= 300 functions, >= 85% resolved')
    rep.extra['escape_analysis'] = {'functions': len(ea._esc), 'calls_resolved': ea.resolved, 'calls_unresolved': len(ea.unresolved)}


def _inside(node, anc):
    p = node
    while p is not None:
        if p is anc:
            return True
        p = getattr(p, '_parent', None)
    return False


def check_tasks(rep, ix):
    m = ix.module(WL)
    mp = ix.get_func(WL, 'convert_dir_or_file_to_las_multiprocessing')
    sq = ix.get_func(WL, 'convert_dir_or_file_to_las')
    rep.fn(f'{WL}:convert_dir_or_file_to_las_multiprocessing')
    rep.fn(f'{WL}:convert_dir_or_file_to_las')
    pm = [a.arg for a in mp.args.args]
    ps = [a.arg for a in sq.args.args]
    # multiprocessing: tasks from dirWalk, one apply_async per task, results keyed by path_input
    walks = [c for c in ast.walk(mp) if isinstance(c, ast.Call) and _n(c.func) == 'DirWalk.dirWalk']
    ok = len(walks) == 1 and [_n(a) for a in walks[0].args] == [pm[0], pm[1]] and {k.arg: _n(k.value) for k in walks[0].keywords} == {'theFnMatch': "''", 'recursive': pm[2], 'bigFirst': 'True'}
    rep.ob('R-C12-TASKS', f'{WL}:convert_dir_or_file_to_las_multiprocessing', 'files come only from DirWalk.dirWalk(dir_in, dir_out, all names, recurse)', ok, found=';'.join(_n(w) for w in walks), node=mp, module=m)
    tasks = [n for n in walk_no_nested(mp) if isinstance(n, ast.Assign) and _n(n.targets[0]) == 'tasks' and isinstance(n.value, ast.ListComp)]
    tup_mp = [_n(e) for e in tasks[0].value.elt.elts] if tasks and isinstance(tasks[0].value.elt, ast.Tuple) else []
    want = ['t.filePathIn', pm[3], 't.filePathOut', pm[4], pm[5], pm[6], pm[7]]
    rep.ob('R-C12-TASKS', f'{WL}:convert_dir_or_file_to_las_multiprocessing', 'one task per file: (path in, reduction, path out, slice, channels, width, format)', tup_mp == want and not tasks[0].value.generators[0].ifs,
           found=str(tup_mp), required=str(want), node=mp, module=m)
    src = _n(mp)
    ok = f'pool.apply_async({pm[9]},t)fortintasks' in src and 'r.get()forrin' in src
    rep.ob('R-C12-TASKS', f'{WL}:convert_dir_or_file_to_las_multiprocessing', 'every task is submitted once and every result is collected', ok, node=mp, module=m)
    r = common.returns_of(mp)
    rep.ob('R-C12-TASKS', f'{WL}:convert_dir_or_file_to_las_multiprocessing', 'results are keyed by the input path', len(r) == 1 and _n(r[0].value) == '{r.path_input:rforrinresults}', found=_n(r[0].value) if r else '', node=mp, module=m)
    # sequential
    walks = [c for c in ast.walk(sq) if isinstance(c, ast.Call) and _n(c.func) == 'DirWalk.dirWalk']
    ok = len(walks) == 1 and [_n(a) for a in walks[0].args] == [ps[0], ps[1]] and {k.arg: _n(k.value) for k in walks[0].keywords} == {'theFnMatch': "''", 'recursive': ps[2], 'bigFirst': 'False'}
    rep.ob('R-C12-TASKS', f'{WL}:convert_dir_or_file_to_las', 'files come only from DirWalk.dirWalk(path_in, path_out, all names, recurse)', ok, found=';'.join(_n(w) for w in walks), node=sq, module=m)
    calls = [c for c in ast.walk(sq) if isinstance(c, ast.Call) and _n(c.func) == ps[8]]
    got = sorted([_n(a) for a in c.args] for c in calls)
    want_s = sorted([['file_in_out.filePathIn', ps[3], 'file_in_out.filePathOut', ps[4], ps[5], ps[6], ps[7]], [ps[0], ps[3], ps[1], ps[4], ps[5], ps[6], ps[7]]])
    rep.ob('R-C12-TASKS', f'{WL}:convert_dir_or_file_to_las', 'one conversion call per file with the same argument order as a pool task', got == want_s, found=str(got), required=str(want_s), node=sq, module=m)
    keys = sorted(_n(n.targets[0]) for n in ast.walk(sq) if isinstance(n, ast.Assign) and _n(n.targets[0]).startswith('ret['))
    rep.ob('R-C12-TASKS', f'{WL}:convert_dir_or_file_to_las', 'results are keyed by the input path', keys == sorted(['ret[file_in_out.filePathIn]', f'ret[{ps[0]}]']), found=str(keys), node=sq, module=m)
    # the task tuple and the sequential call agree position by position (roles)
    roles_mp = [x.replace('t.', 'F.') for x in tup_mp]
    roles_sq = [x.replace('file_in_out.', 'F.') for x in (want_s[0] if want_s[0][0].startswith('file_in_out') else want_s[1])]
    rep.ob('R-C12-TASKS', 'siblings', 'sequential call and pool task pass the same seven roles in the same order',
           [r.replace(pm[3], 'RED').replace(pm[4], 'SL').replace(pm[5], 'CH').replace(pm[6], 'W').replace(pm[7], 'FMT') for r in roles_mp] ==
           [r.replace(ps[3], 'RED').replace(ps[4], 'SL').replace(ps[5], 'CH').replace(ps[6], 'W').replace(ps[7], 'FMT') for r in roles_sq], found=f'{roles_mp} / {roles_sq}')
    # process_to_las passes the same options to both drivers
    pr = ix.get_func(WL, 'process_to_las')
    calls = [c for c in ast.walk(pr) if isinstance(c, ast.Call) and _n(c.func) in ('convert_dir_or_file_to_las', 'convert_dir_or_file_to_las_multiprocessing')]
    norm = []
    for c in calls:
        a = [_n(x) for x in c.args]
        if _n(c.func).endswith('multiprocessing'):
            a = a[:8] + a[9:]
        norm.append(a)
    rep.ob('R-C12-TASKS', f'{WL}:process_to_las', 'both drivers receive the same options from the command line', len(calls) == 3 and all(x == norm[0] for x in norm), found=str(norm[:2]), node=pr, module=m)
    # dirWalk
    dm = ix.module(DW)
    d = ix.get_func(DW, 'dirWalk')
    rep.fn(f'{DW}:dirWalk')
    top = [n for n in d.body if isinstance(n, ast.If) and _n(n.test) == d.args.args[4].arg]
    ok = len(top) == 1
    rep.ob('R-C12-TASKS', f'{DW}:dirWalk', 'two enumeration orders (big first / alphabetical)', ok, node=d, module=dm)
    if ok:
        IN, OUT, FN, REC, BIG = [a.arg for a in d.args.args]

        def facts(block, name_var_hint):
            ys = [n for n in ast.walk(ast.Module(body=block, type_ignores=[])) if isinstance(n, ast.Yield) and isinstance(n.value, ast.Call) and _n(n.value.func) == 'FileInOut']
            out = []
            for y in ys:
                st = common.stmt_containing(y)
                conds = []
                p = getattr(st, '_parent', None)
                child = st
                while p is not None and p is not d:
                    if isinstance(p, ast.If) and any(child is s for s in p.body):
                        conds.append(_n(p.test))
                    if isinstance(p, ast.For):
                        it = _n(p.iter)
                        var = p.target.id if isinstance(p.target, ast.Name) else '?'
                        conds.append(f'for:{it}')
                        out.append((var, conds, _n(y.value)))
                        break
                    child = p
                    p = getattr(p, '_parent', None)
            return out
        fb = facts(top[0].body, None)
        fa = facts(top[0].orelse, None)
        rep.ob('R-C12-TASKS', f'{DW}:dirWalk', 'each branch yields files in exactly one place', len(fb) == 1 and len(fa) == 1, found=f'{len(fb)}/{len(fa)}', node=d, module=dm)
        if len(fb) == 1 and len(fa) == 1:
            vb, cb, yb = fb[0]
            va, ca, ya = fa[0]
            nb = [c for c in cb if not c.startswith('for:')]
            na = [c for c in ca if not c.startswith('for:')]
            match = f'not{FN}orfnmatch.fnmatch(fp,{FN})'
            ok_b = nb == [match] and cb[-1] == f'for:gen_big_first({IN})'
            ok_a = na in ([f'os.path.isfile(fp)and({match})'], [f'os.path.isfile(fp)and(not{FN}orfnmatch.fnmatch(fp,{FN}))']) and ca[-1] == f'for:sorted(os.listdir({IN}))'
            rep.ob('R-C12-TASKS', f'{DW}:dirWalk', 'big-first branch: regular files (from gen_big_first) that match the pattern', ok_b, found=str(cb), node=d, module=dm)
            rep.ob('R-C12-TASKS', f'{DW}:dirWalk', 'alphabetical branch: regular files that match the pattern', ok_a, found=str(ca), node=d, module=dm)
            rep.ob('R-C12-TASKS', f'{DW}:dirWalk', 'both branches yield FileInOut(fp, out_file)', yb == ya == 'FileInOut(fp,out_file)', found=f'{yb} / {ya}', node=d, module=dm)
        # fp and out_file expressions in both branches
        for blk, var_it, nm in ((top[0].body, 'gen_big_first', 'big-first'), (top[0].orelse, 'sorted(os.listdir', 'alphabetical')):
            mod_ = ast.Module(body=blk, type_ignores=[])
            yl = [n for n in ast.walk(mod_) if isinstance(n, ast.For) and any(isinstance(y, ast.Yield) and isinstance(y.value, ast.Call) and _n(y.value.func) == 'FileInOut'
                                                                        and not any(isinstance(q, ast.For) and q is not n and _inside(y, q) and _inside(q, n) for q in ast.walk(n)) for y in ast.walk(n))]
            asg = {}
            scope = yl[0] if yl else mod_
            inner_dirs = [q for q in ast.walk(scope) if isinstance(q, ast.If) and 'os.path.isdir' in _n(q.test)]
            for n in ast.walk(scope):
                if any(_inside(n, q) and not any(n is t_ for t_ in [q.test]) and any(_inside(n, b_) for b_ in q.body) for q in inner_dirs):
                    continue
                if isinstance(n, ast.Assign) and isinstance(n.targets[0], ast.Name):
                    asg.setdefault(n.targets[0].id, []).append(_n(n.value))
            fps = set(asg.get('fp', []))
            outs = set(asg.get('out_file', []))
            v = [x for x in fps if x.startswith(f'os.path.join({IN},')]
            ok = len(fps) == 1 and len(v) == 1 and len(outs) == 2 and "''" in outs and any(o == v[0].replace(f'({IN},', f'({OUT},') for o in outs)
            rep.ob('R-C12-TASKS', f'{DW}:dirWalk', f'{nm} branch: input path = join(in, name), output path = join(out, same name)', ok, found=f'fp {sorted(fps)} out {sorted(outs)}', node=d, module=dm)
        recs = [c for c in ast.walk(d) if isinstance(c, ast.Call) and _n(c.func) == 'dirWalk']
        got = sorted([_n(a) for a in c.args] for c in recs)
        rep.ob('R-C12-TASKS', f'{DW}:dirWalk', 'recursion keeps pattern, recursion flag and order', got == sorted([['fp', 'out_path', FN, REC, BIG], ['fp', 'out_path', FN, REC]]) or got == [['fp', 'out_path', FN, REC, BIG]] * 2, found=str(got), node=d, module=dm)
    gb = ix.get_func(DW, 'gen_big_first')
    rep.fn(f'{DW}:gen_big_first')
    g = cfgmod.CFG(gb)
    adds = [c for c in common.calls_in(gb) if isinstance(c.func, ast.Attribute) and c.func.attr in ('append', 'add')]
    subs = [n for n in walk_no_nested(gb) if isinstance(n, ast.Assign) and isinstance(n.targets[0], ast.Subscript)]
    ok = len(adds) == 1 and not subs and isinstance(adds[0].args[0], ast.Tuple) and 'name' in [_n(e) for e in adds[0].args[0].elts]
    if subs:
        ok = len(subs) == 1 and not adds and _n(subs[0].targets[0].slice) in ('name', 'path')
    rep.ob('R-C12-TASKS', f'{DW}:gen_big_first', 'one entry per file: entries are appended per name (or keyed by the unique name), never keyed by size', ok,
           found=';'.join(_n(x) for x in adds + subs), required='size_paths.append((size, name))', node=gb, module=dm)
    deps = [(show(nf(b.test)), lab) for a in adds + subs for b, lab in g.control_deps(common.stmt_containing(a)) if isinstance(b, ast.If)]
    rep.ob('R-C12-TASKS', f'{DW}:gen_big_first', 'only regular files are listed', deps == [('(call os.path.isfile path)', 'true')], found=str(deps), node=gb, module=dm)
    ys = [n for n in walk_no_nested(gb) if isinstance(n, ast.Yield)]
    loops = [n for n in walk_no_nested(gb) if isinstance(n, ast.For) and any(_inside(y, n) for y in ys)]
    ok = len(ys) == 1 and len(loops) == 1 and _n(ys[0].value) == 'name' and _n(loops[0].iter) in ('sorted(size_paths)', 'sorted(size_paths,reverse=True)', 'reversed(sorted(size_paths))')
    rep.ob('R-C12-TASKS', f'{DW}:gen_big_first', 'every listed entry is yielded exactly once', ok, found=_n(loops[0].iter) if loops else '', node=gb, module=dm)


FORBIDDEN_IN_PATHS = ('time.', 'datetime.', 'os.getpid', 'random.', 'uuid.', 'tempfile.', 'id(', 'itertools.count', 'threading.', 'multiprocessing.')


def check_paths(rep, ix):
    for mod, fn, var in (('TotalDepth.RP66V1.ToLAS', 'las_file_name', None), ('TotalDepth.LIS.ToLAS', 'write_las_file', 'output_file'),
                         ('TotalDepth.BIT.ToLAS', 'single_bit_path_to_las_path', 'las_file_name')):
        m = ix.module(mod)
        f = ix.get_func(mod, fn)
        site = f'{mod}:{fn}'
        rep.fn(site)
        if var is None:
            exprs = [r.value for r in common.returns_of(f)]
        else:
            exprs = [x[0] for x in defuse.assignments(f).get(var, [])]
        ok = len(exprs) == 1
        names = set()
        srcs = ''
        if ok:
            e = defuse.inline_locals(f, exprs[0])
            srcs = ast.unparse(e)
            names = defuse.closure(f, exprs[0])
        bad = [x for x in FORBIDDEN_IN_PATHS if x in srcs or any(n.startswith(x.rstrip('.(')) for n in names if '.' in x and n.split('.')[0] == x.split('.')[0])]
        params = {a.arg for a in f.args.args}
        rep.ob('R-C12-PATH', site, 'the output file name is a function of the input-derived path and per-file indices only', ok and not bad,
               found=f'{srcs} depends on {sorted(n for n in names if "." not in n)}; forbidden: {bad}', required='no clock, pid, random, counter or shared state in an output name', node=f, module=m)
    # BIT: one output per frame array, named from the WHOLE input-derived path (two inputs that differ only in their extension must not
    # share an output)
    bf = ix.get_func('TotalDepth.BIT.ToLAS', 'single_bit_path_to_las_path')
    vals = [x[0] for x in defuse.assignments(bf).get('las_file_name', [])]
    okb = len(vals) == 1 and isinstance(vals[0], ast.JoinedStr) and vals[0].values and isinstance(vals[0].values[0], ast.FormattedValue) \
        and isinstance(vals[0].values[0].value, ast.Name) and vals[0].values[0].value.id in {a.arg for a in bf.args.args}
    rep.ob('R-C12-PATH', 'TotalDepth.BIT.ToLAS:single_bit_path_to_las_path', 'the output name starts with the whole output path of the input file', okb,
           found=str([ast.unparse(v) for v in vals]), required="f'{path_out}_{index:04d}.las'", node=bf, module=ix.module('TotalDepth.BIT.ToLAS'))
    # distinct inputs must give distinct outputs: only the LAST extension of the input-derived name is replaced (cutting at
    # the first dot maps SURVEY.run1.dlis and SURVEY.run2.dlis to one output that two workers overwrite)
    m = ix.module('TotalDepth.RP66V1.ToLAS')
    lf = ix.get_func('TotalDepth.RP66V1.ToLAS', 'las_file_name')
    po = lf.args.args[0].arg
    r = common.returns_of(lf)
    e = defuse.inline_locals(lf, r[0].value, depth=4) if len(r) == 1 else None
    src = _n(e) if e is not None else ''
    stem_ok = f'os.path.splitext(os.path.basename({po}))[0]' in src and f'os.path.dirname({po})' in src and '.split(' not in src and 'partition(' not in src
    rep.ob('R-C12-PATH', 'TotalDepth.RP66V1.ToLAS:las_file_name', 'the output name keeps the directory and everything before the last extension of the input-derived path', stem_ok,
           found=src[:160], required='os.path.dirname(path) / os.path.splitext(os.path.basename(path))[0] + suffix', node=lf, module=m)
    w = ix.get_func('TotalDepth.RP66V1.ToLAS', 'write_logical_index_to_las')
    calls = sorted(_n(c) for c in common.calls_in(w) if _n(c.func) == 'las_file_name')
    rep.ob('R-C12-PATH', 'TotalDepth.RP66V1.ToLAS:write_logical_index_to_las', 'names are built from (path_out, logical file index, frame array ident)',
           calls == sorted([f"las_file_name({w.args.args[2].arg},lf,frame_array.ident.I)", f"las_file_name({w.args.args[2].arg},lf,b'')"]), found=str(calls), node=w, module=m)


def check_shared(rep, ix):
    mods = ['TotalDepth.RP66V1.ToLAS', 'TotalDepth.LIS.ToLAS', 'TotalDepth.BIT.ToLAS', WL, DW, 'TotalDepth.util.bin_file_type']
    for mod in mods:
        m = ix.module(mod)
        globs = [n for n in ast.walk(m.tree) if isinstance(n, (ast.Global, ast.Nonlocal))]
        rep.ob('R-C12-SHARED', f'{mod}:<module>', 'no function rebinds module-level state (global / nonlocal)', not globs, found=str([(g.names, g.lineno) for g in globs]), module=m)
        # mutation of module-level containers from functions
        top = {n for n, v in m.assigns.items()}
        muts = []
        for f in ast.walk(m.tree):
            if isinstance(f, ast.FunctionDef):
                local = {a.arg for a in f.args.args} | {t.id for n in ast.walk(f) if isinstance(n, (ast.Assign, ast.AnnAssign, ast.For)) for t in ast.walk(n.targets[0] if isinstance(n, ast.Assign) else n.target) if isinstance(t, ast.Name)}
                for n in ast.walk(f):
                    if isinstance(n, ast.Call) and isinstance(n.func, ast.Attribute) and isinstance(n.func.value, ast.Name) and n.func.value.id in top and \
                            n.func.value.id not in local and n.func.attr in ('append', 'add', 'update', 'extend', 'pop', 'clear', 'setdefault', 'remove', 'insert'):
                        muts.append((n.func.value.id, n.func.attr, n.lineno))
                    if isinstance(n, (ast.Assign, ast.AugAssign)):
                        for t in (n.targets if isinstance(n, ast.Assign) else [n.target]):
                            if isinstance(t, ast.Subscript) and isinstance(t.value, ast.Name) and t.value.id in top and t.value.id not in local:
                                muts.append((t.value.id, 'item assignment', n.lineno))
        rep.ob('R-C12-SHARED', f'{mod}:<module>', 'no function mutates a module-level container', not muts, found=str(muts), module=m)
        # the requested channel set is one object handed to every file of a sequential batch (the pool pickles a copy per task):
        # a function that changes it in place makes the result for a file depend on the files converted before it.  (Until
        # 2f2fa17 _add_x_axis_to_channels_to_write added the index channel's name in place and this rule exempted it as an idiom;
        # the exemption hid a genuine defect - see known_findings.json, fixed - and is gone.)
        for f in ast.walk(m.tree):
            if not isinstance(f, ast.FunctionDef):
                continue
            for pn in [a.arg for a in f.args.args if a.arg in ('channel_name_sub_set', 'channels', 'channel_set')]:
                ch = [x for x in common.mutations_of(f, pn) if not (isinstance(x, ast.Assign) and not any(isinstance(t, ast.Subscript) for t in x.targets))]
                rep.ob('R-C12-SHARED', f'{mod}:{f.name}', f'the shared channel set `{pn}` is not changed in place', not ch,
                       found='; '.join(_n(common.stmt_containing(x) if not isinstance(x, ast.stmt) else x)[:80] for x in ch), required='build a new set instead', node=ch[0] if ch else f, module=m,
                       nontrivial=bool(ch))
        for c in ast.walk(m.tree):
            if isinstance(c, ast.Call) and _n(c.func) in ('os.makedirs', 'os.mkdir'):
                kw = {k.arg: _n(k.value) for k in c.keywords}
                ok = _n(c.func) == 'os.makedirs' and kw.get('exist_ok') == 'True'
                st = common.stmt_containing(c)
                guards = []
                p = getattr(st, '_parent', None)
                while p is not None:
                    if isinstance(p, ast.If) and 'os.path.exists' in _n(p.test):
                        guards.append(_n(p.test))
                    p = getattr(p, '_parent', None)
                rep.ob('R-C12-SHARED', f'{mod}:{_func_name(c)}', f'`{_n(c)}` tolerates a concurrent creator (exist_ok=True, no exists() test)', ok and not guards,
                       found=f'{kw} guards {guards}', required='two workers may create the same output directory', node=c, module=m)


def check_blocking(rep, ix):
    """State that lives for the whole process accumulates over the files one worker converts.  A queue that producers fill
    with a blocking put() and that only an optional monitor thread drains must be unbounded, otherwise the n-th message
    stalls the batch (and with it every file not yet converted)."""
    roots = ['TotalDepth.RP66V1.ToLAS', 'TotalDepth.LIS.ToLAS', 'TotalDepth.BIT.ToLAS', WL]
    mods = imports.closure(ix, roots)
    n_q = 0
    n_put = 0
    for mn in sorted(mods):
        if not mn.startswith('TotalDepth'):
            continue
        m = ix.module(mn)
        queues = {}
        for name, exprs in m.assigns.items():
            for e in exprs:
                if isinstance(e, ast.Call) and _n(e.func).split('.')[-1] in ('Queue', 'LifoQueue', 'PriorityQueue', 'JoinableQueue', 'SimpleQueue'):
                    queues[name] = e
        for name, e in queues.items():
            n_q += 1
            size = e.args[0] if e.args else None
            for k in e.keywords:
                if k.arg == 'maxsize':
                    size = k.value
            try:
                v = ix.fold(mn, size) if size is not None else 0
            except Exception:
                v = None
            puts = [c for c in ast.walk(m.tree) if isinstance(c, ast.Call) and isinstance(c.func, ast.Attribute) and c.func.attr == 'put' and _n(c.func.value) == name
                    and not any(k.arg in ('block', 'timeout') for k in c.keywords) and len(c.args) == 1]
            n_put += len(puts)
            ok = (isinstance(v, int) and v <= 0) or not puts
            rep.ob('R-C12-SHARED', f'{mn}:{name}', f'process-wide queue `{name}` filled by blocking put() is unbounded', ok,
                   found=_n(e), required='queue.Queue() without a positive maxsize, or non-blocking puts', node=e, module=m)
    rep.ob('R-C12-SHARED', 'scan', 'process-wide queues reachable from the converters found', n_q >= 1 and n_put >= 1, found=f'{n_q} queues, {n_put} blocking puts')


def _func_name(node):
    p = node
    while p is not None and not isinstance(p, ast.FunctionDef):
        p = getattr(p, '_parent', None)
    return p.name if p else '<module>'


def run(rep, ix, tier):
    imports.check_import_closure(rep, ix, 'R-IMP', [WL, DW])
    check_isolate(rep, ix)
    check_tasks(rep, ix)
    check_paths(rep, ix)
    check_shared(rep, ix)
    check_blocking(rep, ix)
    rep.floor('R-C12-ISOLATE', 18)
    rep.floor('R-C12-TASKS', 20)
    rep.floor('R-C12-PATH', 5)
    rep.floor('R-C12-SHARED', 16)
