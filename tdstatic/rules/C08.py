"""C08 LIS tables and format specifications survive encode then decode (structural clauses)."""
import ast

from .. import cfg as cfgmod, defuse, symx
from ..loader import AnalysisError, FuncRef, StructVal, Unfoldable, walk_no_nested
from ..norm import nf, show, attr_chain
from . import common

EXPLANATION = (
    'Decides on LIS/core/LogiRec.py and RepCode.py: (1) writable codes: the representation codes that CbEngValWrite '
    'can choose (constant propagation over its type/range ladder) all have a writer in WRITE_BYTES_DESPATCH_MAP (or are '
    'text, code 65) and a reader; (2) the component-block preamble is packed and unpacked with the same struct and the '
    'same field order, the value is written with the block\'s own rep code and read back with it, text length = size; '
    '(3) the integer ladder is ordered 8 -> 16 -> 32 bit with the module\'s MIN/MAX constants matching the struct '
    'formats and ends in a raise; (4) rows: block types 73/0/69, type 0 starts a row, 69 extends the last row, the '
    'duplicate discard pops the last row when its key is already indexed (first kept) and is called before every new '
    'row and once after the loop (reader) / after every row (writer); per-cell variables of the table writer carry no '
    'value from the previous cell; (5) entry blocks: defaults table in index order with size 0 iff value None and '
    'size = size of its rep code, terminator reset to size 0 before the parity test and set to size 1 when the sum is '
    'odd, every mutator re-establishes even length, the terminator is written last; DSB struct is 40 bytes and its '
    'nine fields are unpacked in order.')
NOT_DECIDED = 'equality of decoded and composed tables and specifications over all inputs.'
ASSUMPTIONS = ['struct module semantics', 'EngVal.EngValRc keeps value and rep code as given']
TECHNIQUE = 'static analysis: constant propagation over a decision ladder, writer/reader struct agreement, CFG dominance and loop-carried-dependence rules, table checks'

L = 'TotalDepth.LIS.core.LogiRec'
RC = 'TotalDepth.LIS.core.RepCode'
PRC = 'TotalDepth.LIS.core.pRepCode'


def _n(e):
    return ast.unparse(e).replace(' ', '')


def _inside(st, anc):
    p = st
    while p is not None:
        if p is anc:
            return True
        p = getattr(p, '_parent', None)
    return False


def check_writable(rep, ix):
    m = ix.module(L)
    f = ix.get_func(L, 'CbEngValWrite.__init__')
    site = f'{L}:CbEngValWrite.__init__'
    rep.fn(site)
    chosen = {}
    for n in walk_no_nested(f):
        if isinstance(n, ast.Assign) and _n(n.targets[0]) == 'self.rc':
            try:
                chosen[ix.fold(L, n.value)] = n
            except Unfoldable:
                rep.ob('R-C08-WRITABLE', site, f'rep code choice `{_n(n)}` is a constant', False, node=n, module=m)
    wmap = ix.fold_name(RC, 'WRITE_BYTES_DESPATCH_MAP')
    rmap = ix.fold_name(RC, 'READ_FILE_DESPATCH_MAP')
    text = ix.fold_name(RC, 'RC_TYPE_TEXT')
    rep.ob('R-C08-WRITABLE', site, f'the writer chooses among rep codes {sorted(chosen)}', sorted(chosen) == [65, 66, 68, 73, 79],
           found=str(sorted(chosen)), required='[65, 66, 68, 73, 79]', node=f, module=m)
    for code, node in sorted(chosen.items()):
        ok = code in wmap or code == text
        rep.ob('R-C08-WRITABLE', site, f'chosen rep code {code} can be written (WRITE_BYTES_DESPATCH_MAP)', ok,
               found=f'writers for {sorted(wmap)}', required=f'{code} in WRITE_BYTES_DESPATCH_MAP or text', node=node, module=m)
        ok = code in rmap or code == text
        rep.ob('R-C08-WRITABLE', site, f'chosen rep code {code} can be read back', ok, found=f'readers for {sorted(rmap)}', node=node, module=m)
    # size accompanies the code
    sizes = {}
    g = cfgmod.CFG(f)
    for code, node in chosen.items():
        sib = [s for s in getattr(node, '_parent').body if isinstance(s, ast.Assign) and _n(s.targets[0]) == 'self.size'] if hasattr(getattr(node, '_parent', None), 'body') else []
        blk = _block_of(node)
        sib = [s for s in blk if isinstance(s, ast.Assign) and _n(s.targets[0]) == 'self.size']
        want = 'len(v)' if code == 65 else f'RepCode.RC_{code}_SIZE'
        ok = len(sib) == 1 and _n(sib[0].value) == want
        rep.ob('R-C08-WRITABLE', site, f'size of a code {code} block is {want}', ok, found=';'.join(_n(s) for s in sib), node=node, module=m)
    # the writers pack with the struct of their own code / the value itself
    rm = ix.module(RC)
    for code in sorted(wmap):
        fn = ix.find_func(RC, f'writeBytes{code}')
        if fn is None:
            rep.ob('R-C08-WRITABLE', f'{RC}:writeBytes{code}', 'writer function exists', False, module=rm)
            continue
        src = _n(fn)
        ok = (f'STRUCT_RC_{code}.pack(' in src) or (code == 66 and 'bytes([v,])' in src or 'bytes([v])' in src)
        rep.ob('R-C08-WRITABLE', f'{RC}:writeBytes{code}', f'packs with STRUCT_RC_{code}', ok, node=fn, module=rm)
    wb = ix.get_func(RC, 'writeBytes')
    v, r = wb.args.args[0].arg, wb.args.args[1].arg
    ps = symx.paths(wb)
    got = sorted((tuple((show(c), p) for c, p in x.conds), show(x.value)) for x in ps if x.kind == 'return')
    want = sorted([(((show(nf(ast.parse(f'{r} == RC_TYPE_TEXT', mode='eval').body)), True),), v),
                   (((show(nf(ast.parse(f'{r} == RC_TYPE_TEXT', mode='eval').body)), False),), show(nf(ast.parse(f'WRITE_BYTES_DESPATCH_MAP[{r}]({v})', mode='eval').body)))])
    rep.ob('R-C08-WRITABLE', f'{RC}:writeBytes', 'text is written as is, everything else through the writer of its code', got == want, found=str(got), node=wb, module=rm)


def _block_of(node):
    p = getattr(node, '_parent', None)
    for fld in ('body', 'orelse', 'finalbody'):
        blk = getattr(p, fld, None)
        if isinstance(blk, list) and any(x is node for x in blk):
            return blk
    return []


def check_preamble(rep, ix):
    m = ix.module(L)
    sv = ix.fold_name(L, 'STRUCT_COMPONENT_BLOCK_PREAMBLE')
    rep.ob('R-C08-PREAMBLE', f'{L}:STRUCT_COMPONENT_BLOCK_PREAMBLE', f'preamble struct {sv}', isinstance(sv, StructVal) and sv.format == '4B4s4s' and sv.size == 12,
           found=str(sv), required="'4B4s4s' (type, rep code, size, category, mnemonic, units), 12 bytes", module=m)
    fields = ['self.type', 'self.rc', 'self.size', 'self.category', 'self.mnem', 'self.units']
    w = ix.get_func(L, 'CbEngVal.lisBytes')
    rep.fn(f'{L}:CbEngVal.lisBytes')
    pk = [c for c in common.calls_in(w) if _n(c.func) == 'STRUCT_COMPONENT_BLOCK_PREAMBLE.pack']
    ok = len(pk) == 1 and [_n(a) for a in pk[0].args] == fields
    rep.ob('R-C08-PREAMBLE', f'{L}:CbEngVal.lisBytes', 'packs (type, rc, size, category, mnem, units) in this order', ok, found=';'.join(_n(p) for p in pk), node=w, module=m)
    r = ix.get_func(L, 'CbEngValRead.__init__')
    rep.fn(f'{L}:CbEngValRead.__init__')
    up = [n for n in walk_no_nested(r) if isinstance(n, ast.Assign) and isinstance(n.targets[0], ast.Tuple) and 'unpack(STRUCT_COMPONENT_BLOCK_PREAMBLE)' in _n(n.value)]
    ok = len(up) == 1 and [_n(e) for e in up[0].targets[0].elts] == fields
    rep.ob('R-C08-PREAMBLE', f'{L}:CbEngValRead.__init__', 'unpacks the same six fields in the same order', ok, found=';'.join(_n(u.targets[0]) for u in up), node=r, module=m)
    rets = [x for x in common.returns_of(w)]
    vals = sorted(_n(x.value) for x in rets)
    ok = vals == sorted(['r', 'r+RepCode.writeBytes(self.engVal.value,self.engVal.rc)'])
    rep.ob('R-C08-PREAMBLE', f'{L}:CbEngVal.lisBytes', 'the value follows the preamble, written with the block\'s own rep code', ok, found=str(vals), node=w, module=m)
    fl = r.args.args[1].arg
    ps = [c for c in common.calls_in(r) if _n(c.func) == 'RepCode.readRepCode']
    got = sorted(_n(c) for c in ps)
    ok = got == sorted([f'RepCode.readRepCode(self.rc,{fl},self.size)', f'RepCode.readRepCode(self.rc,{fl})'])
    rep.ob('R-C08-PREAMBLE', f'{L}:CbEngValRead.__init__', 'the value is read with the block\'s own rep code; text length = size', ok, found=str(got), node=r, module=m)
    g = cfgmod.CFG(r)
    texts = [c for c in ps if len(c.args) == 3]
    if texts:
        deps = [(show(nf(b.test)), lab) for b, lab in g.control_deps(common.stmt_containing(texts[0])) if isinstance(b, ast.If)]
        rep.ob('R-C08-PREAMBLE', f'{L}:CbEngValRead.__init__', 'the sized read is used exactly for text', deps[-1:] == [(common.nfs('self.rc == RepCode.RC_TYPE_TEXT'), 'true')], found=str(deps), node=r, module=m)
    sv_ = ix.get_func(L, 'CbEngVal.setValue')
    src = [_n(n) for n in walk_no_nested(sv_) if isinstance(n, ast.Assign)]
    ok = 'self.engVal=EngVal.EngValRc(v,self.units,self.rc)'.replace('v', sv_.args.args[1].arg) in src and 'self.engVal=None' in src
    rep.ob('R-C08-PREAMBLE', f'{L}:CbEngVal.setValue', 'value, units and rep code travel together', ok, found=str(src), node=sv_, module=m)
    rr = ix.get_func(RC, 'readRepCode')
    rep.fn(f'{RC}:readRepCode')
    srcs = [_n(x.value) for x in common.returns_of(rr) if x.value is not None]
    a = [x.arg for x in rr.args.args]
    ok = f'{a[1]}.readLrBytes({a[2]})' in srcs and f'READ_FILE_DESPATCH_MAP[{a[0]}]({a[1]})' in srcs
    rep.ob('R-C08-PREAMBLE', f'{RC}:readRepCode', 'text reads exactly the given length, other codes use the reader of that code', ok, found=str(srcs), node=rr, module=ix.module(RC))
    # entry block preamble
    ev = ix.fold_name(L, 'STRUCT_ENTRY_BLOCK_PREAMBLE')
    rep.ob('R-C08-PREAMBLE', f'{L}:STRUCT_ENTRY_BLOCK_PREAMBLE', f'entry block preamble {ev}', isinstance(ev, StructVal) and ev.format == 'BBB', found=str(ev), module=m)
    lb = ix.get_func(L, 'EntryBlock.lisBytes')
    pk = [c for c in common.calls_in(lb) if _n(c.func) == 'STRUCT_ENTRY_BLOCK_PREAMBLE.pack']
    ok = len(pk) == 1 and [_n(a) for a in pk[0].args] == ['self.type', 'self.size', 'self.repCode'] and any(_n(c) == 'RepCode.writeBytes(self.value,self.repCode)' for c in common.calls_in(lb))
    rep.ob('R-C08-PREAMBLE', f'{L}:EntryBlock.lisBytes', 'packs (type, size, repCode) then the value with the block\'s rep code', ok, node=lb, module=m)
    er = ix.get_func(L, 'EntryBlockRead.__new__')
    up = [n for n in walk_no_nested(er) if isinstance(n, ast.Assign) and 'unpack(STRUCT_ENTRY_BLOCK_PREAMBLE)' in _n(n.value)]
    ok = len(up) == 1 and _n(up[0].targets[0]) in ('(t,s,r)', 't,s,r')
    calls = [_n(c) for c in common.calls_in(er)]
    fl = er.args.args[1].arg
    ok = ok and any(c.endswith(f'.__new__(self,t,s,r,RepCode.readRepCode(r,{fl},s))') for c in calls) and any(c.endswith('.__new__(self,t,s,r,None)') for c in calls)
    rep.ob('R-C08-PREAMBLE', f'{L}:EntryBlockRead.__new__', 'unpacks (type, size, repCode); value read with that code and size; size 0 means no value', ok, found=str(calls), node=er, module=m)
    nt = ix.get_class(L, 'EntryBlock')
    rep.ob('R-C08-PREAMBLE', f'{L}:EntryBlock', 'fields (type, size, repCode, value)', "'typesizerepCodevalue'" in _n(nt.bases[0]).replace(' ', '') or "typesizerepCodevalue" in _n(nt.bases[0]).replace("'", '').replace(',', ''), found=_n(nt.bases[0]), module=m)


def check_ladder(rep, ix):
    m = ix.module(L)
    pm = ix.module(PRC)
    f = ix.get_func(L, 'CbEngValWrite.__init__')
    site = f'{L}:CbEngValWrite.__init__'
    # the int branch: chain of range tests
    top = None
    for n in walk_no_nested(f):
        if isinstance(n, ast.If) and _n(n.test) == 'type(v)==int':
            top = n
    ok = top is not None
    rep.ob('R-C08-LADDER', site, 'integer branch found', ok, node=f, module=m)
    if not ok:
        return
    chain = []
    node = top.body[0] if top.body and isinstance(top.body[0], ast.If) else None
    tail = None
    while node is not None:
        t = show(nf(node.test))
        rc = [_n(s.value) for s in node.body if isinstance(s, ast.Assign) and _n(s.targets[0]) == 'self.rc']
        chain.append((t, rc[0] if rc else None))
        if len(node.orelse) == 1 and isinstance(node.orelse[0], ast.If):
            node = node.orelse[0]
        else:
            tail = node.orelse
            node = None
    want = [(common.nfs(f'v >= RepCode.RC_{c}_MIN and v <= RepCode.RC_{c}_MAX'), str(c)) for c in (66, 79, 73)]
    rep.ob('R-C08-LADDER', site, 'integers try 8 bit, then 16 bit, then 32 bit, each within its own MIN..MAX', chain == want, found=str(chain), required=str(want), node=top, module=m)
    rep.ob('R-C08-LADDER', site, 'an integer outside the 32-bit range is refused', bool(tail) and isinstance(tail[0], ast.Raise), node=top, module=m)
    ranges = {66: (0, 255), 79: (-32768, 32767), 73: (-2 ** 31, 2 ** 31 - 1)}
    for code, (lo, hi) in ranges.items():
        gl, gh = ix.fold_name(RC, f'RC_{code}_MIN'), ix.fold_name(RC, f'RC_{code}_MAX')
        sv = ix.fold_name(RC, f'STRUCT_RC_{code}')
        import struct as _s
        fmt = sv.format
        code_c = fmt[-1]
        sz = _s.calcsize(fmt)
        slo, shi = (-(1 << (8 * sz - 1)), (1 << (8 * sz - 1)) - 1) if code_c.islower() else (0, (1 << (8 * sz)) - 1)
        rep.ob('R-C08-LADDER', f'{PRC}:RC_{code}_MIN', f'range of code {code} is [{gl}, {gh}] = range of its struct {fmt}', (gl, gh) == (lo, hi) == (slo, shi),
               found=f'[{gl},{gh}] struct [{slo},{shi}]', required=f'[{lo},{hi}]', module=pm)
    kinds = [(_n(n.test)) for n in walk_no_nested(f) if isinstance(n, ast.If) and _n(n.test).startswith('type(v)==')]
    rep.ob('R-C08-LADDER', site, 'bytes, float and int cells are accepted, anything else refused', kinds == ['type(v)==bytes', 'type(v)==float', 'type(v)==int'], found=str(kinds), node=f, module=m)
    t = ix.fold_class_attr(L, 'CbEngVal', 'CB_TYPES')
    rep.ob('R-C08-LADDER', f'{L}:CbEngVal.CB_TYPES', 'component block types 73, 0, 69', tuple(t) == (73, 0, 69), found=str(t), module=m)
    for k, v in (('COMPONENT_BLOCK_TABLE', 73), ('COMPONENT_BLOCK_DATUM_BLOCK_START', 0), ('COMPONENT_BLOCK_DATUM_BLOCK_ENTRY', 69)):
        rep.ob('R-C08-LADDER', f'{L}:{k}', f'{k} = {v}', ix.fold_name(L, k) == v, module=m)


def check_rows(rep, ix):
    m = ix.module(L)
    f = ix.get_func(L, 'LrTable._indexLastRowOrDiscard')
    site = f'{L}:LrTable._indexLastRowOrDiscard'
    rep.fn(site)
    g = cfgmod.CFG(f)
    pops = [s for s in g.stmts() if any(_n(c) == 'self._rows.pop()' for c in cfgmod.calls_at(s))]
    ok = len(pops) == 1
    if ok:
        deps = [(show(nf(b.test)), lab) for b, lab in g.control_deps(pops[0]) if isinstance(b, ast.If)]
        ok = deps == [(common.nfs('len(self._rows) > 0'), 'true'), (common.nfs('self._rows[-1].value in self._tableRowIndex'), 'true')]
    rep.ob('R-C08-ROWS', site, 'a row whose name is already indexed is dropped: the last one goes, the first is kept', ok, node=f, module=m)
    idx = [s for s in g.stmts() if isinstance(s, ast.Assign) and _n(s.targets[0]) == 'self._tableRowIndex[row_key]']
    ok = len(idx) == 1 and _n(idx[0].value) == 'len(self._rows)-1' and any(isinstance(s, ast.Assign) and _n(s) == 'row_key=self._rows[-1].value' for s in g.stmts())
    rep.ob('R-C08-ROWS', site, 'otherwise the row is indexed under its own name at its own position', ok, node=f, module=m)
    sn = ix.get_func(L, 'LrTable.startNewRow')
    cb = sn.args.args[1].arg
    ok = any(_n(c) == f'self._rows.append(TableRow({cb}))' for c in common.calls_in(sn)) and \
        [(show(nf(t)), neg) for t, neg, n in common.reject_guards(sn)] == [(common.nfs(f'{cb}.type != COMPONENT_BLOCK_DATUM_BLOCK_START'), False)]
    rep.ob('R-C08-ROWS', f'{L}:LrTable.startNewRow', 'a type 0 block starts a new row at the end', ok, node=sn, module=m)
    ad = ix.get_func(L, 'LrTable.addDatumBlock')
    cb = ad.args.args[1].arg
    ok = any(_n(c) == f'self._rows[-1].addCb({cb})' for c in common.calls_in(ad)) and \
        (common.nfs(f'{cb}.type != COMPONENT_BLOCK_DATUM_BLOCK_ENTRY'), False) in [(show(nf(t)), neg) for t, neg, n in common.reject_guards(ad)]
    rep.ob('R-C08-ROWS', f'{L}:LrTable.addDatumBlock', 'a type 69 block extends the last row', ok, node=ad, module=m)
    # reader: discard before each new row and once after the loop
    r = ix.get_func(L, 'LrTableRead.__init__')
    rsite = f'{L}:LrTableRead.__init__'
    rep.fn(rsite)
    g = cfgmod.CFG(r)
    loops = [s for s in g.stmts() if isinstance(s, ast.While)]
    disc = [s for s in g.stmts() if any(_n(c) == 'self._indexLastRowOrDiscard()' for c in cfgmod.calls_at(s))]
    starts = [s for s in g.stmts() if any(_n(c.func) == 'self.startNewRow' for c in cfgmod.calls_at(s))]
    in_loop_starts = [s for s in starts if loops and _inside(s, loops[0])]
    ok = len(loops) == 1 and len(disc) == 2 and len(in_loop_starts) == 1
    if ok:
        dom = g.dominators()
        inner = [d for d in disc if _inside(d, loops[0])]
        outer = [d for d in disc if not _inside(d, loops[0])]
        ok = len(inner) == 1 and len(outer) == 1 and inner[0] in dom.get(in_loop_starts[0], ()) and \
            not g.path_avoiding(in_loop_starts[0], in_loop_starts[0], set(inner), skip_exc=True) and outer[0] in g.postdominators().get(loops[0], ())
    rep.ob('R-C08-ROWS', rsite, 'duplicate check runs before every new row and once after the last row', ok, found=f'{len(disc)} calls', node=r, module=m)
    kinds = []
    for n in walk_no_nested(loops[0]) if loops else []:
        if isinstance(n, ast.If) and 'myCbEv.type==' in _n(n.test):
            kinds.append((_n(n.test), [_n(c.func) for s in n.body for c in common.calls_in(s)]))
    want = [('myCbEv.type==COMPONENT_BLOCK_DATUM_BLOCK_START', ['self._indexLastRowOrDiscard', 'self.startNewRow']),
            ('myCbEv.type==COMPONENT_BLOCK_DATUM_BLOCK_ENTRY', ['self.addDatumBlock', 'ExceptionLrTableInit', 'str'])]
    got = [(t, sorted(c)) for t, c in kinds]
    rep.ob('R-C08-ROWS', rsite, 'block type 0 starts a row, 69 extends it, anything else is refused', got == [(t, sorted(c)) for t, c in want], found=str(got), node=r, module=m)
    # writer
    w = ix.get_func(L, 'LrTableWrite.__init__')
    wsite = f'{L}:LrTableWrite.__init__'
    rep.fn(wsite)
    g = cfgmod.CFG(w)
    fors = [s for s in g.stmts() if isinstance(s, ast.For)]
    ok = len(fors) == 2 and _inside(fors[1], fors[0]) or (len(fors) == 2 and _inside(fors[0], fors[1]))
    rep.ob('R-C08-ROWS', wsite, 'rows outer, cells inner', ok, node=w, module=m)
    if ok:
        outer, inner = (fors[0], fors[1]) if _inside(fors[1], fors[0]) else (fors[1], fors[0])
        disc = [s for s in g.stmts() if any(_n(c) == 'self._indexLastRowOrDiscard()' for c in cfgmod.calls_at(s))]
        ok = len(disc) == 1 and _inside(disc[0], outer) and not _inside(disc[0], inner) and not g.path_avoiding(inner, outer, set(disc), skip_exc=True)
        rep.ob('R-C08-ROWS', wsite, 'duplicate check runs after every composed row', ok, node=w, module=m)
        c = inner.target.elts[0].id if isinstance(inner.target, ast.Tuple) else 'c'
        news = [x for x in common.calls_in(inner) if _n(x.func) == 'CbEngValWrite']
        ok = len(news) == 1
        rep.ob('R-C08-ROWS', wsite, 'one component block per cell', ok, node=inner, module=m)
        if ok:
            call = news[0]
            use_st = common.stmt_containing(call)
            names = [a.id for a in call.args if isinstance(a, ast.Name)] + [k.value.id for k in call.keywords if isinstance(k.value, ast.Name)]
            defs = defuse.assignments(w)
            for nm in names:
                dsts = [st for v, st, ex in defs.get(nm, []) if _inside(st, inner) and st is not inner]
                if any(st is inner for v, st, ex in defs.get(nm, [])):
                    continue        # target of the cell loop itself: fresh in every iteration
                if any(st is outer for v, st, ex in defs.get(nm, [])) and not dsts:
                    continue
                carried = g.path_avoiding(inner, use_st, set(dsts) | {outer}, skip_exc=True) if dsts else True
                outside = [st for v, st, ex in defs.get(nm, []) if not _inside(st, inner)]
                ok2 = bool(dsts) and not carried
                rep.ob('R-C08-ROWS', wsite, f'per-cell variable `{nm}` is assigned on every path of the cell\'s own iteration (no value carried over from the previous cell)',
                       ok2, found='a path reaches the use without a definition in this iteration' if not ok2 else 'defined per cell',
                       required='cell type, value and units are functions of this cell only', node=use_st, module=m)
            kw = {k.arg: _n(k.value) for k in call.keywords}
            ok = [_n(a) for a in call.args][2:] == [f'{w.args.args[3].arg}[{c}]'] and 'units' in kw
            rep.ob('R-C08-ROWS', wsite, 'cell c gets column mnemonic c and its units', ok, found=_n(call), node=call, module=m)
            tys = [(show(nf(n.test)), [_n(s) for s in n.body], [_n(s) for s in n.orelse]) for n in walk_no_nested(inner) if isinstance(n, ast.If) and _n(n.test) == f'{c}==0']
            want = (common.nfs(f'{c} == 0'), ['myType=0'], ['myType=69'])
            ok = want in tys and (common.nfs(f'{c} == 0'), ['self.startNewRow(myCbEv)'], ['self.addDatumBlock(myCbEv)']) in tys
            rep.ob('R-C08-ROWS', wsite, 'first cell is a type 0 block that starts the row, later cells are type 69', ok, found=str(tys), node=inner, module=m)
    gl = ix.get_func(L, 'LrTable.genLisBytes')
    src = _n(gl)
    ok = 'yieldself.tableCbEv.lisBytes()' in src and 'forrinrange(len(self._rows)):' in src and 'yieldcell.lisBytes()' in src
    rep.ob('R-C08-ROWS', f'{L}:LrTable.genLisBytes', 'table block first, then every row in order, every cell in column order', ok, node=gl, module=m)


def check_eb(rep, ix):
    m = ix.module(L)
    init = ix.get_func(L, 'EntryBlockSet.__init__')
    site = f'{L}:EntryBlockSet.__init__'
    rep.fn(site)
    lst = [n for n in walk_no_nested(init) if isinstance(n, ast.Assign) and _n(n.targets[0]) == 'self._ebS' and isinstance(n.value, ast.List)]
    ok = len(lst) == 1
    rep.ob('R-C08-EB', site, 'defaults table found', ok, node=init, module=m)
    sizes = ix.fold_name(RC, 'RC_SIZE_MAP')
    wmap = ix.fold_name(RC, 'WRITE_BYTES_DESPATCH_MAP')
    total = 0
    if ok:
        ents = lst[0].value.elts
        rep.ob('R-C08-EB', site, f'{len(ents)} default entry blocks', len(ents) == 17 == ix.fold_name(L, 'EB_SET_SIZE'), found=str(len(ents)), node=lst[0], module=m)
        for i, e in enumerate(ents):
            try:
                t, s, r, v = [ix.fold(L, a) for a in e.args]
            except (Unfoldable, ValueError):
                rep.ob('R-C08-EB', site, f'default block {i} is constant', False, found=_n(e), node=e, module=m)
                continue
            ok1 = t == i
            ok2 = (s == 0) == (v is None)
            ok3 = s == 0 or (r == 65 and isinstance(v, bytes) and len(v) == s) or (r != 65 and sizes.get(r) == s)
            ok4 = r in wmap or r == 65
            rep.ob('R-C08-EB', site, f'default block {i}: type {t} size {s} code {r} value {v!r}', ok1 and ok2 and ok3 and ok4,
                   found=f'type {t} size {s} code {r} value {v!r}', required='type = index; size 0 iff no value; size = size of the code; code writable', node=e, module=m)
            if t != 10:
                total += s
    f = ix.get_func(L, 'EntryBlockSet._setLisSizeEven')
    esite = f'{L}:EntryBlockSet._setLisSizeEven'
    rep.fn(esite)
    g = cfgmod.CFG(f)
    zero = [s for s in g.stmts() if isinstance(s, ast.Assign) and _n(s) == 'self._ebS[0]=EntryBlock(EB_TYPE_TERMINATOR,0,66,None)']
    par = [s for s in g.stmts() if isinstance(s, ast.If) and show(nf(s.test)) == common.nfs('self.lisSize() % 2')]
    one = [s for s in g.stmts() if isinstance(s, ast.Assign) and _n(s) == 'self._ebS[0]=EntryBlock(EB_TYPE_TERMINATOR,1,66,1)']
    dom = g.dominators()
    ok = len(zero) == 1 and len(par) == 1 and zero[0] in dom.get(par[0], ())
    rep.ob('R-C08-EB', esite, 'the terminator is reset to size 0 before the parity of the total size is tested', ok,
           found=f'{len(zero)} reset(s), {len(par)} parity test(s)', required='a terminator left at size 1 by an earlier call would be counted', node=f, module=m)
    ok = len(one) == 1 and len(par) == 1 and _inside(one[0], par[0]) and any(one[0] is x for x in par[0].body) and not par[0].orelse
    rep.ob('R-C08-EB', esite, 'an odd total makes the terminator one byte (size 1, value present)', ok, node=f, module=m)
    ls = ix.get_func(L, 'EntryBlockSet.lisSize')
    r = common.returns_of(ls)
    ok = len(r) == 1 and _n(r[0].value) == 'sum([e.sizeforeinself._ebSife.typenotinself.BLOCKS_TO_SKIP])'
    rep.ob('R-C08-EB', f'{L}:EntryBlockSet.lisSize', 'total size sums every written block including the terminator', ok, found=_n(r[0].value) if r else '', node=ls, module=m)
    for fn in ('setEntryBlock', 'readFromFile', 'lisByteList', '__init__'):
        h = ix.get_func(L, f'EntryBlockSet.{fn}')
        gh = cfgmod.CFG(h)
        ev = [s for s in gh.stmts() if any(_n(c) == 'self._setLisSizeEven()' for c in cfgmod.calls_at(s))]
        muts = [s for s in gh.stmts() if isinstance(s, ast.Assign) and _n(s.targets[0]).startswith('self._ebS')]
        ok = bool(ev) and all(not gh.path_avoiding(mu, gh.EXIT, set(ev), skip_exc=True) for mu in muts)
        if fn == 'lisByteList':
            # before anything is collected for writing: the call dominates every other statement that reads the blocks
            readers = [s for s in gh.stmts() if s not in ev and 'self._ebS' in _n(s)]
            dom = gh.dominators()
            ok = bool(ev) and bool(readers) and all(ev[0] in dom.get(s, ()) for s in readers)
        rep.ob('R-C08-EB', f'{L}:EntryBlockSet.{fn}', 'even length is re-established after every change / before writing', ok, node=h, module=m)
    lb = ix.get_func(L, 'EntryBlockSet.lisByteList')
    src = _n(lb)
    ok = 'ife.typenotinself.BLOCKS_TO_SKIPande.type!=EB_TYPE_TERMINATOR:' in src and 'r.append(self._ebS[EB_TYPE_TERMINATOR].lisBytes())' in src
    app = [c for c in common.calls_in(lb) if _n(c.func) == 'r.append']
    rep.ob('R-C08-EB', f'{L}:EntryBlockSet.lisByteList', 'blocks are written in type order with the terminator last', ok and len(app) == 2, node=lb, module=m)
    se = ix.get_func(L, 'EntryBlockSet.setEntryBlock')
    eb = se.args.args[1].arg
    ok = any(isinstance(n, ast.Assign) and _n(n) == f'self._ebS[{eb}.type]={eb}' for n in walk_no_nested(se))
    rep.ob('R-C08-EB', f'{L}:EntryBlockSet.setEntryBlock', 'a block is stored in the slot of its own type', ok, node=se, module=m)
    # the set accepts every block type it has a default slot for (a refused type keeps its default on decode: readFromFile
    # only logs the refusal)
    n_guard = 0
    for test, negated, node in common.reject_guards(se):
        if isinstance(test, ast.Compare) and len(test.ops) == 1 and isinstance(test.ops[0], (ast.NotIn, ast.In)) and _n(test.left) == f'{eb}.type' \
                and isinstance(test.ops[0], ast.In) == bool(negated):
            n_guard += 1
            try:
                legal = set(ix.fold(L, test.comparators[0]))
            except (Unfoldable, ValueError, TypeError) as err:
                legal = None
            want = set(range(ix.fold_name(L, 'EB_SET_SIZE')))
            rep.ob('R-C08-EB', f'{L}:EntryBlockSet.setEntryBlock', f'legal block types {_n(test.comparators[0])} cover every slot 0..{max(want)}',
                   legal is not None and want <= legal, found=str(sorted(legal) if legal is not None else 'not constant'), required=str(sorted(want)),
                   node=node, module=m)
    rf = ix.get_func(L, 'EntryBlockSet.readFromFile')
    brk = [n for n in walk_no_nested(rf) if isinstance(n, ast.If) and any(isinstance(x, ast.Break) for x in n.body)]
    ok = len(brk) == 1 and show(nf(brk[0].test)) == common.nfs('eb.type == 0')
    rep.ob('R-C08-EB', f'{L}:EntryBlockSet.readFromFile', 'reading stops at the terminator block', ok, node=rf, module=m)
    # DSB
    dv = ix.fold_name(L, 'STRUCT_DSB')
    rep.ob('R-C08-EB', f'{L}:STRUCT_DSB', f'datum spec block struct {dv}', isinstance(dv, StructVal) and dv.format == '>4s6s8s4sI2h3x2B5x' and dv.size == 40, found=str(dv), module=m)
    dr = ix.get_func(L, 'DatumSpecBlockRead.__init__')
    up = [n for n in walk_no_nested(dr) if isinstance(n, ast.Assign) and isinstance(n.targets[0], ast.Tuple) and 'unpack(STRUCT_DSB)' in _n(n.value)]
    want = ['self.mnem', 'self.servId', 'self.servOrd', 'self.units', 'myApiInt', 'self.fileNumber', 'self.size', 'self._samples', 'self.repCode']
    ok = len(up) == 1 and [_n(e) for e in up[0].targets[0].elts] == want
    rep.ob('R-C08-EB', f'{L}:DatumSpecBlockRead.__init__', 'the nine DSB fields are unpacked in layout order (mnem, service id, order, units, API, file, size, samples, rep code)', ok, found=';'.join(_n(u.targets[0]) for u in up), node=dr, module=m)
    sb = ix.get_func(L, 'DatumSpecBlock._setBurstsSubChannels')
    src = _n(sb)
    ok = 'self._bursts=self.size//(myRepCodeSize*self._samples)' in src and 'myRepCodeSize=RepCode.lisSize(self.repCode)' in src and \
        'if self.size%(myRepCodeSize*self._samples)!=0:'.replace(' ', '') in src
    rep.ob('R-C08-EB', f'{L}:DatumSpecBlock._setBurstsSubChannels', 'bursts = size / (code size x samples), exact division required', ok, node=sb, module=m)
    # every channel with at least one byte has its bursts and sub-channels derived: the test that sets a block aside as empty
    # agrees with isNull (size == 0) - a one-byte channel (codes 56, 66) is a channel
    gsb = cfgmod.CFG(sb)
    bst = [s_ for s_ in gsb.stmts() if isinstance(s_, ast.Assign) and _n(s_.targets[0]) == 'self._bursts' and 'self.size//' in _n(s_.value)]
    ok = False
    found = ''
    if len(bst) == 1:
        deps = [(show(nf(b.test)), lab) for b, lab in gsb.control_deps(bst[0]) if isinstance(b, ast.If) and 'self.size' in _n(b.test) and '%' not in _n(b.test)]
        found = str(deps)
        ok = all((t == common.nfs('self.size > 0') and lab == 'true') or (t == common.nfs('self.size < 0') and lab == 'false') or (t == common.nfs('self.size == 0') and lab == 'false')
                 or (t == common.nfs('self.size >= 1') and lab == 'true') for t, lab in deps) and bool(deps)
    rep.ob('R-C08-EB', f'{L}:DatumSpecBlock._setBurstsSubChannels', 'bursts are derived for every size above 0', ok, found=found, required='under `self.size > 0` (isNull is size == 0)',
           node=bst[0] if bst else sb, module=m)
    df = ix.get_func(L, 'LrDFSRRead.__init__')
    src = _n(df)
    ok = 'self.ebs.readFromFile(theFile)' in src and 'myDsbr=DatumSpecBlockRead(theFile)' in src and 'self.dsbBlocks.append(myDsbr)' in src
    rep.ob('R-C08-EB', f'{L}:LrDFSRRead.__init__', 'entry blocks first, then datum spec blocks appended in file order', ok, node=df, module=m)


def run(rep, ix, tier):
    check_writable(rep, ix)
    check_preamble(rep, ix)
    check_ladder(rep, ix)
    check_rows(rep, ix)
    check_eb(rep, ix)
    check_text_length(rep, ix)
    check_cell_types(rep, ix)
    rep.floor('R-C08-CELLTYPE', 1)
    # padded physical records are read with the settings the caller chose: rule of C20
    from . import C20
    C20.pad_binding(rep, ix, 'R-C20-BIND')
    rep.floor('R-C20-BIND', 2)
    rep.floor('R-C08-TEXTLEN', 7)
    rep.floor('R-C08-WRITABLE', 18)
    rep.floor('R-C08-PREAMBLE', 11)
    rep.floor('R-C08-LADDER', 9)
    rep.floor('R-C08-ROWS', 14)
    rep.floor('R-C08-EB', 30)


def check_cell_types(rep, ix):
    """A decoded cell value is bytes, an int or a float (the reader picks by representation code), whatever the column is
    called: code that needs bytes (building a mnemonic from the cell of a column named MNEM) must test the type first or
    catch the TypeError, or a numeric cell under that column name makes the whole table undecodable."""
    m = ix.module(L)
    cls = ix.get_class(L, 'LrTable')
    n = 0
    for f in cls.body:
        if not isinstance(f, ast.FunctionDef):
            continue
        for c in common.calls_in(f):
            if attr_chain(c.func) != 'Mnem.Mnem' or not c.args:
                continue
            src = _n(defuse.inline_locals(f, c.args[0], depth=3))
            if not (src.endswith('.value') and 'self._rows' in src):
                continue
            n += 1
            arg = _n(c.args[0])
            guarded = None
            node, child = getattr(c, '_parent', None), c
            while node is not None and node is not f:
                if isinstance(node, ast.If) and any(child is x or _inside_stmt(child, x) for x in node.body):
                    for t in ast.walk(node.test):
                        if isinstance(t, ast.Call) and _n(t.func) == 'isinstance' and len(t.args) == 2 and _n(t.args[0]) == arg:
                            kinds = {_n(k) for k in (t.args[1].elts if isinstance(t.args[1], ast.Tuple) else [t.args[1]])}
                            if kinds <= {'bytes', 'str', 'bytearray'}:
                                guarded = f'isinstance({arg}, {sorted(kinds)})'
                if isinstance(node, ast.Try) and any(child is x or _inside_stmt(child, x) for x in node.body):
                    for h in node.handlers:
                        names = {_n(k) for k in (h.type.elts if isinstance(h.type, ast.Tuple) else [h.type])} if h.type is not None else {'BaseException'}
                        if names & {'TypeError', 'Exception', 'BaseException'}:
                            guarded = guarded or f'except {sorted(names)}'
                child, node = node, getattr(node, '_parent', None)
            if guarded is not None and guarded.startswith('except'):
                # relying on the TypeError: then the constructor must let an int / float fall through to an operation that raises
                # TypeError - bytes(n) of an int is an allocation of n zero bytes (ValueError if negative), not a refusal
                mi = ix.get_func('TotalDepth.LIS.core.Mnem', 'Mnem.__init__')
                mp = mi.args.args[1].arg
                conv = [x for x in common.calls_in(mi) if _n(x.func) in ('bytes', 'bytearray') and len(x.args) == 1 and not x.keywords and _n(x.args[0]) == mp]
                unsafe = []
                for x in conv:
                    tests = []
                    child, nd = x, getattr(x, '_parent', None)
                    while nd is not None and nd is not mi:
                        if isinstance(nd, ast.If) and any(child is b_ or _inside_stmt(child, b_) for b_ in nd.body):
                            tests.append(_n(nd.test))
                        child, nd = nd, getattr(nd, '_parent', None)
                    if not any(t.startswith(f'isinstance({mp},') and 'int' not in t and 'not' not in t for t in tests):
                        unsafe.append(x)
                rep.ob('R-C08-CELLTYPE', 'TotalDepth.LIS.core.Mnem:Mnem.__init__', 'a numeric argument is refused with TypeError (it is not turned into bytes)', not unsafe,
                       found='; '.join(_n(common.stmt_containing(x)) for x in unsafe), required='no bytes(m) / bytearray(m) on an argument that may be an int',
                       node=unsafe[0] if unsafe else mi, module=ix.module('TotalDepth.LIS.core.Mnem'))
            rep.ob('R-C08-CELLTYPE', f'{L}:LrTable.{f.name}', f'Mnem.Mnem({arg}) on a decoded cell value only when it is bytes', guarded is not None,
                   found=guarded or f'{src} may be an int or a float: len() of it raises TypeError', required='isinstance test on the value, or a TypeError handler',
                   node=c, module=m)


def _inside_stmt(node, st):
    return any(node is x for x in ast.walk(st))


def check_text_length(rep, ix):
    """A text cell (rep code 65) carries its own length, and zero is a legal length (an empty cell): the readers must
    distinguish "no length given" (None) from the length 0, and the table reader must pass the block's size."""
    RC = 'TotalDepth.LIS.core.RepCode'
    rm = ix.module(RC)
    for fn in ('readRepCode', 'readBytes'):
        f = ix.get_func(RC, fn)
        rep.fn(f'{RC}:{fn}')
        ln = f.args.args[2].arg
        dflt = f.args.defaults[-1] if f.args.defaults else None
        guards = [n for n in walk_no_nested(f) if isinstance(n, ast.If) and n.body and isinstance(n.body[0], ast.Raise) and 'ExceptionRepCodeNoLength' in _n(n.body[0])]
        ok = len(guards) == 1 and show(nf(guards[0].test)) == common.nfs(f'{ln} is None') and isinstance(dflt, ast.Constant) and dflt.value is None
        rep.ob('R-C08-TEXTLEN', f'{RC}:{fn}', 'a text value is refused only when no length is given (None); the length 0 is an empty text', ok,
               found=_n(guards[0].test) if guards else 'no guard', required=f'{ln} is None', node=f, module=rm)
        # the guard is under the text rep code test
        outer = [n for n in walk_no_nested(f) if isinstance(n, ast.If) and show(nf(n.test)) == common.nfs(f'{f.args.args[0].arg} == RC_TYPE_TEXT')]
        ok = len(outer) == 1 and guards and any(g is x for g in guards for x in outer[0].body)
        rep.ob('R-C08-TEXTLEN', f'{RC}:{fn}', 'the length is demanded for the text code only', bool(ok), node=f, module=rm)
    # the file answers None for any read at the end of the logical record (PhysRec.readLrBytes), so an empty text that is
    # the last block of a table must be answered without asking the file
    f = ix.get_func(RC, 'readRepCode')
    ln, fobj = f.args.args[2].arg, f.args.args[1].arg
    g = cfgmod.CFG(f)
    dom = g.dominators()
    zero = [n for n in g.stmts() if isinstance(n, ast.If) and show(nf(n.test)) == common.nfs(f'{ln} == 0') and n.body and isinstance(n.body[0], ast.Return)
            and isinstance(n.body[0].value, ast.Constant) and n.body[0].value.value == b'']
    reads = [n for n in g.stmts() if any(_n(c.func) == f'{fobj}.readLrBytes' for c in cfgmod.calls_at(n))]
    ok = len(zero) == 1 and len(reads) == 1 and zero[0] in dom.get(reads[0], ())
    rep.ob('R-C08-TEXTLEN', f'{RC}:readRepCode', "an empty text (length 0) is b'' without reading: a read at the end of the record answers None", ok,
           found=f'{len(zero)} zero-length test(s), {len(reads)} read(s)', required=f"if {ln} == 0: return b'' before {fobj}.readLrBytes({ln})", node=f, module=rm)
    pr = ix.get_func('TotalDepth.LIS.core.PhysRec', 'PhysRecRead.readLrBytes')
    first = pr.body[0] if pr.body else None
    ok = isinstance(first, ast.If) and _n(first.test) == 'notself._readOrSkipPreamble()' and isinstance(first.body[0], ast.Return) and _n(first.body[0].value) == 'None'
    rep.ob('R-C08-TEXTLEN', 'TotalDepth.LIS.core.PhysRec:PhysRecRead.readLrBytes', 'premise: a read at the end of the logical record answers None whatever the size', ok, node=pr, module=ix.module('TotalDepth.LIS.core.PhysRec'))
    try:
        v = ix.fold_name(RC, 'RC_TYPE_TEXT')
    except Exception:
        v = None
    rep.ob('R-C08-TEXTLEN', f'{RC}:RC_TYPE_TEXT', 'the text code is 65', v == 65, found=str(v), module=rm)
