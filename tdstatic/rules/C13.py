"""C13 Western Atlas BIT log passes decode to the recorded numbers (structural clauses)."""
import ast

from .. import alg, bits, cfg as cfgmod, defuse
from ..bits import Bytes, Val
from ..loader import AnalysisError, StructVal, Unfoldable, walk_no_nested
from ..norm import nf, show, attr_chain
from . import common
from .C05 import norm_format
from .C07 import _check_decoder, _ibm, _BodyInterp

EXPLANATION = (
    'Decides on BIT/ReadBIT.py: (1) IBM floats: bytes_to_float (header), gen_floats (frame data) and RP66V1 ISINGL are '
    'abstractly interpreted over symbolic input bits and must equal the IBM single-precision layout (sign b0[7], '
    'exponent b0[6:0] excess 64 base 16, 24-bit fraction) in scaled-affine normal form; (2) de-interleave: frames per '
    'block = len(block) // (4 * channels) recomputed from each block, value i belongs to channel i // frames, the frame '
    'count grows by the frames of the block, add_block keeps no other state; (3) X axis: starts at depth_from, moves by '
    'spacing with the sign chosen by is_increasing, one value per frame; (4) header layout: the offsets of the first '
    'block add up (4+72+5+75+8, count, null, 20 name slots, five floats decoded by bytes_to_float) and channel names are '
    'taken in order; (5) TIF walk: one layout, a pass ends on a type-1 marker, a second one ends the file.')
NOT_DECIDED = 'decoded values of real files.'
ASSUMPTIONS = ['IBM hexadecimal single precision as in RP66V1 Appendix B.5']
TECHNIQUE = 'static analysis: bit-level abstract interpretation, rational normal forms, purity (effect) analysis, CFG rules'

M = 'TotalDepth.BIT.ReadBIT'
RP = 'TotalDepth.RP66V1.core.pRepCode'


def _n(e):
    return ast.unparse(e).replace(' ', '')


def check_ibm(rep, ix):
    bm = ix.module(M)
    f = ix.get_func(M, 'bytes_to_float')
    rep.fn(f'{M}:bytes_to_float')
    it = common.interp(ix, M, f, {f.args.args[0].arg: Bytes('B', 0, 4)})
    _check_decoder(rep, 'R-C13-IBM', f'{M}:bytes_to_float', bm, f, it, lambda a: _ibm(a), 'IBM single (header floats)')
    g = ix.get_func(M, 'gen_floats')
    rep.fn(f'{M}:gen_floats')
    loops = [n for n in g.body if isinstance(n, ast.While)]
    if len(loops) != 1:
        raise AnalysisError('ReadBIT.gen_floats: expected one while loop')
    it = common.interp(ix, M, g, {g.args.args[0].arg: Bytes('B', 0, 1 << 20)}, offset_name='offset')
    _check_decoder(rep, 'R-C13-IBM', f'{M}:gen_floats', bm, g, _BodyInterp(it, loops[0].body), lambda a: _ibm(a), 'IBM single (frame data, per 4-byte step)')
    steps = [st for st in loops[0].body if isinstance(st, ast.AugAssign) and _n(st.target) == 'offset']
    ok = len(steps) == 1 and isinstance(steps[0].op, ast.Add) and _fold(ix, steps[0].value) == 4
    rep.ob('R-C13-IBM', f'{M}:gen_floats', 'the decoder advances four bytes per value', ok, node=g, module=bm)
    rep.ob('R-C13-IBM', f'{M}:gen_floats', 'decoding continues while bytes remain', show(nf(loops[0].test)) in (common.nfs('len(b) > offset'), common.nfs('offset < len(b)')), found=_n(loops[0].test), node=g, module=bm)
    pm = ix.module(RP)
    h = ix.get_func(RP, 'ISINGL')
    rep.fn(f'{RP}:ISINGL')
    it = common.interp(ix, RP, h, {h.args.args[0].arg: ('ld',)})
    _check_decoder(rep, 'R-C13-IBM', f'{RP}:ISINGL', pm, h, it, lambda a: _ibm(a), 'IBM single (RP66V1 code 5)')


def _fold(ix, e):
    try:
        return ix.fold(M, e)
    except Unfoldable:
        return None


def check_interleave(rep, ix):
    bm = ix.module(M)
    f = ix.get_func(M, 'BITFrameArray.add_block')
    site = f'{M}:BITFrameArray.add_block'
    rep.fn(site)
    blk = f.args.args[1].arg
    defs = defuse.assignments(f)
    nfv = [x[0] for x in defs.get('num_frames', [])]
    env = alg.Env(fold=lambda e: _fold_or_raise(ix, e), funcs=('len',))
    ok = False
    if len(nfv) == 1 and isinstance(nfv[0], ast.BinOp) and isinstance(nfv[0].op, ast.FloorDiv):
        try:
            num = env.conv(nfv[0].left)
            den = env.conv(nfv[0].right)
            ok = num.equals(alg.Rat.sym(f'len({blk})')) and den.equals(alg.Rat.const(4) * alg.Rat.sym('self.len_channels'))
        except alg.NotAlgebraic:
            ok = False
    rep.ob('R-C13-INTERLEAVE', site, 'frames in a block = len(block) // (4 * channels), computed from this block', ok,
           found=';'.join(_n(x) for x in nfv), required=f'len({blk}) // (LEN_FLOAT_BYTES * self.len_channels)', node=f, module=bm)
    chn = [x[0] for x in defs.get('channel_number', [])]
    loops = [n for n in walk_no_nested(f) if isinstance(n, ast.For) and _n(n.iter) == f'enumerate(gen_floats({blk}))']
    ok = len(chn) == 1 and len(loops) == 1 and _n(chn[0]) == f'{loops[0].target.elts[0].id}//num_frames'
    rep.ob('R-C13-INTERLEAVE', site, 'value i of a block belongs to channel i // frames_in_block (channel-major blocks)', ok, found=';'.join(_n(x) for x in chn), node=f, module=bm)
    app = [c for c in common.calls_in(f) if _n(c.func) == 'self._temporary_frames[channel_number].append']
    ok = len(app) == 1 and loops and _n(app[0].args[0]) == loops[0].target.elts[1].id
    rep.ob('R-C13-INTERLEAVE', site, 'values are appended to their channel in frame order', ok, node=f, module=bm)
    incs = [n for n in walk_no_nested(f) if isinstance(n, ast.AugAssign) and _n(n.target) == 'self.frame_count']
    ok = len(incs) == 1 and isinstance(incs[0].op, ast.Add) and _n(incs[0].value) == 'num_frames'
    rep.ob('R-C13-INTERLEAVE', site, 'the frame count grows by the frames of this block', ok, found=';'.join(_n(i) for i in incs), node=f, module=bm)
    # a block that is refused (the reader catches the exception, warns and completes the pass with what it has) must leave count
    # and buffers as they were: no refusal is reachable once either has been changed
    g_ab = cfgmod.CFG(f)
    changes = [s_ for s_ in g_ab.stmts() if (isinstance(s_, ast.AugAssign) and _n(s_.target).startswith('self.')) or
               any(isinstance(c.func, ast.Attribute) and c.func.attr in common.MUTATORS and _n(c.func.value).startswith('self.') for c in cfgmod.calls_at(s_))]
    raises = [s_ for s_ in g_ab.stmts() if isinstance(s_, ast.Raise)]
    late = [(c_, r_) for c_ in changes for r_ in raises if g_ab.path_avoiding(c_, r_, set(), skip_exc=True)]
    rep.ob('R-C13-INTERLEAVE', site, 'a block is refused before anything of it is counted or stored', bool(changes) and not late,
           found='; '.join(f'{_n(c_)[:40]} then {_n(r_)[:40]}' for c_, r_ in late[:2]), required='every raise precedes the first change of self.*', node=late[0][0] if late else f, module=bm)
    # purity: no other attribute of self is written; nothing block-derived is cached
    writes = sorted({n.attr for n in walk_no_nested(f) if isinstance(n, ast.Attribute) and isinstance(n.value, ast.Name) and n.value.id == 'self' and isinstance(n.ctx, ast.Store)})
    rep.ob('R-C13-INTERLEAVE', site, 'add_block keeps no per-block state besides the frame count', writes == ['frame_count'], found=str(writes),
           required="['frame_count'] (a cached frames-per-block would be wrong for a short last block)", node=f, module=bm)
    reads = sorted({n.attr for n in walk_no_nested(f) if isinstance(n, ast.Attribute) and isinstance(n.value, ast.Name) and n.value.id == 'self' and isinstance(n.ctx, ast.Load)})
    rep.ob('R-C13-INTERLEAVE', site, 'it reads only the channel list, the buffers and the count', set(reads) <= {'len_channels', 'channel_names', '_temporary_frames', 'frame_count'}, found=str(reads), node=f, module=bm)
    surplus = [n for n in walk_no_nested(f) if isinstance(n, ast.If) and any(isinstance(x, ast.Break) for x in n.body)]
    ok = len(surplus) == 1 and show(nf(surplus[0].test)) == common.nfs(f'{loops[0].target.elts[0].id} >= num_frames * self.len_channels') if loops else False
    rep.ob('R-C13-INTERLEAVE', site, 'only values beyond frames x channels are ignored', ok, node=f, module=bm)
    lc = ix.get_func(M, 'BITFrameArray.len_channels')
    r = common.returns_of(lc)
    rep.ob('R-C13-INTERLEAVE', f'{M}:BITFrameArray.len_channels', 'channel count is the number of header names', len(r) == 1 and _n(r[0].value) == 'len(self.channel_names)', node=lc, module=bm)
    rep.ob('R-C13-INTERLEAVE', f'{M}:LEN_FLOAT_BYTES', 'a value is four bytes', ix.fold_name(M, 'LEN_FLOAT_BYTES') == 4, module=bm)


def _fold_or_raise(ix, e):
    try:
        return ix.fold(M, e)
    except (Unfoldable, AnalysisError):
        raise ValueError('x')


def check_x(rep, ix):
    bm = ix.module(M)
    f = ix.get_func(M, 'BITFrameArray.complete')
    site = f'{M}:BITFrameArray.complete'
    rep.fn(site)
    defs = defuse.assignments(f)
    x0 = [x for x in defs.get('x_value', []) if x[2] is None]
    ok = len(x0) == 1 and _n(x0[0][0]) == 'self.bit_log_pass_range.depth_from'
    rep.ob('R-C13-X', site, 'X starts at the header start depth', ok, node=f, module=bm)
    loops = [n for n in walk_no_nested(f) if isinstance(n, ast.For) and _n(n.iter) == 'range(self.frame_count)']
    ok = len(loops) == 1
    rep.ob('R-C13-X', site, 'one X value per frame', ok, node=f, module=bm)
    if ok:
        lp = loops[0]
        i = lp.target.id
        body = [_n(s) for s in lp.body]
        ifs = [s for s in lp.body if isinstance(s, ast.If)]
        ok = body[:1] == [f'x_channel[{i}]=x_value'] and len(ifs) == 1 and show(nf(ifs[0].test)) == 'self.bit_log_pass_range.is_increasing' and \
            [_n(s) for s in ifs[0].body] == ['x_value+=self.bit_log_pass_range.spacing'] and [_n(s) for s in ifs[0].orelse] == ['x_value-=self.bit_log_pass_range.spacing']
        rep.ob('R-C13-X', site, 'X moves by the header spacing towards the stop depth (plus when increasing, minus otherwise)', ok, found=str(body), node=lp, module=bm)
    ia = [c for c in common.calls_in(f) if _n(c) == 'x_channel.init_array(self.frame_count)']
    rep.ob('R-C13-X', site, 'the X channel has frame_count rows', len(ia) == 1, node=f, module=bm)
    inc = ix.get_func(M, 'LogPassRange.is_increasing')
    r = common.returns_of(inc)
    rep.ob('R-C13-X', f'{M}:LogPassRange.is_increasing', 'increasing means stop depth > start depth', len(r) == 1 and show(nf(r[0].value)) == common.nfs('self.depth_to > self.depth_from'), node=inc, module=bm)
    nt = ix.get_class(M, 'LogPassRange')
    fields = [s.target.id for s in nt.body if isinstance(s, ast.AnnAssign)]
    rep.ob('R-C13-X', f'{M}:LogPassRange', 'header floats are (depth_from, depth_to, spacing, ...)', fields[:3] == ['depth_from', 'depth_to', 'spacing'], found=str(fields), module=bm)
    apps = [_n(c) for c in common.calls_in(f) if _n(c.func) == 'self.frame_array.append']
    rep.ob('R-C13-X', site, 'X axis first, then the channels in header order', apps == ['self.frame_array.append(x_channel)', 'self.frame_array.append(frame_channel)'] and
           any(isinstance(n, ast.For) and _n(n.iter) == 'enumerate(self.channel_names)' for n in walk_no_nested(f)), found=str(apps), node=f, module=bm)
    cp = [n for n in walk_no_nested(f) if isinstance(n, ast.Assign) and _n(n.targets[0]).startswith('frame_channel[')]
    ok = len(cp) == 1 and _n(cp[0]) == 'frame_channel[i]=self._temporary_frames[c][i]'
    rep.ob('R-C13-X', site, 'frame i of channel c is value i of buffer c', ok, found=';'.join(_n(c) for c in cp), node=f, module=bm)


def check_head(rep, ix):
    bm = ix.module(M)
    f = ix.get_func(M, 'BITFrameArray.__init__')
    site = f'{M}:BITFrameArray.__init__'
    rep.fn(site)
    reads = []
    for n in f.body:
        if isinstance(n, ast.Assign) and isinstance(n.value, ast.Call) and _n(n.value.func) == 'read_bytes_from_offset' and isinstance(n.targets[0], ast.Tuple):
            reads.append((_n(n.targets[0].elts[0]), _fold(ix, n.value.args[1])))
    want = [('self.unknown_head', 4), ('self.description', 72), ('self.unknown_a', 5), ('self.unknown_b', 75), ('self.unknown_c', 8)]
    rep.ob('R-C13-HEAD', site, 'fixed header fields 4 + 72 + 5 + 75 + 8 = 164 bytes in this order', reads == want, found=str(reads), node=f, module=bm)
    cnt = [n for n in f.body if isinstance(n, ast.Assign) and _n(n.targets[0]) == 'count']
    ok = len(cnt) == 1 and _n(cnt[0].value) == "struct.unpack('>H',block[offset:offset+2])[0]"
    rep.ob('R-C13-HEAD', site, 'channel count is a big-endian 16-bit word', ok, node=f, module=bm)
    adv = [_n(n) for n in f.body if isinstance(n, ast.AugAssign) and _n(n.target) == 'offset']
    rep.ob('R-C13-HEAD', site, 'count and null word advance the offset by 2 each; unused name slots are skipped (20 slots of 4 bytes)', adv == ['offset+=2', 'offset+=2', 'offset+=4*(20-count)'], found=str(adv), node=f, module=bm)
    loops = [n for n in f.body if isinstance(n, ast.For)]
    ok = len(loops) == 2 and _n(loops[0].iter) == 'range(count)' and [_n(s) for s in loops[0].body] == ['name,offset=read_bytes_from_offset(block,4,offset)', "self.channel_names.append(name.decode('ascii'))"]
    rep.ob('R-C13-HEAD', site, 'channel names are the first `count` 4-byte slots, in order', ok, node=f, module=bm)
    ok = len(loops) == 2 and _n(loops[1].iter) == 'range(5)' and [_n(s) for s in loops[1].body] == ['value,offset=read_bytes_from_offset(block,4,offset)', '_temp.append(bytes_to_float(value))']
    rep.ob('R-C13-HEAD', site, 'five header floats follow, each decoded by bytes_to_float', ok, node=f, module=bm)
    rng = [n for n in f.body if isinstance(n, ast.Assign) and _n(n.targets[0]) == 'self.bit_log_pass_range']
    rep.ob('R-C13-HEAD', site, 'the five floats become the log pass range in order', len(rng) == 1 and _n(rng[0].value) == 'LogPassRange(*_temp)', node=f, module=bm)
    # total with alg: 164 + 4 + 4*count + 4*(20-count) + 20
    total = alg.Rat.const(164 + 4 + 20) + alg.Rat.const(4) * alg.Rat.sym('count') + alg.Rat.const(4) * (alg.Rat.const(20) - alg.Rat.sym('count'))
    rep.ob('R-C13-HEAD', site, 'the decoded header occupies 268 bytes whatever the channel count', total.equals(alg.Rat.const(268)) and reads == want, found=repr(total), module=bm)
    rb = ix.get_func(M, 'read_bytes_from_offset')
    r = common.returns_of(rb)
    a = [x.arg for x in rb.args.args]
    rep.ob('R-C13-HEAD', f'{M}:read_bytes_from_offset', 'slice [offset, offset+count) and the advanced offset', len(r) == 1 and _n(r[0].value) == f'({a[0]}[{a[2]}:{a[2]}+{a[1]}],{a[2]}+{a[1]})', found=_n(r[0].value) if r else '', node=rb, module=bm)
    mx = [n for n in walk_no_nested(f) if isinstance(n, ast.If) and show(nf(n.test)) == common.nfs('count > 20')]
    rep.ob('R-C13-HEAD', site, 'more than 20 channels is refused', len(mx) == 1 and isinstance(mx[0].body[0], ast.Raise), node=f, module=bm)


def check_tif(rep, ix):
    bm = ix.module(M)
    v = ix.fold_name(M, 'TIF_WORD_STRUCT')
    rep.ob('R-TIF', f'{M}:TIF_WORD_STRUCT', 'TIF marker = three little-endian 32-bit words', isinstance(v, StructVal) and norm_format(v.format) == ('<', 'LLL'), found=str(v), module=bm)
    t = ix.get_class(M, 'TifMarker')
    fields = [s.target.id for s in t.body if isinstance(s, ast.AnnAssign)]
    rep.ob('R-TIF', f'{M}:TifMarker', 'fields (tell, type, prev, next)', fields == ['tell', 'type', 'prev', 'next'], found=str(fields), module=bm)
    pl = ix.get_func(M, 'TifMarker.payload_length')
    ln = ix.get_func(M, 'TifMarker.length')
    ok = [_n(r.value) for r in common.returns_of(pl)] == ['self.length-12'] and [_n(r.value) for r in common.returns_of(ln)] == ['self.next-self.tell']
    rep.ob('R-TIF', f'{M}:TifMarker.payload_length', 'payload = next - tell - 12', ok, node=pl, module=bm)
    y = ix.get_func(M, 'yield_tif_blocks')
    rep.fn(f'{M}:yield_tif_blocks')
    src = _n(y)
    ok = 'tif=TifMarker(tell,*TIF_WORD_STRUCT.unpack_from(tif_bytes))' in src and 'byt=file.read(tif.payload_length)' in src and 'tell=file.tell()' in src
    rep.ob('R-TIF', f'{M}:yield_tif_blocks', 'each marker is read at the current position and followed by exactly its payload', ok, node=y, module=bm)
    g = cfgmod.CFG(y)
    ys = [(s, _n(s.value.value)) for s in g.stmts() if isinstance(s, ast.Expr) and isinstance(s.value, ast.Yield)]
    kinds = {}
    for s, v_ in ys:
        deps = [(show(nf(b.test)), lab) for b, lab in g.control_deps(s) if isinstance(b, ast.If)]
        kinds[v_] = deps
    want = {'TifMarkedBytes(tell,TifType.DATA,byt)': [(common.nfs('tif.type == 0'), 'true')],
            'TifMarkedBytes(tell,TifType.END_LOG_PASS,byt)': [(common.nfs('tif.type == 0'), 'false')],
            'TifMarkedBytes(tell,TifType.END_FILE,byt)': [(common.nfs('tif.type == 0'), 'false'), (common.nfs('tif_prev.type != 0'), 'true')]}
    ok = all(kinds.get(k) == v_ for k, v_ in want.items())
    rep.ob('R-TIF', f'{M}:yield_tif_blocks', 'type 0 = data, a type-1 marker ends the pass, a second one in a row ends the file', ok, found=str(kinds), node=y, module=bm)
    chk = [show(nf(t)) for t, neg, n in common.reject_guards(y)]
    rep.ob('R-TIF', f'{M}:yield_tif_blocks', 'markers must chain: each starts where the previous one pointed', common.nfs('tif.tell != tif_prev.next') in chk, found=str(chk), node=y, module=bm)
    c = ix.get_func(M, 'create_bit_frame_array_from_file')
    rep.fn(f'{M}:create_bit_frame_array_from_file')
    g = cfgmod.CFG(c)
    comp = [s for s in g.stmts() if any(_n(x) == 'bit_frame_array.complete()' for x in cfgmod.calls_at(s))]
    deps = [[(show(nf(b.test)), lab) for b, lab in g.control_deps(s) if isinstance(b, ast.If)][-1:] for s in comp]
    ok = len(comp) == 2 and [(common.nfs('tif_block.tif_type == TifType.END_LOG_PASS'), 'true')] in deps and [(common.nfs('bit_frame_array is not None'), 'true')] in deps
    rep.ob('R-C13-INTERLEAVE', f'{M}:create_bit_frame_array_from_file', 'a pass is completed at its end marker (or at end of data) and appended in file order', ok, found=str(deps), node=c, module=bm)
    new = [x for x in common.calls_in(c) if _n(x.func) == 'BITFrameArray']
    add = [x for x in common.calls_in(c) if _n(x) == 'bit_frame_array.add_block(tif_block.payload)']
    rep.ob('R-C13-INTERLEAVE', f'{M}:create_bit_frame_array_from_file', 'the first data block of a pass is its header, later data blocks are frame data', len(new) == 1 and len(add) == 1 and _n(new[0].args[1]) == 'tif_block', node=c, module=bm)
    check_passes(rep, ix)


def check_passes(rep, ix, rule='R-C13-PASSES'):
    """every log pass that is opened ends up in the result: from the statement that opens a frame array no normal path leaves the
    function without appending it (or reaching the `is not None` completion after the loop), whatever marker ends the data"""
    bm = ix.module(M)
    c = ix.get_func(M, 'create_bit_frame_array_from_file')
    site = f'{M}:create_bit_frame_array_from_file'
    g = cfgmod.CFG(c)
    opens = [s for s in g.stmts() if isinstance(s, ast.Assign) and isinstance(s.value, ast.Call) and _n(s.value.func) == 'BITFrameArray' and len(s.targets) == 1 and isinstance(s.targets[0], ast.Name)]
    rep.ob(rule, site, 'the statement that opens a log pass is found', len(opens) == 1, found=str(len(opens)), node=c, module=bm)
    for o in opens:
        v = o.targets[0].id
        appends = [s for s in g.stmts() if any(_n(x.func).endswith('.append') and [_n(a) for a in x.args] == [v] for x in cfgmod.calls_at(s))]
        finals = [s for s in g.stmts() if isinstance(s, ast.If) and show(nf(s.test)) == common.nfs(f'{v} is not None') and not s.orelse
                  and any(a in list(ast.walk(s)) for a in appends)]
        leak = g.path_avoiding(o, g.EXIT, set(appends) | set(finals), skip_exc=True)
        rep.ob(rule, site, f'an opened pass `{v}` always reaches the result list (appended at its end marker, or completed after the loop)', not leak,
               found=f'{len(appends)} append(s), {len(finals)} completion(s) after the loop; a path from the opening to the return avoids them' if leak else f'{len(appends)} append(s)',
               required='no return / fall-through between opening a pass and appending it', node=o, module=bm)
        # the variable is cleared only after the pass has been appended
        for s in g.stmts():
            if isinstance(s, ast.Assign) and [_n(t) for t in s.targets] == [v] and isinstance(s.value, ast.Constant) and s.value.value is None and s is not c.body[0]:
                dom = g.dominators()
                first = [x for x in g.stmts() if x in dom.get(o, ())]
                if s in first:
                    continue        # the initialisation before the loop
                blk = getattr(s, '_parent', None)
                body = next((b for b in (getattr(blk, 'body', []), getattr(blk, 'orelse', [])) if any(x is s for x in b)), [])
                k = next((i for i, x in enumerate(body) if x is s), 0)
                ok = any(x in appends for x in body[:k])
                rep.ob(rule, site, f'`{v}` is cleared only after the pass was appended', ok, node=s, module=bm)
    # the marker kinds are distinguishable
    t = ix.get_class(M, 'TifType')
    vals = {}
    for st in t.body:
        if isinstance(st, ast.Assign) and len(st.targets) == 1 and isinstance(st.targets[0], ast.Name):
            try:
                vals[st.targets[0].id] = ix.fold(M, st.value)
            except Exception:
                vals[st.targets[0].id] = _n(st.value)
    ok = {'DATA', 'END_LOG_PASS', 'END_FILE'} <= set(vals) and len({repr(vals[k]) for k in ('DATA', 'END_LOG_PASS', 'END_FILE')}) == 3
    rep.ob(rule, f'{M}:TifType', 'data, end of pass and end of file are three different enumeration values (equal values would be aliases)', ok, found=str(vals), node=t, module=bm)


def run(rep, ix, tier):
    check_ibm(rep, ix)
    check_interleave(rep, ix)
    check_x(rep, ix)
    check_head(rep, ix)
    check_tif(rep, ix)
    rep.floor('R-C13-IBM', 8)
    rep.floor('R-C13-INTERLEAVE', 10)
    rep.floor('R-C13-X', 8)
    rep.floor('R-C13-HEAD', 9)
    rep.floor('R-TIF', 6)
    rep.floor('R-C13-PASSES', 4)
